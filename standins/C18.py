"""Bounded run-time stand-ins for C18 (coordinate conventions of exports: len, sequence, BED12).

Every oracle below is written from the property statement / the documented contract of the
functions (1-based inclusive GFF coordinates -> 0-based half-open BED coordinates), never from the
code under test:

  len(f)              == f.end - f.start + 1
  f.sequence(fa)      == bases start..end (1-based, inclusive) of fa[f.seqid], reverse-complemented
                         iff use_strand (default True) and strand == '-'
  db.bed12(t, ...)    == 12 tab separated fields
                         chrom, start-1, end, name|'.', score ('.'->'0'), strand, thickStart, thickEnd,
                         rgb, blockCount, blockSizes, blockStarts
                         blocks = block children ascending by start (the feature itself when it has
                         none), size = length, start relative to chromStart; ValueError unless the
                         first block starts at start and the last one ends at end; ValueError when
                         both thick and thin featuretypes are given;
                         thick given and present: thickStart = first thick start - 1, thickEnd = last thick end
                         thin given and present : thickStart = first thin end, thickEnd = last thin start - 1
                         (thickStart/thickEnd are NOT checked when no thick/thin child exists)

Units
  bounded.len_sequence : C18.bounded.len, C18.bounded.sequence
  bounded.bed12_blocks : C18.bounded.bed12_blocks     (exhaustive small block sets, span check)
  bounded.bed12_thick  : C18.bounded.bed12_thick      (thick/thin/name/score/colour/argument shapes)
  bounded.bed12_args   : C18.bounded.bed12_id_no_blocks (known defect F5, expected to fail),
                         C18.bounded.bed12_neither_thick_nor_thin (deviation found by this stand-in),
                         C18.bounded.to_bed12
"""
import itertools
import os
import shutil
import tempfile

import gffutils
from gffutils import convert
from gffutils.feature import Feature, feature_from_line

from contracts.qharness import native_db

MAXFAIL = 25


def _fail(fails, case, expected, observed):
    if len(fails) < MAXFAIL:
        fails.append({"case": case, "expected": expected, "observed": observed})


# =============================================================================================
# len / sequence
# =============================================================================================
ALPHABET = "ACGTNacgtn"
COMPLEMENT = dict(zip("ACGTNacgtn", "TGCANtgcan"))


def oracle_sequence(ref, start, end, strand, use_strand):
    """bases start..end, 1-based inclusive, written base by base"""
    s = "".join(ref[i - 1] for i in range(start, end + 1))
    if use_strand and strand == "-":
        s = "".join(COMPLEMENT[c] for c in reversed(s))
    return s


def write_fasta(path, records, width):
    with open(path, "w") as fh:
        for name, desc, seq in records:
            fh.write(">%s%s\n" % (name, (" " + desc) if desc else ""))
            for i in range(0, len(seq), width):
                fh.write(seq[i:i + width] + "\n")


def _mkfeature_variants(seqid, start, end, strand, how, dbfeats=None, key=None):
    """three independent ways of getting a Feature with these coordinates"""
    if how == 0:
        return Feature(seqid=seqid, source="s", featuretype="region", start=start, end=end, strand=strand)
    if how == 1:
        return feature_from_line("%s\ts\tregion\t%d\t%d\t.\t%s\t.\tID=x" % (seqid, start, end, strand))
    return dbfeats[key]


def unit_len_sequence(U):
    rng = U.rng
    from pyfaidx import Fasta
    tmpd = tempfile.mkdtemp(prefix="c18seq_", dir=tempfile.gettempdir())
    lfails, sfails = [], []
    lcases = scases = 0
    ldistinct, sdistinct = set(), set()
    strands = ("+", "-", ".")
    USE = (("default", None), ("True", True), ("False", False))
    try:
        # ---------------------------------------------------------------- exhaustive part
        widths = (4, 7) if not U.thorough else (1, 3, 4, 7, 13)
        refno = 0
        for width in widths:
            lengths = sorted(set([1, 2, width - 1, width, width + 1, 2 * width, 2 * width + 3, 3 * width + 1]) - set([0]))
            lengths = [n for n in lengths if n <= (26 if not U.thorough else 40)] or [1, 2, 3]
            records = []
            for k, n in enumerate(lengths):
                name = ("chr%d" % k, "%d" % k, "scaf_%d.1" % k, "c|%d" % k)[k % 4]
                records.append((name, "len=%d some description" % n if k % 2 else "", "".join(rng.choice(ALPHABET) for _ in range(n))))
            path = os.path.join(tmpd, "ref%d.fa" % refno)
            refno += 1
            write_fasta(path, records, width)
            fa = Fasta(path)
            # a real database holding every interval, to exercise Features built from rows
            dbf = []
            for name, _, seq in records:
                for s in range(1, len(seq) + 1):
                    for e in range(s, len(seq) + 1):
                        for st in strands:
                            f = Feature(seqid=name, source="s", featuretype="region", start=s, end=e, strand=st,
                                        attributes={"ID": ["%s:%d-%d%s" % (name, s, e, st)]})
                            f.id = "%s:%d-%d%s" % (name, s, e, st)
                            dbf.append(f)
            db = native_db(dbf)
            dbfeats = dict((f.id, f) for f in db.all_features())
            n = 0
            for name, _, seq in records:
                for s in range(1, len(seq) + 1):
                    for e in range(s, len(seq) + 1):
                        for st in strands:
                            for how in (0, 1, 2):
                                f = _mkfeature_variants(name, s, e, st, how, dbfeats, "%s:%d-%d%s" % (name, s, e, st))
                                lcases += 1
                                ldistinct.add((s, e))
                                try:
                                    got = len(f)
                                except Exception as ex:
                                    got = repr(ex)
                                if got != e - s + 1:
                                    _fail(lfails, {"start": s, "end": e, "strand": st, "built": how}, e - s + 1, got)
                                for ulabel, use in USE:
                                    n += 1
                                    # the file-name form of the argument for every third case
                                    byname = (n % 3 == 0)
                                    exp = oracle_sequence(seq, s, e, st, True if use is None else use)
                                    scases += 1
                                    sdistinct.add((width, name, s, e, st, ulabel))
                                    try:
                                        args = (path if byname else fa,)
                                        got = f.sequence(*args) if use is None else (
                                            f.sequence(args[0], use_strand=use) if n % 2 else f.sequence(args[0], use))
                                    except Exception as ex:
                                        got = repr(ex)
                                    if got != exp or len(exp) != e - s + 1:
                                        _fail(sfails, {"fasta_records": records, "line_width": width, "seqid": name, "start": s, "end": e,
                                                       "strand": st, "use_strand": ulabel, "fasta_arg": "filename" if byname else "pyfaidx.Fasta",
                                                       "feature_built": ("Feature()", "feature_from_line", "db row")[how]}, exp, got)
            fa.close()
        # ---------------------------------------------------------------- random part
        nrand = 4000 if not U.thorough else 150000
        records = []
        for k, (n, name) in enumerate(((rng.randint(150, 400), "chr1"), (rng.randint(1000, 3000), "chrUn_gl000220"), (rng.randint(50, 70), "MT"))):
            records.append((name, "", "".join(rng.choice(ALPHABET) for _ in range(n))))
        path = os.path.join(tmpd, "big.fa")
        width = rng.choice((50, 60, 61))
        write_fasta(path, records, width)
        fa = Fasta(path)
        for i in range(nrand):
            name, _, seq = records[rng.randrange(len(records))]
            L = len(seq)
            kind = rng.randrange(8)
            if kind == 0:
                s, e = 1, rng.randint(1, L)
            elif kind == 1:
                s = rng.randint(1, L)
                e = L
            elif kind == 2:
                s = e = rng.randint(1, L)
            elif kind == 3:       # around a line boundary of the FASTA file
                b = width * rng.randint(1, max(1, L // width))
                s = max(1, min(L, b + rng.randint(-2, 2)))
                e = max(s, min(L, s + rng.choice((0, 1, 2, width - 1, width, width + 1))))
            else:
                s = rng.randint(1, L)
                e = rng.randint(s, min(L, s + rng.choice((3, 30, 300, L))))
            st = rng.choice(strands)
            ulabel, use = USE[rng.randrange(3)]
            f = _mkfeature_variants(name, s, e, st, i % 2)
            byname = (i % 10 == 0)
            exp = oracle_sequence(seq, s, e, st, True if use is None else use)
            scases += 1
            sdistinct.add(("big", name, s, e, st, ulabel))
            lcases += 1
            ldistinct.add((s, e))
            try:
                got = f.sequence(path if byname else fa) if use is None else f.sequence(path if byname else fa, use_strand=use)
                gl = len(f)
            except Exception as ex:
                got = gl = repr(ex)
            if gl != e - s + 1:
                _fail(lfails, {"start": s, "end": e, "strand": st}, e - s + 1, gl)
            if got != exp or len(got) != e - s + 1:
                _fail(sfails, {"fasta_records": [[r[0], r[2]] for r in records], "line_width": width, "seqid": name, "start": s, "end": e, "strand": st,
                               "use_strand": ulabel, "fasta_arg": "filename" if byname else "pyfaidx.Fasta"}, exp, got)
        fa.close()
        # ---------------------------------------------------------------- len on large coordinates
        for i in range(2000 if not U.thorough else 50000):
            s = rng.choice((1, rng.randint(1, 100), rng.randint(1, 2 ** 31), 2 ** 29 - 1, 2 ** 29))
            e = s + rng.choice((0, 1, 2, rng.randint(0, 1000), rng.randint(0, 2 ** 31)))
            st = rng.choice(strands)
            f = _mkfeature_variants("c", s, e, st, i % 2)
            lcases += 1
            ldistinct.add((s, e))
            try:
                got = len(f)
            except Exception as ex:
                got = repr(ex)
            if got != e - s + 1:
                _fail(lfails, {"start": s, "end": e, "strand": st, "built": i % 2}, e - s + 1, got)
    finally:
        shutil.rmtree(tmpd, ignore_errors=True)
    U.bounded_result("C18.bounded.len", "len(feature) == end - start + 1 for Features built by the constructor, feature_from_line and from a database row",
                     "every 1 <= start <= end <= L for L up to %d, 3 strands, plus random coordinates up to 2**32" % (26 if not U.thorough else 40),
                     lcases, lfails, distinct=len(ldistinct))
    U.bounded_result("C18.bounded.sequence",
                     "feature.sequence(fasta) == bases start..end (1-based inclusive) of the named record, reverse-complemented iff use_strand (default True) and strand '-'; its length == len(feature)",
                     "exhaustive: every (start, end) inside every record of multi-record FASTA files with line widths %s and record lengths around the line width, strands + - ., "
                     "use_strand default/True/False (keyword and positional), fasta given as pyfaidx.Fasta and as file name, Features from constructor / feature_from_line / database; "
                     "random: %d intervals in 3 records of 50..3000 bases (ends, single bases, FASTA line boundaries)" % (list(widths), nrand),
                     scases, sfails, distinct=len(sdistinct))


# =============================================================================================
# BED12: independent oracle
# =============================================================================================
DEFAULTS = {"block_featuretype": "exon", "thick_featuretype": "CDS", "thin_featuretype": None, "name_field": "ID", "color": None}


def _types(x):
    if x is None:
        return None
    if isinstance(x, str):
        return [x]
    return list(x)


def oracle_bed12(rec, kwargs):
    """rec: dict(seqid, start, end, strand, score, attrs, children=[(featuretype, start, end)])
    -> ("raise", "ValueError") | ("ambiguous",) | ("fields", [12 expected strings or None], tie_tolerant_blocks)"""
    kw = dict(DEFAULTS)
    kw.update(kwargs)
    thick_t, thin_t = _types(kw["thick_featuretype"]), _types(kw["thin_featuretype"])
    if thick_t and thin_t:
        return ("raise", "ValueError")
    block_t = _types(kw["block_featuretype"]) or []
    blocks = sorted((s, e) for (ft, s, e) in rec["children"] if ft in block_t)
    if not blocks:
        blocks = [(rec["start"], rec["end"])]
    last_start = blocks[-1][0]
    last_ends = set(e for (s, e) in blocks if s == last_start)
    if len(last_ends) > 1:
        return ("ambiguous",)
    if blocks[0][0] != rec["start"] or blocks[-1][1] != rec["end"]:
        return ("raise", "ValueError")
    ties = len(set(s for s, e in blocks)) != len(blocks)
    chrom_start = rec["start"] - 1
    thick_start = thick_end = None
    if thick_t:
        th = sorted((s, e) for (ft, s, e) in rec["children"] if ft in thick_t)
        if th:
            if len(set(s for s, e in th)) != len(th):
                return ("ambiguous",)
            thick_start, thick_end = th[0][0] - 1, th[-1][1]
    elif thin_t:
        th = sorted((s, e) for (ft, s, e) in rec["children"] if ft in thin_t)
        if th:
            if len(set(s for s, e in th)) != len(th):
                return ("ambiguous",)
            thick_start, thick_end = th[0][1], th[-1][0] - 1
    else:
        return ("neither",)
    name = rec["attrs"].get(kw["name_field"])
    name = name[0] if name else "."
    score = "0" if rec["score"] == "." else rec["score"]
    rgb = "0,0,0" if kw["color"] is None else kw["color"]
    fields = [rec["seqid"], chrom_start, rec["end"], name, score, rec["strand"], thick_start, thick_end, rgb, len(blocks),
              ",".join(str(e - s + 1) for s, e in blocks), ",".join(str(s - 1 - chrom_start) for s, e in blocks)]
    return ("fields", [None if x is None else str(x) for x in fields], ties)


def compare_bed12(exp, call):
    """call() -> the real result.  Returns None if it agrees with exp, else a description of what was observed."""
    try:
        got = call()
    except Exception as ex:
        if exp[0] == "raise" and type(ex).__name__ == exp[1] and isinstance(ex, ValueError):
            return None
        return "raised " + repr(ex)
    if exp[0] == "raise":
        return got
    if not isinstance(got, str):
        return repr(got)
    obs = got.split("\t")
    if len(obs) != 12:
        return got
    want, ties = exp[1], exp[2]
    for i, (w, o) in enumerate(zip(want, obs)):
        if w is None:
            continue
        if i >= 10 and ties:
            continue
        if w != o:
            return got
    if ties:
        try:
            opairs = list(zip([int(x) for x in obs[11].split(",")], [int(x) for x in obs[10].split(",")]))
        except ValueError:
            return got
        wpairs = list(zip([int(x) for x in want[11].split(",")], [int(x) for x in want[10].split(",")]))
        if sorted(opairs) != sorted(wpairs) or [p[0] for p in opairs] != sorted(p[0] for p in opairs):
            return got
    # coherence clauses of the statement, evaluated on the observed line itself
    try:
        sizes = [int(x) for x in obs[10].split(",")]
        starts = [int(x) for x in obs[11].split(",")]
        if int(obs[9]) != len(sizes) or len(sizes) != len(starts) or starts[0] != 0 or int(obs[1]) + starts[-1] + sizes[-1] != int(obs[2]):
            return got
    except ValueError:
        return got
    return None


def expected_json(exp):
    if exp[0] == "raise":
        return "raises " + exp[1]
    return "\t".join("*" if x is None else x for x in exp[1]) + ("   (* = not checked%s)" % ("; blocks with equal starts in any order" if exp[2] else ""))


# =============================================================================================
# BED12: building databases
# =============================================================================================
def mkfeat(fid, ft, start, end, strand, seqid="chr1", score=".", attrs=None):
    f = Feature(seqid=seqid, source="src", featuretype=ft, start=start, end=end, score=score, strand=strand, frame=".",
                attributes=dict((k, list(v)) for k, v in (attrs or {}).items()))
    f.id = fid
    return f


class Batch(object):
    """A set of independent transcripts (records) living in one database."""

    def __init__(self):
        self.features, self.relations, self.records = [], [], {}

    def add(self, rec, child_feats, extra_relations=()):
        """rec: record dict with 'id'; child_feats: list of (id, featuretype, start, end, parents) in insertion order"""
        self.features.append(mkfeat(rec["id"], rec["featuretype"], rec["start"], rec["end"], rec["strand"], rec["seqid"], rec["score"], rec["attrs"]))
        self.records[rec["id"]] = rec
        for cid, ft, s, e, parents in child_feats:
            self.features.append(mkfeat(cid, ft, s, e, rec["strand"], rec["seqid"], ".", {"ID": [cid], "Parent": list(parents)}))
            for p in parents:
                self.relations.append((p, cid, 1))
        self.relations.extend(extra_relations)

    def add_plain(self, rec, relations=()):
        self.features.append(mkfeat(rec["id"], rec["featuretype"], rec["start"], rec["end"], rec["strand"], rec["seqid"], rec["score"], rec["attrs"]))
        self.records[rec["id"]] = rec
        self.relations.extend(relations)

    def build(self, how):
        if how == "native_db":
            return native_db(self.features, self.relations)
        # the real importer: relations come from the Parent attributes (levels 1 and 2)
        return gffutils.create_db(iter(self.features), ":memory:", id_spec="ID", merge_strategy="error", keep_order=True)

    def lines(self, tid):
        rec = self.records[tid]
        ids = set([tid]) | set(rec.get("child_ids", ()))
        return [str(f) for f in self.features if f.id in ids]


# =============================================================================================
# BED12, unit 1: exhaustive small block sets (ordering, sizes, starts, span check)
# =============================================================================================
def block_sets(W, kmax):
    ivs = [(s, e) for s in range(1, W + 1) for e in range(s, W + 1)]
    for k in range(0, kmax + 1):
        for comb in itertools.combinations(ivs, k):
            if len(set(s for s, e in comb)) == k:
                yield comb


def unit_bed12_blocks(U):
    rng = U.rng
    W, kmax = (6, 3) if U.thorough else (5, 3)
    offsets = (0, 1000)
    fails, cases, distinct = [], 0, 0
    ivs = [(s, e) for s in range(1, W + 1) for e in range(s, W + 1)]
    sets = list(block_sets(W, kmax))
    if U.thorough:
        # one more position with up to two blocks
        extra = [(7, [c for c in block_sets(7, 2)])]
    else:
        extra = [(6, [c for c in block_sets(6, 2)])]
    plans = [(ivs, sets)] + [([(s, e) for s in range(1, w + 1) for e in range(s, w + 1)], cs) for (w, cs) in extra]
    n = 0
    for off in offsets:
        for pi, (tivs, csets) in enumerate(plans):
            if not U.thorough and (pi == 0) != (off == 0):
                continue      # quick tier: main plan at offset 0, the wider plan at offset 1000
            for (ts, te) in tivs:
                batch = Batch()
                for comb in csets:
                    n += 1
                    tid = "t%d" % n
                    strand = "+-"[n % 2]
                    order = list(range(len(comb)))
                    mode = n % 3
                    if mode == 1:
                        order.reverse()
                    elif mode == 2:
                        rng.shuffle(order)
                    kids = [("%s.e%d" % (tid, k), "exon", comb[k][0] + off, comb[k][1] + off, [tid]) for k in order]
                    rec = {"id": tid, "featuretype": "mRNA", "seqid": "chr1", "start": ts + off, "end": te + off, "strand": strand, "score": ".",
                           "attrs": {"ID": [tid]}, "children": [("exon", s + off, e + off) for (s, e) in comb], "child_ids": [k[0] for k in kids],
                           "order": ("ascending", "descending", "shuffled")[mode]}
                    batch.add(rec, kids)
                db = batch.build("native_db")
                for tid, rec in batch.records.items():
                    exp = oracle_bed12(rec, {})
                    for argkind in ("id", "feature"):
                        if argkind == "id" and not rec["children"]:
                            continue      # known defect F5, reported by bounded.bed12_args
                        arg = tid if argkind == "id" else db[tid]
                        cases += 1
                        bad = compare_bed12(exp, lambda: db.bed12(arg))
                        if bad is not None:
                            _fail(fails, {"lines": batch.lines(tid), "insertion_order": rec["order"], "arg": argkind, "kwargs": {}}, expected_json(exp), bad)
                    distinct += 1
    U.bounded_result("C18.bounded.bed12_blocks",
                     "db.bed12(t) has chromStart=start-1, chromEnd=end, one block per exon child ascending by start, sizes = lengths, starts relative to chromStart "
                     "(first 0, last block ending at chromEnd), and raises ValueError exactly when the first block does not start at start or the last one does not end at end",
                     "exhaustive: every transcript interval in 1..%d x every set of <= %d exon intervals in 1..%d with distinct starts (nested, overlapping, abutting, outside the transcript), "
                     "plus every interval in 1..%d x <= 2 exons; coordinate offsets 0 and 1000 (quick tier: 0 for the first family, 1000 for the second); children inserted ascending / descending / shuffled; argument as id and as Feature"
                     % (W, kmax, W, plans[1][0][-1][1]),
                     cases, fails, exhaustive=True, distinct=distinct)


# =============================================================================================
# BED12, realistic transcripts (shared by the units below)
# =============================================================================================
def gen_transcript(rng, tid, n_exons, run, strand, order, need_id_attr=False):
    """-> (rec, child_feats).  run: None (no CDS) | (i, j) exon run covered by CDS | int (number of CDS when n_exons == 0)"""
    pos = rng.choice((1, 1, 2, rng.randint(3, 40), rng.randint(90, 1200)))
    exons = []
    for _ in range(n_exons):
        ln = rng.choice((1, 1, 2, 3, rng.randint(4, 15)))
        exons.append((pos, pos + ln - 1))
        pos += ln + rng.choice((0, 1, 1, 2, rng.randint(3, 12)))
    cds, left_thin, right_thin, stop = [], [], [], []
    if n_exons == 0:
        ts = pos
        te = ts + rng.choice((0, 1, rng.randint(2, 30)))
        if isinstance(run, int) and run:
            te = max(te, ts + 2 * run + rng.randint(0, 3))
            pts = sorted(rng.sample(range(ts, te + 2), 2 * run))
            cds = [(pts[2 * k], pts[2 * k + 1] - 1) for k in range(run)]
    else:
        ts, te = exons[0][0], exons[-1][1]
        if run is not None:
            i, j = run
            c = [list(e) for e in exons[i:j + 1]]
            tl = rng.choice((0, 0, 1, 2))
            tr = rng.choice((0, 0, 1, 2))
            tl = min(tl, c[0][1] - c[0][0])
            c[0][0] += tl
            tr = min(tr, c[-1][1] - c[-1][0])
            c[-1][1] -= tr
            cds = [tuple(x) for x in c]
            left_thin = list(exons[:i]) + ([(exons[i][0], cds[0][0] - 1)] if cds[0][0] > exons[i][0] else [])
            right_thin = ([(cds[-1][1] + 1, exons[j][1])] if cds[-1][1] < exons[j][1] else []) + list(exons[j + 1:])
            if rng.random() < 0.5:
                if strand == "+" and cds[-1][1] + 3 <= exons[j][1]:
                    stop = [(cds[-1][1] + 1, cds[-1][1] + 3)]
                elif strand == "-" and cds[0][0] - 3 >= exons[i][0]:
                    stop = [(cds[0][0] - 3, cds[0][0] - 1)]
    lt, rt = ("five_prime_UTR", "three_prime_UTR") if strand == "+" else ("three_prime_UTR", "five_prime_UTR")
    groups = [[("exon", s, e) for s, e in exons], [("CDS", s, e) for s, e in cds],
              [(lt, s, e) for s, e in left_thin] + [(rt, s, e) for s, e in right_thin], [("stop_codon", s, e) for s, e in stop]]
    children = [c for g in groups for c in g]
    if order == "descending":
        ordered = [c for g in groups for c in reversed(g)]
    elif order == "shuffled":
        ordered = list(children)
        rng.shuffle(ordered)
    elif order == "interleaved":
        ordered = sorted(children, key=lambda c: (-c[1], c[0]))
    else:
        ordered = list(children)
    attrs = {}
    if need_id_attr or rng.random() < 0.75:
        attrs["ID"] = [tid]
    if rng.random() < 0.5:
        attrs["Name"] = [rng.choice(("nm", "a b", "x;y", "N1"))] + (["second"] if rng.random() < 0.4 else [])
    if rng.random() < 0.3:
        attrs["transcript_id"] = ["TX_" + tid]
    rec = {"id": tid, "featuretype": "mRNA", "seqid": rng.choice(("chr1", "chr1", "2L", "scaffold_12.1")), "start": ts, "end": te, "strand": strand,
           "score": rng.choice((".", ".", "0", "960", "1.5e-10")), "attrs": attrs, "children": children, "order": order}
    kids = [("%s.c%d" % (tid, k), ft, s, e, [tid]) for k, (ft, s, e) in enumerate(ordered)]
    rec["child_ids"] = [k[0] for k in kids]
    return rec, kids


def runs_for(n_exons):
    if n_exons == 0:
        return [None, 1, 2]
    return [None] + [(i, j) for i in range(n_exons) for j in range(i, n_exons)]


MODES = [
    {},
    {"block_featuretype": "exon", "thick_featuretype": "CDS"},
    {"block_featuretype": ["exon"], "thick_featuretype": ["CDS"]},
    {"block_featuretype": ("exon",), "thick_featuretype": ("CDS", "stop_codon")},
    {"thick_featuretype": ["CDS", "stop_codon"]},
    {"thick_featuretype": None, "thin_featuretype": ["five_prime_UTR", "three_prime_UTR"]},
    {"thick_featuretype": None, "thin_featuretype": "five_prime_UTR"},
    {"thick_featuretype": None, "thin_featuretype": "three_prime_UTR"},
    {"thick_featuretype": "CDS", "thin_featuretype": "five_prime_UTR"},
    {"thin_featuretype": ["three_prime_UTR"]},
    {"block_featuretype": "CDS"},
    {"block_featuretype": ["exon", "CDS"]},
    {"block_featuretype": ["five_prime_UTR", "CDS", "three_prime_UTR"]},
    {"block_featuretype": "no_such_type"},
    {"thick_featuretype": "no_such_type"},
    {"thick_featuretype": None, "thin_featuretype": "no_such_type"},
]
NAMES = [{}, {"name_field": "ID"}, {"name_field": "Name"}, {"name_field": "transcript_id"}, {"name_field": "absent_key"}]
COLORS = [{}, {}, {"color": None}, {"color": "255,0,0"}, {"color": "0,128,255"}]


def call_bed12(db, arg, kwargs, positional):
    if positional:
        kw = dict(DEFAULTS)
        kw.update(kwargs)
        return db.bed12(arg, kw["block_featuretype"], kw["thick_featuretype"], kw["thin_featuretype"], kw["name_field"], kw["color"])
    return db.bed12(arg, **kwargs)


def jsonable_kwargs(kw):
    return dict((k, list(v) if isinstance(v, tuple) else v) for k, v in kw.items())


def unit_bed12_thick(U):
    rng = U.rng
    N, R = (6, 12) if U.thorough else (4, 5)
    orders = ("ascending", "descending", "shuffled", "interleaved")
    fails, cases = [], 0
    distinct = set()
    counter = 0
    for rep in range(R):
        how = "create_db" if rep % 3 == 1 else "native_db"
        batch = Batch()
        todo = []      # (record id, kind)
        for n_exons in range(0, N + 1):
            for run in runs_for(n_exons):
                for strand in "+-":
                    for order in orders:
                        counter += 1
                        tid = "tx%d" % counter
                        rec, kids = gen_transcript(rng, tid, n_exons, run, strand, order, need_id_attr=(how == "create_db"))
                        variant = rng.randrange(6)
                        extra = []
                        if variant == 0:
                            # a twin transcript sharing every child
                            twin = dict(rec, id=tid + "_tw", attrs={"ID": [tid + "_tw"], "Name": ["twin"]}, score="7")
                            kids = [(cid, ft, s, e, [tid, twin["id"]]) for (cid, ft, s, e, _) in kids]
                            batch.add(rec, kids)
                            batch.add_plain(twin)
                            todo.append(twin["id"])
                        elif variant in (1, 2):
                            # a gene above the transcript: its blocks are level-2 children
                            widen = (variant == 2 and rng.random() < 0.5)
                            gid = "g_" + tid
                            gene = dict(rec, id=gid, featuretype="gene", attrs={"ID": [gid], "Name": ["gene name"]}, score=".",
                                        start=rec["start"] - (1 if widen and rec["start"] > 1 else 0), end=rec["end"] + (3 if widen else 0))
                            rec["attrs"] = dict(rec["attrs"], Parent=[gid])
                            batch.add_plain(gene, [(gid, tid, 1)] + [(gid, k[0], 2) for k in kids])
                            batch.add(rec, kids)
                            # the transcript is a child of the gene but of none of the queried types
                            todo.append(gid)
                        else:
                            batch.add(rec, kids)
                        todo.append(tid)
        db = batch.build(how)
        feats = {}
        for tid in todo:
            rec = batch.records[tid]
            primary = tid.startswith("tx") and not tid.endswith("_tw")
            modes = list(range(len(MODES))) if primary else [0, 3, 5, rng.randrange(len(MODES))]
            for mi in modes:
                kw = dict(MODES[mi])
                kw.update(NAMES[rng.randrange(len(NAMES))] if mi else {})
                kw.update(COLORS[rng.randrange(len(COLORS))] if mi else {})
                exp = oracle_bed12(rec, kw)
                if exp[0] in ("ambiguous", "neither"):
                    continue
                has_blocks = any(ft in (_types(kw.get("block_featuretype", "exon")) or []) for ft, _, _ in rec["children"])
                for argkind in ("id", "feature"):
                    if argkind == "id" and not has_blocks and not (_types(kw.get("thick_featuretype", "CDS")) and _types(kw.get("thin_featuretype"))):
                        continue      # known defect F5, reported by bounded.bed12_args
                    if argkind == "feature":
                        if tid not in feats:
                            feats[tid] = db[tid]
                        arg = feats[tid]
                    else:
                        arg = tid
                    positional = (mi % 4 == 3)
                    cases += 1
                    distinct.add((tid, mi, argkind))
                    bad = compare_bed12(exp, lambda: call_bed12(db, arg, kw, positional))
                    if bad is not None:
                        base = tid[2:] if tid.startswith("g_") else (tid[:-3] if tid.endswith("_tw") else tid)
                        lines = batch.lines(base) if primary else batch.lines(tid)[:1] + batch.lines(base)
                        _fail(fails, {"lines": lines,
                                      "relations": "Parent attributes (level 1)" + (", plus level 2 from the gene to the transcript's children" if tid.startswith("g_") else ""),
                                      "built_by": how, "insertion_order": rec["order"], "arg": argkind, "kwargs": jsonable_kwargs(kw),
                                      "positional": positional, "bed12_of": tid}, expected_json(exp), bad)
    U.bounded_result("C18.bounded.bed12_thick",
                     "db.bed12(t, block/thick/thin featuretypes, name_field, color) == the twelve fields of the statement: name = first value of name_field or '.', score '.'->'0', "
                     "thickStart = first thick start-1 / thickEnd = last thick end (thin: first thin end / last thin start-1) when such children exist, blocks as in bed12_blocks, "
                     "ValueError when both thick and thin are given or the blocks do not span the feature",
                     "%d rounds x every (number of exons 0..%d, CDS = none or any contiguous exon run with trimmed ends, or 0..2 CDS without exons) x strand +/- x insertion order "
                     "ascending/descending/shuffled/interleaved, random exon/gap lengths (1 bp exons, abutting exons, start 1), UTR and stop_codon children, x %d featuretype choices "
                     "(str/list/tuple, defaults, positional), name present/absent/multi-valued, score, colour, id and Feature argument; twin transcripts sharing children; "
                     "genes with level-2 blocks; databases built by native_db and by create_db"
                     % (R, N, len(MODES)),
                     cases, fails, distinct=len(distinct))


# =============================================================================================
# BED12, argument shapes reported separately + convert.to_bed12
# =============================================================================================
def oracle_to_bed12(rec, child_type, name_field):
    blocks = sorted((s, e) for (ft, s, e) in rec["children"] if ft == child_type)
    if len(set(s for s, e in blocks)) != len(blocks):
        return None
    name = rec["attrs"].get(name_field)
    name = name[0] if name else "."
    return [rec["seqid"], str(rec["start"] - 1), str(rec["end"]), name, None, rec["strand"], None, None, None, str(len(blocks)),
            ",".join(str(e - s + 1) for s, e in blocks), ",".join(str(s - rec["start"]) for s, e in blocks)]


def unit_bed12_args(U):
    rng = U.rng
    N, R = (5, 12) if U.thorough else (3, 3)
    f5_fails, f5_cases = [], 0
    nn_fails, nn_cases = [], 0
    tb_fails, tb_cases = [], 0
    counter = 0
    for rep in range(R):
        how = "create_db" if rep % 2 else "native_db"
        batch = Batch()
        for n_exons in range(0, N + 1):
            for run in runs_for(n_exons):
                for strand in "+-":
                    for order in ("ascending", "descending", "shuffled"):
                        counter += 1
                        rec, kids = gen_transcript(rng, "ty%d" % counter, n_exons, run, strand, order, need_id_attr=(how == "create_db"))
                        batch.add(rec, kids)
        db = batch.build(how)
        for tid, rec in batch.records.items():
            feat = db[tid]
            # ---- F5: an id whose feature has no block children
            for kw in ({}, {"block_featuretype": "no_such_type"}, {"block_featuretype": ["no_such_type"], "name_field": "Name"}):
                bt = _types(kw.get("block_featuretype", "exon"))
                if any(ft in bt for ft, _, _ in rec["children"]):
                    continue
                exp = oracle_bed12(rec, kw)
                if exp[0] != "fields":
                    continue
                f5_cases += 1
                bad = compare_bed12(exp, lambda: db.bed12(tid, **kw))
                if bad is not None:
                    _fail(f5_fails, {"lines": batch.lines(tid), "built_by": how, "arg": "id", "kwargs": kw, "bed12_of": tid}, expected_json(exp), bad)
            # ---- neither thick nor thin featuretype
            for kw in ({"thick_featuretype": None}, {"thick_featuretype": None, "thin_featuretype": None}, {"thick_featuretype": []}):
                has_blocks = any(ft == "exon" for ft, _, _ in rec["children"])
                exp = oracle_bed12(rec, dict(kw, thick_featuretype="no_such_type"))     # same line, thickStart/thickEnd unchecked
                if exp[0] == "ambiguous":
                    continue
                for argkind in ("id", "feature"):
                    if argkind == "id" and not has_blocks:
                        continue
                    nn_cases += 1
                    bad = compare_bed12(exp, lambda: db.bed12(tid if argkind == "id" else feat, **kw))
                    if bad is not None:
                        _fail(nn_fails, {"lines": batch.lines(tid), "built_by": how, "arg": argkind, "kwargs": kw, "bed12_of": tid}, expected_json(exp), bad)
            # ---- convert.to_bed12
            for child_type, name_field in (("exon", "ID"), ("CDS", "Name"), ("exon", "transcript_id")):
                want = oracle_to_bed12(rec, child_type, name_field)
                if want is None:
                    continue
                for argkind in ("id", "feature"):
                    tb_cases += 1
                    try:
                        if child_type == "exon" and name_field == "ID" and tb_cases % 2:
                            got = convert.to_bed12(tid if argkind == "id" else feat, db)
                        else:
                            got = convert.to_bed12(tid if argkind == "id" else feat, db, child_type=child_type, name_field=name_field)
                        ok = got.endswith("\n") and len(got[:-1].split("\t")) == 12 and all(w is None or w == o for w, o in zip(want, got[:-1].split("\t")))
                    except Exception as ex:
                        got, ok = "raised " + repr(ex), False
                    if not ok:
                        _fail(tb_fails, {"lines": batch.lines(tid), "built_by": how, "arg": argkind, "child_type": child_type, "name_field": name_field},
                              "\t".join("*" if w is None else w for w in want) + "\\n", got)
    scope = ("%d rounds x every (0..%d exons, CDS none / contiguous run / 0..2 without exons) x strand x insertion order ascending/descending/shuffled, "
             "databases built by native_db and create_db" % (R, N))
    U.bounded_result("C18.bounded.bed12_id_no_blocks",
                     "db.bed12('<id>') of a feature without block children == the single-block line of the feature itself (as bed12(Feature) gives) [known defect F5]",
                     scope + "; block_featuretype default / absent type (str, list)", f5_cases, f5_fails)
    U.bounded_result("C18.bounded.bed12_neither_thick_nor_thin",
                     "db.bed12(t, thick_featuretype=None|[] [, thin_featuretype=None]) still returns the twelve fields (thickStart/thickEnd unchecked) or the span ValueError",
                     scope + "; id and Feature argument", nn_cases, nn_fails)
    U.bounded_result("C18.bounded.to_bed12",
                     "convert.to_bed12(t, db, child_type, name_field) == twelve tab separated fields + newline with chromStart=start-1, chromEnd=end, name or '.', strand, "
                     "blockCount, sizes = lengths and starts relative to start, children ascending by start (score, thickStart, thickEnd, rgb unchecked)",
                     scope + "; child_type exon / CDS, name_field ID / Name / transcript_id, id and Feature argument", tb_cases, tb_fails)


UNITS = [
    ("bounded.len_sequence", unit_len_sequence),
    ("bounded.bed12_blocks", unit_bed12_blocks),
    ("bounded.bed12_thick", unit_bed12_thick),
    ("bounded.bed12_args", unit_bed12_args),
]
