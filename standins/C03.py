"""Bounded run-time stand-in for C03 (GTF import infers exact gene/transcript extents and the
three-level hierarchy).

Every case is a small GTF text fed to the REAL gffutils.create_db (file path, from_string, iterator of
Feature objects, on-disk database) under one of the four disable_infer_* combinations and a
(gene key, transcript key, subfeature) configuration.  The database that comes back is compared with an
oracle written from the statement of C03 (DESIGN.md section 4 / Appendix A.5), not from the importer:

  * every line is a feature; a line is identified by a private tag attribute `lid`, so the oracle does
    not depend on how auto-increment keys are handed out;
  * every transcript id owning >= 1 subfeature line gets (unless disabled) one feature of type
    'transcript' under that id, start = min, end = max of those lines, their seqid and strand,
    attributes {transcript_key: [t], gene_key: [g]}, bin of the UCSC scheme (A.1);
  * every gene id likewise one 'gene' feature over ALL subfeature lines carrying the gene id;
  * relations: (t, line, 1), (g, line, 2), (g, t, 1) for every ordinary line and nothing else; the flags
    do not change relations;
  * an explicit 'transcript' / 'gene' line is the single feature under its id, keeps its own fields, is
    related only by (g, t, 1) and is never its own parent or child.

Scope restrictions (outside the statement or ambiguous in it, hence not generated): subfeature lines
always carry both ids, a transcript id belongs to one gene, the subfeature lines of one gene share
seqid and strand, ids contain no white space, one explicit line per id at most.
"""
import collections
import contextlib
import itertools
import os
import shutil
import sys
import tempfile

import gffutils
from gffutils import feature as _gfeature

Ln = collections.namedtuple("Ln", "ftype start end g t seqid strand source frame")
Cfg = collections.namedtuple("Cfg", "gk tk sub dg dt form torder")

STD = ("gene_id", "transcript_id", "exon")
FLAGS = [(False, False), (False, True), (True, False), (True, True)]          # (disable genes, disable transcripts)


def mk(ftype, start, end, g, t, seqid="chr1", strand="+", source="src", frame="."):
    return Ln(ftype, start, end, g, t, seqid, strand, source, frame)


def cfg_of(keys=STD, flags=(False, False), form="string", torder=False):
    return Cfg(keys[0], keys[1], keys[2], flags[0], flags[1], form, torder)


# --------------------------------------------------------------------------------------------------
# rendering and running the real importer

def attr_text(ln, i, cfg):
    parts = []
    if ln.g is not None:
        parts.append('%s "%s";' % (cfg.gk, ln.g))
    if ln.t is not None:
        parts.append('%s "%s";' % (cfg.tk, ln.t))
    if cfg.torder:
        parts.reverse()
    parts.append('lid "%d";' % i)
    return " ".join(parts)


def render(lines, cfg):
    out = []
    for i, ln in enumerate(lines):
        out.append("\t".join([ln.seqid, ln.source, ln.ftype, str(ln.start), str(ln.end), ".", ln.strand, ln.frame,
                              attr_text(ln, i, cfg)]))
    return "\n".join(out) + "\n"


class _Null(object):
    def write(self, *_a):
        return 0

    def flush(self):
        pass


@contextlib.contextmanager
def scratch():
    """private directory below tempfile.gettempdir(); while active every temp file of gffutils itself
    (derived-feature file, from_string copy) also lands there; removed at exit"""
    d = tempfile.mkdtemp(prefix="c03_standin_")
    old = tempfile.tempdir
    tempfile.tempdir = d
    try:
        yield d
    finally:
        tempfile.tempdir = old
        shutil.rmtree(d, ignore_errors=True)


def purge(d):
    for n in os.listdir(d):
        p = os.path.join(d, n)
        try:
            if os.path.isdir(p):
                shutil.rmtree(p, ignore_errors=True)
            else:
                os.unlink(p)
        except OSError:
            pass


def kwargs_of(cfg):
    kw = dict(disable_infer_genes=cfg.dg, disable_infer_transcripts=cfg.dt)
    if (cfg.gk, cfg.tk, cfg.sub) != STD:
        kw.update(gtf_gene_key=cfg.gk, gtf_transcript_key=cfg.tk, gtf_subfeature=cfg.sub,
                  id_spec={"gene": cfg.gk, "transcript": cfg.tk})
    return kw


def build(text, cfg, d):
    kw = kwargs_of(cfg)
    err = sys.stderr
    sys.stderr = _Null()
    try:
        if cfg.form == "string":
            return gffutils.create_db(text, ":memory:", from_string=True, **kw)
        if cfg.form == "iter":
            feats = (_gfeature.feature_from_line(l) for l in text.splitlines())
            return gffutils.create_db(feats, ":memory:", **kw)
        fn = os.path.join(d, "in.gtf")
        with open(fn, "w") as fh:
            fh.write(text)
        if cfg.form == "filedb":
            return gffutils.create_db(fn, os.path.join(d, "out.db"), force=True, **kw)
        return gffutils.create_db(fn, ":memory:", **kw)
    finally:
        sys.stderr = err


# --------------------------------------------------------------------------------------------------
# oracle (from the statement)

SH = [17, 20, 23, 26, 29]
OFF = [4681, 585, 73, 9, 1]


def ucsc_bin(start, end):
    """A.1 bin1 for 1-based closed coordinates"""
    if start >= 2 ** 29 or end >= 2 ** 29 or start < 1 or end < 0:
        return 1
    s0 = start - 1
    for lv in range(5):
        if (s0 >> SH[lv]) == (end >> SH[lv]):
            return OFF[lv] + (s0 >> SH[lv])
    return 1


def is_explicit(ftype, has_g, has_t):
    return (ftype == "transcript" and has_t) or (ftype == "gene" and has_g)


def aset(d):
    return {k: tuple(sorted(set(v))) for k, v in d.items()}


def oracle(lines, cfg):
    """-> (features: name -> dict of the fields the statement fixes, relations: set of (parent, child, level),
    explicit: set of names of explicit gene/transcript lines)"""
    feats, rels, explicit = {}, set(), set()
    for i, ln in enumerate(lines):
        attrs = {"lid": [str(i)]}
        if ln.g is not None:
            attrs[cfg.gk] = [ln.g]
        if ln.t is not None:
            attrs[cfg.tk] = [ln.t]
        rec = dict(seqid=ln.seqid, source=ln.source, featuretype=ln.ftype, start=ln.start, end=ln.end, score=".",
                   strand=ln.strand, frame=ln.frame, attributes=aset(attrs), bin=ucsc_bin(ln.start, ln.end))
        if is_explicit(ln.ftype, ln.g is not None, ln.t is not None):
            name = ln.t if ln.ftype == "transcript" else ln.g
            explicit.add(name)
            if ln.ftype == "transcript" and ln.g is not None and ln.g != ln.t:
                rels.add((ln.g, ln.t, 1))
        else:
            name = "#%d" % i
            if ln.t is not None:
                rels.add((ln.t, name, 1))
            if ln.g is not None:
                rels.add((ln.g, name, 2))
            if ln.t is not None and ln.g is not None:
                rels.add((ln.g, ln.t, 1))
        assert name not in feats, "generator: two lines under one id"
        feats[name] = rec
    subs = [ln for ln in lines if ln.ftype == cfg.sub]
    by_t, by_g = collections.OrderedDict(), collections.OrderedDict()
    for ln in subs:
        assert ln.g is not None and ln.t is not None, "generator: subfeature line without both ids"
        by_t.setdefault(ln.t, []).append(ln)
        by_g.setdefault(ln.g, []).append(ln)
    for t, ex in by_t.items():
        gs = set(e.g for e in ex)
        assert len(gs) == 1, "generator: transcript in two genes"
        if cfg.dt or t in explicit:
            continue
        feats[t] = derived("transcript", ex, {cfg.tk: [t], cfg.gk: [ex[0].g]})
    for g, ex in by_g.items():
        if cfg.dg or g in explicit:
            continue
        feats[g] = derived("gene", ex, {cfg.gk: [g]})
    return feats, rels, explicit


def derived(ftype, ex, attrs):
    s, e = min(x.start for x in ex), max(x.end for x in ex)
    rec = dict(featuretype=ftype, start=s, end=e, attributes=aset(attrs), bin=ucsc_bin(s, e))
    if len(set(x.seqid for x in ex)) == 1:
        rec["seqid"] = ex[0].seqid
    if len(set(x.strand for x in ex)) == 1:
        rec["strand"] = ex[0].strand
    return rec


# --------------------------------------------------------------------------------------------------
# observation of the real database

def observe(db, cfg):
    feats, idname, dup = {}, {}, []
    for f in db.all_features():
        attrs = {k: list(v) for k, v in f.attributes.items()}
        has_g = bool(attrs.get(cfg.gk))
        has_t = bool(attrs.get(cfg.tk))
        if is_explicit(f.featuretype, has_g, has_t) or not attrs.get("lid"):
            name = f.id
        else:
            name = "#" + attrs["lid"][0]
        if name in feats:
            dup.append(name)
        idname[f.id] = name
        feats[name] = dict(seqid=f.seqid, source=f.source, featuretype=f.featuretype, start=f.start, end=f.end,
                           score=f.score, strand=f.strand, frame=f.frame, attributes=aset(attrs), bin=f.bin,
                           id=f.id)
    rels = set()
    for p, c, l in db.conn.execute("SELECT parent, child, level FROM relations"):
        rels.add((idname.get(p, p), idname.get(c, c), l))
    return feats, rels, idname, dup


def diff_features(exp, got, dup, loose=()):
    """`loose`: names whose attributes only have to CONTAIN the expected keys and values"""
    out = []
    if dup:
        out.append("several features for %s" % sorted(set(dup)))
    if set(exp) != set(got):
        out.append("features missing %s, unexpected %s" % (sorted(set(exp) - set(got)), sorted(set(got) - set(exp))))
    for name in sorted(set(exp) & set(got)):
        for k, v in exp[name].items():
            if k == "attributes" and name in loose:
                o = got[name].get(k) or {}
                if all(set(vals) <= set(o.get(a, ())) for a, vals in v.items()):
                    continue
            if got[name].get(k) != v:
                out.append("%s.%s is %r, expected %r" % (name, k, got[name].get(k), v))
    return out


def diff_api(db, exp_feats, exp_rels, idname):
    """the same hierarchy through the public interface: db[id], children(level), parents(level)"""
    out = []
    for name in exp_feats:
        if name.startswith("#"):
            continue
        try:
            f = db[name]
            if f.id != name:
                out.append("db[%r].id is %r" % (name, f.id))
        except Exception as e:
            out.append("db[%r] raised %r" % (name, e))
            continue
        for lv in (1, 2):
            want = set(c for (p, c, l) in exp_rels if p == name and l == lv and c in exp_feats)
            got = set(idname.get(c.id, c.id) for c in db.children(name, level=lv))
            if want != got:
                out.append("children(%r, level=%d) is %s, expected %s" % (name, lv, sorted(got), sorted(want)))
        want = set(p for (p, c, l) in exp_rels if c == name and p in exp_feats)
        got = set(p.id for p in db.parents(name))
        if want != got:
            out.append("parents(%r) is %s, expected %s" % (name, sorted(got), sorted(want)))
    return out


def case_of(text, cfg):
    return {"gtf": text, "form": cfg.form, "kwargs": {k: (v if not isinstance(v, dict) else dict(v)) for k, v in kwargs_of(cfg).items()}}


def brief(feats):
    return {n: [r.get("featuretype"), r.get("seqid"), r.get("start"), r.get("end"), r.get("strand")] for n, r in sorted(feats.items())
            if not n.startswith("#")}


class Runner(object):
    """runs cases, collects failures for one or two result ids"""

    def __init__(self, d, cap=40):
        self.d, self.cap = d, cap
        self.cases = 0
        self.distinct = set()
        self.fails = collections.defaultdict(list)
        self.nfail = collections.Counter()

    def fail(self, key, text, cfg, exp, obs, problems):
        self.nfail[key] += 1
        if len(self.fails[key]) < self.cap:
            self.fails[key].append({"case": case_of(text, cfg), "expected": exp, "observed": dict(obs, problems=problems[:8])})

    def run(self, lines, cfg, api=True):
        """ordinary files (no explicit gene/transcript line): everything exact"""
        text = render(lines, cfg)
        sig = (text, cfg)
        if sig in self.distinct:
            return
        self.distinct.add(sig)
        self.cases += 1
        exp_f, exp_r, _ = oracle(lines, cfg)
        try:
            db = build(text, cfg, self.d)
            got_f, got_r, idname, dup = observe(db, cfg)
            problems = diff_features(exp_f, got_f, dup)
            if got_r != exp_r:
                problems.append("relations missing %s, unexpected %s" % (sorted(exp_r - got_r), sorted(got_r - exp_r)))
            if api:
                problems += diff_api(db, exp_f, exp_r, idname)
        except Exception as e:
            self.fail("main", text, cfg, "no exception", {"exception": repr(e)}, [])
            return
        finally:
            if self.cases % 100 == 0:
                purge(self.d)
        if problems:
            self.fail("main", text, cfg, {"derived": brief(exp_f), "relations": sorted(exp_r)},
                      {"derived": brief(got_f), "relations": sorted(got_r)}, problems)

    def run_explicit(self, lines, cfg):
        """files with explicit lines.  'main': features exact (the attributes of an explicit line must contain
        the line's own), every expected relation present, relations of ordinary lines exact.  'explicit': the
        whole relation table exact (explicit lines related only by (g, t, 1), never to themselves), also through
        children()/parents(), and the explicit line's attributes exactly its own (a transcript line that is its
        own level-1 parent is taken for its own gene by the inference step and gets its id merged into gene_id)."""
        text = render(lines, cfg)
        sig = (text, cfg)
        if sig in self.distinct:
            return
        self.distinct.add(sig)
        self.cases += 1
        exp_f, exp_r, explicit = oracle(lines, cfg)
        try:
            db = build(text, cfg, self.d)
            got_f, got_r, idname, dup = observe(db, cfg)
            problems = diff_features(exp_f, got_f, dup, loose=explicit)
            if exp_r - got_r:
                problems.append("relations missing %s" % sorted(exp_r - got_r))
            ordinary = set(r for r in got_r if r[1] not in explicit)
            if ordinary - exp_r:
                problems.append("unexpected relations of ordinary lines %s" % sorted(ordinary - exp_r))
            for name in explicit:
                try:
                    if db[name].id != name:
                        problems.append("db[%r].id is %r" % (name, db[name].id))
                except Exception as e:
                    problems.append("db[%r] raised %r" % (name, e))
            xproblems = [p for p in diff_features(exp_f, got_f, dup) if p not in problems]
            if got_r != exp_r:
                selfrel = sorted(r for r in got_r if r[0] == r[1])
                xproblems.append("relations missing %s, unexpected %s (own parent/child: %s)" % (sorted(exp_r - got_r), sorted(got_r - exp_r), selfrel))
            xproblems += diff_api(db, dict((n, r) for n, r in exp_f.items() if n in got_f), exp_r, idname)
        except Exception as e:
            self.fail("main", text, cfg, "no exception", {"exception": repr(e)}, [])
            return
        finally:
            if self.cases % 100 == 0:
                purge(self.d)
        if problems:
            self.fail("main", text, cfg, {"derived": brief(exp_f), "relations": sorted(exp_r)},
                      {"derived": brief(got_f), "relations": sorted(got_r)}, problems)
        if xproblems:
            self.fail("explicit", text, cfg, {"relations": sorted(exp_r)}, {"relations": sorted(got_r)}, xproblems)


# --------------------------------------------------------------------------------------------------
# unit 1: exhaustive small structures

def intervals(points):
    return [(a, b) for a in points for b in points if a <= b]


def unit_extents(U):
    """one gene / one transcript: all exon multisets over boundary intervals x one foreign line inside or
    outside; one gene / two transcripts; two genes interleaved -- all four flag combinations."""
    points = (1, 9, 10, 11, 100) if U.thorough else (1, 9, 10, 100)
    I = intervals(points)
    kmax = 3 if U.thorough else 2
    if U.thorough:
        others = [None, ("CDS", 1, 1), ("CDS", 100, 100), ("stop_codon", 1, 100), ("CDS", 10, 10), ("start_codon", 9, 11), ("CDS", 11, 100)]
    else:
        others = [None, ("CDS", 1, 1), ("CDS", 100, 100), ("stop_codon", 1, 100)]
    configs = [STD, ("locus", "isoform", "CDS")]
    with scratch() as d:
        R = Runner(d)
        n = 0
        # A1
        for k in range(0, kmax + 1):
            for ms in itertools.combinations_with_replacement(I, k):
                for o in others:
                    if k == 0 and o is None:
                        continue
                    n += 1
                    keys = configs[0] if (U.thorough or n % 5) else configs[1]
                    for keyset in (configs if U.thorough and k <= 2 else [keys]):
                        sub = keyset[2]
                        lines = [mk(sub, s, e, "g1", "t1") for (s, e) in ms]
                        if o is not None:
                            oline = mk(o[0] if o[0] != sub else "exon", o[1], o[2], "g1", "t1", frame="0")
                            lines = [oline] + lines if n % 2 else lines + [oline]
                        if k >= 2 and n % 3 == 0:
                            lines.reverse()
                        for fl in FLAGS:
                            R.run(lines, cfg_of(keyset, fl, "string"), api=(k <= 2))
        # A2: gene extent is the union over transcripts; file order != id order
        shapes = [[("exon", s, e)] for (s, e) in intervals((1, 9, 10, 100))] + [[("CDS", 1, 1)], [("CDS", 100, 100)], [("exon", 9, 10), ("CDS", 1, 100)]]
        for a, b in itertools.product(shapes, repeat=2):
            if not any(x[0] == "exon" for x in a + b):
                continue
            lines = [mk(ft, s, e, "g1", "t2", seqid="chr2", strand="-") for (ft, s, e) in a] + \
                    [mk(ft, s, e, "g1", "t10", seqid="chr2", strand="-") for (ft, s, e) in b]
            for fl in FLAGS:
                R.run(lines, cfg_of(STD, fl, "file"))
        # A4: foreign lines that carry only one of the two ids (outside the exon span)
        for (fg, ft), (s, e), first in itertools.product([("g1", None), (None, "t1"), ("g1", "t1")], [(1, 1), (100, 100), (1, 100)], (False, True)):
            ex = [mk("exon", 9, 10, "g1", "t1"), mk("exon", 10, 11, "g1", "t1")]
            o = [mk("CDS", s, e, fg, ft, frame="0")]
            for fl in FLAGS:
                R.run(o + ex if first else ex + o, cfg_of(STD, fl, "string"))
        # A3: two genes, ids whose order differs from file order, lines interleaved
        gshapes = [[x] for x in [(1, 9), (10, 10), (9, 100)]] + [[x, y] for x in [(1, 9), (10, 10), (9, 100)] for y in [(1, 9), (10, 10), (9, 100)]]
        m = 0
        for ga, gb in itertools.product(gshapes, repeat=2):
            la = [mk("exon", s, e, "g2", "ta%d" % j) for j, (s, e) in enumerate(ga)]
            lb = [mk("exon", s, e, "g10", "tb%d" % j, seqid="chr2", strand="-") for j, (s, e) in enumerate(gb)]
            lines = [x for pair in itertools.zip_longest(la, lb) for x in pair if x is not None]
            m += 1
            for fl in (FLAGS if U.thorough else [FLAGS[m % 4], FLAGS[0]]):
                R.run(lines, cfg_of(STD, fl, "iter"))
    U.bounded_result("C03.bounded.extents",
                     "database after create_db of a GTF text == oracle from the statement: one derived transcript per transcript id with subfeature lines (min start..max end, seqid, strand, attributes, bin), one derived gene per gene id over all its subfeature lines, relation table exactly {(t,line,1),(g,line,2),(g,t,1)}, flags suppress exactly the derived features; db[id], children(level), parents agree",
                     "exhaustive: 1 gene x 1 transcript x all exon multisets of size <= %d over the %d intervals on points %s x %d foreign lines (inside/outside/none, also exon-less transcripts); 1 gene x 2 transcripts over 13 shapes each (ids t2/t10); 2 genes (g2/g10, chr1+/chr2-) x <= 2 single-exon transcripts each, interleaved; foreign lines carrying only the gene id / only the transcript id; all 4 disable_infer_* combinations; standard and custom (locus/isoform/CDS) keys; from_string, file and iterator input"
                     % (kmax, len(I), list(points), len(others)),
                     R.cases, R.fails["main"], exhaustive=True, distinct=len(R.distinct))


# --------------------------------------------------------------------------------------------------
# unit 2: all line orders of one file

def unit_orderings(U):
    base = [
        mk("exon", 10, 20, "g1", "t1"),
        mk("exon", 30, 40, "g1", "t1"),
        mk("exon", 5, 12, "g1", "t0"),
        mk("CDS", 1, 3, "g1", "t0", frame="0"),
        mk("exon", 100, 100, "g0", "t3", seqid="chr2", strand="-"),
        mk("CDS", 500, 600, "g1", "t4", frame="0"),
        mk("exon", 131072, 131073, "g0", "t2", seqid="chr2", strand="-"),
    ]
    nl = 7 if U.thorough else 6
    with scratch() as d:
        R = Runner(d)
        for j, perm in enumerate(itertools.permutations(range(nl))):
            lines = [base[i] for i in perm]
            fls = FLAGS if U.thorough else ([FLAGS[0]] + ([FLAGS[1 + (j // 4) % 3]] if j % 4 == 0 else []))
            for fl in fls:
                R.run(lines, cfg_of(STD, fl, "string"), api=(j % 8 == 0))
    U.bounded_result("C03.bounded.orderings",
                     "derived features, relation table and hierarchy queries are the oracle's for every order of the lines of one file (interleaved genes and transcripts, foreign lines outside the exon span, a transcript without exons)",
                     "all %d! permutations of a %d-line GTF (2 genes on 2 seqids/strands, %d transcripts, one of them exon-less); %s"
                     % (nl, nl, 5 if U.thorough else 4, "all 4 flag combinations" if U.thorough else "inference fully on for every permutation, the other 3 flag combinations on every 4th"),
                     R.cases, R.fails["main"], exhaustive=True, distinct=len(R.distinct))


# --------------------------------------------------------------------------------------------------
# unit 3: seeded random larger files

GENE_IDS = ["g1", "g10", "g2", "G1", "7", "07", "ENSG01.2", "a-b", "g:1", "gene"]
TX_IDS = ["t1", "t10", "t2", "T1", "8", "08", "ENST01.1", "a_b", "t:1", "transcript", "t1.1"]
KEYSETS = [STD, STD, ("locus", "isoform", "CDS"), ("gene_name", "tx", "exon"), ("gene_id", "transcript_id", "five_prime_utr")]
BASES = [1, 2, 9, 10, 99, 100, 999, 1000, 131071, 131072, 131073, 1048575, 1048576, 8388607, 8388608, 2 ** 29 - 3, 2 ** 29 - 1, 2 ** 29 + 5]
LENS = [0, 0, 1, 2, 9, 90, 900, 1000, 131072, 200000]
FOREIGN = ["CDS", "start_codon", "stop_codon", "UTR", "Selenocysteine", "exon", "intron"]


def rand_interval(rng, lo=None):
    s = rng.choice(BASES) + rng.choice([0, 0, 1, 3])
    if lo is not None and rng.random() < 0.5:
        s = lo + rng.choice([0, 1, 5, 50])
    return s, s + rng.choice(LENS)


def random_file(rng, big):
    keys = rng.choice(KEYSETS)
    sub = keys[2]
    ng = rng.choice([1, 1, 2, 2, 3, 4] if big else [1, 2, 2, 3])
    gids = rng.sample(GENE_IDS, ng)
    tids = rng.sample(TX_IDS, len(TX_IDS))
    lines, groups = [], []
    for g in gids:
        seqid = rng.choice(["chr1", "chr2", "1", "chrUn_x"])
        strand = rng.choice("+-.")
        anchor = rng.choice(BASES[:14])
        for _ in range(rng.choice([1, 1, 2, 2, 3])):
            if not tids:
                break
            t = tids.pop()
            grp = []
            nex = rng.choice([0, 1, 1, 2, 2, 3, 4] if big else [0, 1, 1, 2, 3])
            for _e in range(nex):
                s, e = rand_interval(rng, anchor)
                grp.append(mk(sub, s, e, g, t, seqid=seqid, strand=strand, source=rng.choice(["src", "src", "havana"])))
            for _o in range(rng.choice([0, 0, 1, 1, 2, 3])):
                ft = rng.choice([x for x in FOREIGN if x != sub])
                s, e = rand_interval(rng, anchor if rng.random() < 0.5 else None)
                r = rng.random()
                gg, tt = (g, t) if r < 0.8 else ((g, None) if r < 0.9 else (None, t))
                st = strand if rng.random() < 0.9 else rng.choice("+-.")
                sq = seqid if rng.random() < 0.95 else "other"
                grp.append(mk(ft, s, e, gg, tt, seqid=sq, strand=st, frame=rng.choice(".012")))
            groups.append(grp)
    lines = [x for grp in groups for x in grp]
    if not lines:
        return None, None
    mode = rng.random()
    if mode < 0.5:
        rng.shuffle(lines)
    elif mode < 0.7:
        lines.sort(key=lambda x: (x.seqid, x.start, x.end))
    elif mode < 0.8:
        lines.reverse()
    return lines, keys


def unit_random(U):
    n = 30000 if U.thorough else 650
    with scratch() as d:
        R = Runner(d)
        tries = 0
        while R.cases < n and tries < 3 * n:
            tries += 1
            lines, keys = random_file(U.rng, U.thorough)
            if lines is None:
                continue
            form = U.rng.choice(["string", "string", "file", "iter", "filedb"])
            cfg = cfg_of(keys, U.rng.choice(FLAGS), form, torder=U.rng.random() < 0.3)
            R.run(lines, cfg, api=U.rng.random() < 0.5)
    U.bounded_result("C03.bounded.random",
                     "database after create_db of a random shuffled GTF == oracle from the statement (derived transcript / gene extents over subfeature lines only, seqid, strand, attributes, bin; relation table exact; flags; db[id], children, parents)",
                     "%d seeded-random files: 1-4 genes (ids incl. numeric-looking and the word gene), 1-3 transcripts each (some without subfeature lines), 0-4 subfeature lines with starts around 1/9/10/99/100/bin boundaries 2**17, 2**20, 2**23/2**29 and lengths 1..200001, 0-3 foreign lines anywhere (some on another strand/seqid, some carrying only one of the ids), shuffled / sorted / reversed / grouped; 4 key+subfeature configurations; random flag combination; from_string, file, iterator, on-disk db; either attribute order" % n,
                     R.cases, R.fails["main"], distinct=len(R.distinct))


# --------------------------------------------------------------------------------------------------
# unit 4: files that already contain gene / transcript lines

def explicit_files(thorough):
    """yield (lines, keys).  g1: t1 = exons 10-20, 30-40 + CDS 12-18 ; t2 = exon 15-60 (never explicit) ;
    optionally t3 = explicit transcript line + CDS only (no exons).  exact extents: t1 10-40, g1 10-60."""
    tvars = [None, (10, 40, "src"), (10, 40, "gffutils_derived"), (1, 100, "src"), (12, 12, "src")]
    gvars = [None, (10, 60, "src"), (10, 60, "gffutils_derived"), (1, 500, "src")]
    if thorough:
        tvars += [(1, 100, "gffutils_derived"), (10, 41, "src")]
        gvars += [(10, 40, "src"), (60, 60, "gffutils_derived")]
    for keys in (STD, ("locus", "isoform", "CDS")):
        sub = keys[2]
        other = "CDS" if sub != "CDS" else "exon"
        for tv, gv, t3 in itertools.product(tvars, gvars, (False, True)):
            if tv is None and gv is None and not t3:
                continue
            body = [mk(sub, 10, 20, "g1", "t1"), mk(other, 12, 18, "g1", "t1", frame="0"), mk(sub, 30, 40, "g1", "t1"),
                    mk(sub, 15, 60, "g1", "t2")]
            ex = []
            if gv is not None:
                ex.append(mk("gene", gv[0], gv[1], "g1", None, source=gv[2]))
            if tv is not None:
                ex.append(mk("transcript", tv[0], tv[1], "g1", "t1", source=tv[2]))
            if t3:
                ex.append(mk("transcript", 70, 90, "g1", "t3"))
                body.append(mk(other, 70, 80, "g1", "t3", frame="0"))
            positions = ["first", "last", "middle"] + (["reversed", "split"] if thorough else [])
            for pos in positions:
                if pos == "first":
                    lines = ex + body
                elif pos == "last":
                    lines = body + ex
                elif pos == "middle":
                    lines = body[:2] + ex + body[2:]
                elif pos == "reversed":
                    lines = list(reversed(ex + body))
                else:
                    lines = ex[:1] + body + ex[1:]
                yield lines, keys
    # a second gene with explicit lines only for the gene, and a gene made of explicit lines alone
    for keys in (STD,):
        yield [mk("gene", 5, 50, "g2", None, seqid="chr2", strand="-"), mk("exon", 5, 9, "g2", "tA", seqid="chr2", strand="-"),
               mk("exon", 10, 100, "g10", "tB"), mk("transcript", 10, 100, "g10", "tB"), mk("exon", 40, 50, "g2", "tA", seqid="chr2", strand="-")], keys
        yield [mk("gene", 5, 50, "g2", None), mk("transcript", 5, 50, "g2", "tA")], keys
        yield [mk("transcript", 5, 50, "g2", "tA"), mk("exon", 5, 50, "g2", "tA"), mk("gene", 5, 50, "g2", None)], keys


def unit_explicit(U):
    with scratch() as d:
        R = Runner(d)
        for j, (lines, keys) in enumerate(explicit_files(U.thorough)):
            for fl in FLAGS:
                form = ("string", "file", "iter")[j % 3]
                R.run_explicit(lines, cfg_of(keys, fl, form))
    scope = ("1 gene with transcripts t1 (2 subfeature lines + 1 foreign), t2 (1 subfeature line), optional exon-less t3 with its own transcript line; "
             "explicit transcript line for t1 in {absent, exact extent, wider, narrower} and explicit gene line in {absent, exact, wider}, source 'src' or 'gffutils_derived' "
             "(the latter makes the derived feature mergeable); explicit lines first / last / in the middle%s; 3 extra multi-gene files; all 4 flag combinations; standard and custom keys"
             % (" / reversed / split" if U.thorough else ""))
    U.bounded_result("C03.bounded.explicit_single",
                     "with gene/transcript lines in the file: the line stays the single feature under its id with its own fields (attributes at least its own) whatever the flags, the other ids still get exact derived features, every relation the statement names is present and ordinary lines have no others",
                     scope, R.cases, R.fails["main"], exhaustive=True, distinct=len(R.distinct))
    extra = R.nfail["explicit"] - len(R.fails["explicit"])
    U.bounded_result("C03.bounded.explicit_lines",
                     "with gene/transcript lines in the file the relation table is exactly the oracle's: an explicit transcript line is a level-1 child of its gene and nothing else, an explicit gene line has no parent, no feature is its own parent or child (relations table and children()/parents()), and the explicit line keeps exactly its own attributes"
                     + ("" if extra <= 0 else " [%d further failing cases not listed]" % extra),
                     scope, R.cases, R.fails["explicit"], exhaustive=True, distinct=len(R.distinct))


UNITS = [
    ("bounded.extents", unit_extents),
    ("bounded.orderings", unit_orderings),
    ("bounded.random", unit_random),
    ("bounded.explicit", unit_explicit),
]
