"""Bounded run-time stand-in for C10 (update/delete histories leave exactly the modelled content; ids
never recycle; '.bak' holds the pre-operation database).

Every case is a HISTORY: a small FILE database built by the real gffutils.create_db, followed by a
finite sequence of steps over {update(features, strategy), delete(ids), add_relation, reopen} run on the
REAL FeatureDB.  After every step the database (all features, all rows of `relations`) is compared with a
reference model that applies the same steps as the statement describes them (DESIGN.md Appendix A.6):

  * update  : fold of the per-line import step (contracts.spec_import.RefDB.step, the model of A.5) over
              the features with the LIVE counters, then second level = two first-level edges whose upper end
              is a feature; an update without features changes nothing;
  * delete  : the named features go, and every relation naming one of them, nothing else;
  * relate  : exactly one new (parent, child, level) row (+ the attribute rewrite asked for by
              parent_func / child_func); a repeated row -> sqlite3.IntegrityError, a missing endpoint given by
              name -> FeatureNotFoundError, both without effect;
  * reopen  : nothing changes (in particular the counters: numbering continues).

Independently of the model, every key that appears in an update without being spelled in the input must
never have been a key of the database before (never-recycle, checked on the observed ids only).
With make_backup the file '<db>.bak' must equal, byte for byte, the database file at entry of the
operation - also when the source raises at its p-th item - and must be a complete database: the history
is continued on the restored copy and has to behave like the model of the pre-state.

Kept out of the main results and run under their own ids (the split is decided on the MODEL alone, before
the real code runs):
  * 'deep' updates - updates at which composing relations of ANY level yields a pair that two first-level
    edges do not (defect F10: great-grandchildren filed at level 2; fixed in /repo by 285ec29, the result
    fails on trees before that commit) -> C10.bounded.deep_update;
  * a non-empty update that follows a rejected add_relation on the same FeatureDB object with no commit or
    reopen in between (defect found by this stand-in: the rejected INSERT left the connection inside a write
    transaction and update() works through a second connection -> OperationalError 'database is locked';
    fixed in /repo by 7466199) -> C10.bounded.rejected_relation_then_update;
  * steps at which the model itself is undefined (duplicate under 'error', several merge candidates,
    explicit id equal to a generated key = C05 known finding; for GTF an update that would change an
    inferred transcript / gene extent - the statement of C10 does not say what update() owes to inferred
    extents, the real code leaves them stale): the history is cut before such a step.

Environment: inside a unit sqlite3.connect is wrapped to use a 0.05 s busy timeout and PRAGMA
synchronous=OFF (durability knobs only: a lock held by another connection of the same thread is never
released while waiting, so outcomes are the same, only faster), and tempfile.tempdir points into the
unit's private scratch directory so that every temp file of the library lands there and is removed.
"""
import collections
import contextlib
import copy
import gc
import itertools
import json
import os
import shutil
import sqlite3
import tempfile

import gffutils
from gffutils.feature import Feature
from gffutils.exceptions import FeatureNotFoundError

from contracts.spec_import import RefDB, real_snapshot


# --------------------------------------------------------------------------------------------------
# environment

@contextlib.contextmanager
def scratch():
    d = tempfile.mkdtemp(prefix="c10_")
    old_td = tempfile.tempdir
    tempfile.tempdir = d
    orig = sqlite3.connect

    def connect(*a, **k):
        if len(a) < 2:
            k.setdefault("timeout", 0.05)
        c = orig(*a, **k)
        try:
            c.execute("PRAGMA synchronous=OFF")
        except sqlite3.Error:
            pass
        return c
    sqlite3.connect = connect
    gc.collect()
    gc.freeze()            # full collections (needed after every failed update) then only scan what the cases allocate
    try:
        yield d
    finally:
        sqlite3.connect = orig
        tempfile.tempdir = old_td
        gc.unfreeze()
        gc.collect()
        shutil.rmtree(d, ignore_errors=True)


# --------------------------------------------------------------------------------------------------
# feature specs (json-able): [featuretype, start, end, {attribute: [values]}]

def sp(ft, start, end, **attrs):
    return [ft, start, end, {k: (list(v) if isinstance(v, (list, tuple)) else [v]) for k, v in attrs.items()}]


def gsp(ft, start, end, g, t):
    """GTF line spec"""
    a = collections.OrderedDict()
    if g is not None:
        a["gene_id"] = [g]
    if t is not None:
        a["transcript_id"] = [t]
    return [ft, start, end, a]


def feat(spec, source="s"):
    ft, start, end, attrs = spec
    return Feature(seqid="c1", source=source, featuretype=ft, start=start, end=end, score=".", strand="+", frame=".",
                   attributes=collections.OrderedDict((k, list(v)) for k, v in attrs.items()))


def gtf_line(spec):
    ft, start, end, attrs = spec
    return "c1\ts\t%s\t%d\t%d\t.\t+\t.\t%s" % (ft, start, end, " ".join('%s "%s";' % (k, v[0]) for k, v in attrs.items()))


def _spec_auto_x(f):
    """id_spec callable: exons are numbered under the custom base X, everything else by ID (or default)"""
    if f.featuretype == "exon":
        return "autoincrement:X"
    if "ID" in f.attributes and f.attributes["ID"]:
        return f.attributes["ID"][0]
    return None


ID_SPECS = {
    "ID": "ID",
    "dict": {"gene": "ID", "mRNA": "ID"},                  # exon / CDS: default numbering even if they carry an ID
    "list": ["Name", "ID"],
    "auto_x": _spec_auto_x,
    "gtf": {"gene": "gene_id", "transcript": "transcript_id"},
}


def _child_tag(parent, child):
    child.attributes["rel_parent"] = [parent.id]
    return child


def _parent_tag(parent, child):
    parent.attributes["rel_child"] = [child.id]
    return parent


# --------------------------------------------------------------------------------------------------
# operations (json-able dicts)

def U(features, strategy="error", form="list", id_spec=None, fmf=(), **kw):
    d = {"op": "update", "features": features, "strategy": strategy, "form": form}
    if id_spec:
        d["id_spec"] = id_spec
    if fmf:
        d["fmf"] = list(fmf)
    d.update(kw)
    return d


def D(ids, form="list"):
    return {"op": "delete", "ids": ids, "form": form}


def A(parent, child, level, form="str", func=None):
    d = {"op": "relate", "parent": parent, "child": child, "level": level, "form": form}
    if func:
        d["func"] = func
    return d


R = {"op": "reopen"}


class OutOfScope(Exception):
    pass


# --------------------------------------------------------------------------------------------------
# reference model of a history

class Model(object):
    def __init__(self, fmt="gff3", gtf_flags=(False, False)):
        self.fmt = fmt
        self.default_spec = "ID" if fmt == "gff3" else "gtf"      # update() does not remember the id_spec of create_db
        self.ref = RefDB(fmt, ID_SPECS[self.default_spec])
        self.pending_txn = False          # a rejected INSERT left the FeatureDB connection in a transaction
        self.allow = set()                # scope exclusions switched off ('deep', 'txn') for the separate result ids
        self.dg, self.dt = gtf_flags      # disable_infer_genes, disable_infer_transcripts (kwargs of every update)

    def copy(self):
        return copy.deepcopy(self)

    def snapshot(self):
        f, r = self.ref.snapshot()
        return dict(f), set(r)

    def ids(self):
        return list(self.ref.F)

    # ---- one step; returns the exception kind the real call has to raise (None = returns normally)
    def apply(self, op):
        k = op["op"]
        if k == "reopen":
            self.pending_txn = False
            return None
        if k == "delete":
            ids = self.delete_ids(op)
            for i in ids:
                self.ref.F.pop(i, None)
            gone = set(ids)
            self.ref.R = {r for r in self.ref.R if r[0] not in gone and r[1] not in gone}
            # a recorded duplicate that no longer exists is no merge candidate any more
            self.ref.Dup = [(a, b) for (a, b) in self.ref.Dup if b in self.ref.F]
            self.pending_txn = False
            return None
        if k == "relate":
            p, c, l = op["parent"], op["child"], op["level"]
            if op["form"] == "str" and (p not in self.ref.F or c not in self.ref.F):
                return "notfound"
            if (p, c, l) in self.ref.R:
                self.pending_txn = True
                return "integrity"
            self.ref.R.add((p, c, l))
            fn = op.get("func")
            if fn in ("parent", "both") and p in self.ref.F:
                self.ref.F[p].attrs["rel_child"] = [c]
            if fn in ("child", "both") and c in self.ref.F:
                self.ref.F[c].attrs["rel_parent"] = [p]
            self.pending_txn = False
            return None
        if k == "update":
            return self.update(op)
        raise ValueError(k)

    def delete_ids(self, op):
        if op["form"] == "ftype":
            return [i for i, r in self.ref.F.items() if r.cols["featuretype"] == op["ids"]]
        if op["form"] == "self":
            return list(self.ref.F)
        return list(op["ids"])

    def update(self, op):
        specs = op["features"]
        if not specs:
            return None
        if self.pending_txn and "txn" not in self.allow:
            raise OutOfScope("rejected_relation_then_update")
        ref = self.ref
        ref.id_spec = ID_SPECS[op.get("id_spec") or self.default_spec]
        strategy = op["strategy"]
        fmf = tuple(op.get("fmf", ()))
        try:
            for s in specs:
                ref.step(feat(s), strategy, fmf)
            if self.fmt == "gff3":
                before = set(ref.R)
                ref.finish_gff()
                # F10 scope split: would composing over relations of ANY level give more?
                succ = collections.defaultdict(set)
                for (a, b, l) in before:
                    succ[a].add(b)
                for a in ref.F:
                    for b in succ.get(a, ()):
                        for c in succ.get(b, ()):
                            if (a, c, 2) not in ref.R and "deep" not in self.allow:
                                raise OutOfScope("deep")
            else:
                self.finish_gtf()
        except (ValueError, KeyError, NotImplementedError) as e:
            raise OutOfScope("model undefined: %r" % (e,))
        return None

    def finish_gtf(self):
        """A.5: every transcript id with >= 1 first-level subfeature child and a first-level gene parent gets
        (unless disabled) a derived 'transcript' over those children, every such gene once a derived 'gene'
        over its subfeature children; a derived feature whose id exists is merged into it."""
        if self.dg and self.dt:
            return
        ref = self.ref
        sub = ref.sub

        def kids(p, level1):
            return [ref.F[c] for (pp, c, l) in ref.R if pp == p and (l == 1 or not level1) and c in ref.F
                    and ref.F[c].cols["featuretype"] == sub]
        # the transcript's own first-level children must include a subfeature, its first-level parent is g
        pairs = sorted(set((g, t) for (g, t, l) in ref.R if l == 1 and kids(t, True)))
        derived = []
        last_g = None
        for g, t in pairs:
            if not self.dt:
                ex = kids(t, True)
                derived.append(("transcript", ex, collections.OrderedDict([(ref.tk, [t]), (ref.gk, [g])])))
            if not self.dg and g != last_g:
                ex = kids(g, False)
                if ex:
                    derived.append(("gene", ex, collections.OrderedDict([(ref.gk, [g])])))
                else:
                    raise OutOfScope("gene without subfeature children")
            last_g = g
        for ft, ex, attrs in derived:
            seqids = set(r.cols["seqid"] for r in ex)
            strands = set(r.cols["strand"] for r in ex)
            if len(seqids) != 1 or len(strands) != 1:
                raise OutOfScope("mixed seqid/strand")
            f = Feature(seqid=seqids.pop(), source="gffutils_derived", featuretype=ft,
                        start=min(int(r.cols["start"]) for r in ex), end=max(int(r.cols["end"]) for r in ex),
                        score=".", strand=strands.pop(), frame=".", attributes=attrs)
            # stored under key(.) with 'merge' on collision; relations come from the lines only
            # (a re-derived feature whose extent differs from the stored one is outside the statement of C10:
            # what update() owes to inferred extents is not said there)
            k = attrs[ref.tk if ft == "transcript" else ref.gk][0]
            if k in ref.F:
                old = ref.F[k]
                if any(str(old.cols[c]) != str(getattr(f, c)) for c in ("seqid", "source", "featuretype", "start", "end", "strand")):
                    raise OutOfScope("derived extent changes")
            R0 = set(ref.R)
            ref.step(f, "merge", ())
            ref.R = R0


# --------------------------------------------------------------------------------------------------
# the real side

class Real(object):
    def __init__(self, path):
        self.path = path
        self.db = gffutils.FeatureDB(path)

    def reopen(self):
        self.db.conn.close()
        self.db = gffutils.FeatureDB(self.path)

    def close(self):
        try:
            self.db.conn.close()
        except Exception:
            pass

    def snapshot(self):
        f, r = real_snapshot(self.db)
        return dict(f), set(r)

    def ids(self):
        return [r[0] for r in self.db.conn.execute("SELECT id FROM features")]

    def _feature(self, i):
        try:
            return self.db[i]
        except FeatureNotFoundError:
            return Feature(seqid="c1", featuretype="ghost", start=1, end=1, id=i)

    def apply(self, op, backup=None, scratch_dir=None, gtf_kwargs=None):
        """runs the step, returns None or the exception raised"""
        k = op["op"]
        kw = {}
        if backup is not None:
            kw["make_backup"] = backup        # None: the default of the real signature (True)
        try:
            if k == "reopen":
                self.reopen()
            elif k == "delete":
                self.db.delete(self.delete_arg(op), **kw)
            elif k == "relate":
                p, c = op["parent"], op["child"]
                if op["form"] == "feat":
                    p, c = self._feature(p), self._feature(c)
                fn = op.get("func")
                fkw = {}
                if fn in ("parent", "both"):
                    fkw["parent_func"] = _parent_tag
                if fn in ("child", "both"):
                    fkw["child_func"] = _child_tag
                self.db.add_relation(p, c, op["level"], **fkw)
            elif k == "update":
                if op["strategy"] != "error" or op.get("explicit_strategy"):
                    kw["merge_strategy"] = op["strategy"]
                if op.get("id_spec"):
                    kw["id_spec"] = ID_SPECS[op["id_spec"]]
                if op.get("fmf"):
                    kw["force_merge_fields"] = list(op["fmf"])
                if "checklines" in op:
                    kw["checklines"] = op["checklines"]
                if gtf_kwargs:
                    kw.update(gtf_kwargs)
                data, kw2 = self.update_arg(op, scratch_dir)
                kw.update(kw2)
                self.db.update(data, **kw)
            else:
                raise ValueError(k)
        except Exception as e:
            return e
        return None

    def delete_arg(self, op):
        form, ids = op["form"], op["ids"]
        if op.get("fail_at") is not None:
            def failing():
                for n, i in enumerate(ids):
                    if n == op["fail_at"]:
                        raise RuntimeError("id source failed at item %d" % n)
                    yield i
                raise RuntimeError("id source failed at the end")
            return failing()
        if form == "str":
            return ids[0]
        if form == "feat":
            return self._feature(ids[0])
        if form == "list":
            return list(ids)
        if form == "tuple":
            return tuple(ids)
        if form == "feats":
            return [self._feature(i) for i in ids]
        if form == "gen":
            mixed = [i if n % 2 else self._feature(i) for n, i in enumerate(ids)]
            return (x for x in mixed)
        if form == "db":
            from contracts.qharness import native_db
            return native_db([self._feature(i) for i in ids])
        if form == "ftype":
            return self.db.features_of_type(ids)
        if form == "self":
            return self.db
        raise ValueError(form)

    def update_arg(self, op, scratch_dir):
        form = op["form"]
        gtf = op.get("gtf")
        feats = [feat(s) for s in op["features"]]
        fail_at = op.get("fail_at")

        def gen():
            for i, f in enumerate(feats):
                if fail_at is not None and i == fail_at:
                    raise RuntimeError("source failed at item %d" % i)
                yield f
            if fail_at is not None and fail_at >= len(feats):
                raise RuntimeError("source failed at the end")
        if fail_at is not None or form == "gen":
            return gen(), {}
        if form == "list":
            return feats, {}
        if form == "tuple":
            return tuple(feats), {}
        if form == "iter":
            return iter(feats), {}
        text = "".join((gtf_line(s) if gtf else str(f)) + "\n" for s, f in zip(op["features"], feats))
        if form == "text":
            return text, {"from_string": True}
        if form == "file":
            fn = os.path.join(scratch_dir, "src.gtf" if gtf else "src.gff")
            with open(fn, "w") as fh:
                fh.write("##gff-version 3\n" if not gtf else "")
                fh.write(text)
            return fn, {}
        if form == "db":
            if not feats:
                from contracts.qharness import native_db
                return native_db([]), {}
            return gffutils.create_db(feats, ":memory:", merge_strategy="create_unique"), {}
        raise ValueError(form)


def exc_kind(e):
    if e is None:
        return None
    if isinstance(e, sqlite3.IntegrityError):
        return "integrity"
    if isinstance(e, FeatureNotFoundError):
        return "notfound"
    return "other:" + repr(e)


def diff(exp, got):
    ef, er = exp
    gf, gr = got
    if ef == gf and er == gr:
        return None
    d = {}
    if set(ef) != set(gf):
        d["ids_missing"] = sorted(set(ef) - set(gf))
        d["ids_unexpected"] = sorted(set(gf) - set(ef))
    ch = {i: {"expected": ef[i], "observed": gf[i]} for i in ef if i in gf and ef[i] != gf[i]}
    if ch:
        d["features_different"] = ch
    if er != gr:
        d["relations_missing"] = sorted(er - gr)
        d["relations_unexpected"] = sorted(gr - er)
    return d


def explicit_keys(op):
    out = set()
    for s in op.get("features", ()):
        for vals in s[3].values():
            out.update(vals)
    return out


# --------------------------------------------------------------------------------------------------
# bases

class Base(object):
    """a database file built once by the real create_db, plus the model of it"""

    def __init__(self, name, d, specs, strategy="error", id_spec=None, fmt="gff3", gtf_flags=(False, False)):
        self.name, self.specs, self.fmt = name, specs, fmt
        self.path = os.path.join(d, "base_%s.db" % name)
        self.gtf_kwargs = None
        kw = {}
        if id_spec:
            kw["id_spec"] = ID_SPECS[id_spec]
        if fmt == "gtf":
            self.gtf_kwargs = {"disable_infer_genes": gtf_flags[0], "disable_infer_transcripts": gtf_flags[1]}
            kw.update(self.gtf_kwargs)
            text = "".join(gtf_line(s) + "\n" for s in specs)
            db = gffutils.create_db(text, self.path, from_string=True, merge_strategy=strategy, **kw)
        else:
            db = gffutils.create_db([feat(s) for s in specs], self.path, merge_strategy=strategy, **kw)
        db.conn.close()
        del db
        gc.collect()
        self.model = Model(fmt, gtf_flags)
        self.model.update(U(specs, strategy, id_spec=id_spec))
        r = Real(self.path)
        self.problem = diff(self.model.snapshot(), r.snapshot())
        r.close()

    def case(self):
        return {"name": self.name, "fmt": self.fmt, "features": self.specs}


class Runner(object):
    def __init__(self, d, cap=25, allow=()):
        self.d = d
        self.allow = set(allow)
        self.path = os.path.join(d, "h.db")
        self.cases = 0
        self.seen = set()
        self.fails = []
        self.nfail = 0
        self.cap = cap
        self.stop_after = 60
        self.skipped = collections.Counter()
        self.sample = None

    def fail(self, case, expected, observed):
        self.nfail += 1
        if len(self.fails) < self.cap:
            self.fails.append({"case": case, "expected": expected, "observed": observed})

    def plan(self, base, ops):
        """model first: returns (steps, cut_op, reason, model) where steps = [(op, expected exception kind, expected
        snapshot)] for the longest prefix that is in scope, cut_op / reason = the first step out of scope and why (None
        if the history is complete), model = the model after the history (meaningful only if complete)"""
        m = base.model.copy()
        m.allow |= self.allow
        steps = []
        for op in ops:
            try:
                kind = m.apply(op)
            except OutOfScope as e:
                return steps, op, str(e), m
            steps.append((op, kind, m.snapshot()))
        return steps, None, None, m

    def fresh(self, base):
        for fn in (self.path, self.path + ".bak"):
            if os.path.exists(fn):
                os.unlink(fn)
        shutil.copyfile(base.path, self.path)
        return Real(self.path)

    def run(self, base, ops, backup=False):
        """main entry: the in-scope prefix of the history, step by step"""
        if self.nfail >= self.stop_after:
            return                                   # a broken tree: enough evidence, do not burn the time budget
        steps, cut_op, reason, _ = self.plan(base, ops)
        if reason:
            self.skipped[reason.split(":")[0]] += 1
        if not steps:
            return
        key = (base.name, json.dumps([s[0] for s in steps], sort_keys=True))
        if key in self.seen:
            return
        self.seen.add(key)
        self.execute(base, steps, backup)

    def execute(self, base, steps, backup=False):
        self.cases += 1
        if self.cases % 200 == 0:
            gc.collect()
        real = self.fresh(base)
        ever = set(real.ids())
        done = []
        try:
            for (op, kind, exp) in steps:
                done.append(op)
                before = set(real.ids())
                e = real.apply(op, backup=backup, scratch_dir=self.d, gtf_kwargs=base.gtf_kwargs)
                got_kind = exc_kind(e)
                e = None
                case = {"base": base.case(), "history": list(done)}
                if got_kind != kind:
                    self.fail(case, {"step %d raises" % len(done): kind}, {"step %d raises" % len(done): got_kind})
                    return
                d = diff(exp, real.snapshot())
                if d:
                    self.fail(case, "database == model after step %d" % len(done), d)
                    return
                after = set(real.ids())
                if op["op"] == "update":
                    recycled = sorted(((after - before) - explicit_keys(op)) & ever)
                    if recycled:
                        self.fail(case, "generated keys are new", {"recycled": recycled})
                        return
                ever |= after
            if self.sample is None:
                self.sample = {"base": base.case(), "history": done, "final_ids": sorted(real.ids())}
        finally:
            real.close()


# --------------------------------------------------------------------------------------------------
# GFF3 alphabet

B1 = [sp("gene", 1, 100, ID="g1"), sp("mRNA", 1, 100, ID="m1", Parent="g1"), sp("exon", 10, 20, Parent="m1")]

S_EXON = [sp("exon", 30, 40, Parent="m1")]
S_M2 = [sp("mRNA", 1, 100, ID="m2", Parent="g1"), sp("exon", 50, 60, Parent="m2"), sp("CDS", 50, 60, Parent="m2")]
S_G1A = [sp("gene", 1, 100, ID="g1", Note="x")]
S_G1B = [sp("gene", 2, 100, ID="g1")]
S_M1DUP = [sp("mRNA", 1, 100, ID="m1", Parent="g1", Note="y")]
S_MP = [sp("exon", 70, 80, Parent=["m1", "m2"])]
S_CF = [sp("exon", 5, 9, Parent="m3"), sp("mRNA", 1, 100, ID="m3", Parent="g1")]
S_TWO = [sp("exon", 30, 40, Parent="m1"), sp("exon", 30, 40, Parent="m1")]
S_G2 = [sp("gene", 200, 300, ID="g2")]


def alphabet(full):
    ups = [U(S_EXON), U(S_M2, "merge"), U(S_G1A, "merge"), U(S_G1B, "merge"), U(S_G1A, "create_unique"),
           U([], "error")]
    dels = [D(["exon_1"], "str"), D(["m1"], "feat"), D("exon", "ftype")]
    rels = [A("g1", "exon_1", 2), A("g1", "exon_1", 1)]
    if full:
        ups += [U(S_M1DUP, "create_unique"), U(S_G1A, "replace"), U(S_M1DUP, "warning"), U(S_MP), U(S_CF, "merge"),
                U(S_TWO, "create_unique"), U(S_G2, "warning")]
        dels += [D(["exon_1", "exon_2", "nope"], "list"), D(["g1"], "gen"), D(["m2"], "str"), D(["g1_1"], "feats")]
        rels += [A("g2", "m1", 1, func="both"), A("g1", "m1", 3, func="child"), A("m2", "exon_1", 1, "feat")]
    return ups + dels + rels + [R]


def unit_histories(U_):
    """exhaustive histories over the GFF3 alphabet"""
    with scratch() as d:
        run = Runner(d)
        base = Base("b1", d, B1)
        if base.problem:
            run.fail({"base": base.case()}, "create_db == model", base.problem)
        small, big = alphabet(False), alphabet(True)
        small = [o for i, o in enumerate(small) if i not in (2, 10)]      # without merge-into-g1 and the direct g1->exon_1 edge
        if U_.thorough:
            plan = [(big, 3), (small, 4)]
        else:
            plan = [(big, 2), (small, 3)]
        for alpha, depth in plan:
            for seq in itertools.product(alpha, repeat=depth):
                run.run(base, list(seq))
        scope = ("all histories of length %d over %d operations (13 updates incl. empty / 5 strategies, 7 deletes in 6 argument "
                 "forms, 5 add_relation, reopen) and of length %d over %d of them, on a 3-feature GFF3 file database; every "
                 "prefix checked; out of scope and cut: %s" % (plan[0][1], len(big), plan[1][1], len(small), dict(run.skipped)))
        U_.bounded_result("C10.bounded.histories",
                          "features and relations of the real file database == reference model after every step of an "
                          "update/delete/add_relation/reopen history; keys generated by an update were never keys before",
                          scope, run.cases, run.fails, exhaustive=True, distinct=len(run.seen), sample=run.sample)




# --------------------------------------------------------------------------------------------------
# counters: every route on which a key is generated, deletion of what was generated, reopen, then a probe

def counter_routes():
    g3 = [sp("gene", 3, 100, ID="g1")]
    e_id = [sp("exon", 30, 40, ID="e1", Parent="m1")]
    gx = [sp("gene", 300, 400, ID="exon")]
    return [
        # name, base (specs, strategy, id_spec), alphabet, probe
        ("featuretype", (B1, "error", None),
         [U(S_EXON), U(S_TWO), D(["exon_1"], "str"), D(["exon_2", "exon_3"]), D("exon", "ftype"), R], U(S_EXON)),
        ("create_unique", (B1, "error", None),
         [U(S_G1A, "create_unique"), U(S_G1B, "create_unique"), D(["g1_1"]), D(["g1"], "feat"), D(["g1_1", "g1_2"], "feats"), R],
         U(S_G1A, "create_unique")),
        ("merge_duplicates", (B1, "error", None),
         [U(S_G1B, "merge"), U(g3, "merge"), U(S_G1A, "merge"), D(["g1_1"]), D(["g1"], "str"), R], U(g3 + S_G1B, "merge")),
        ("autoincrement:X", (B1, "error", "auto_x"),
         [U(S_EXON, id_spec="auto_x"), U(S_M2, "merge", id_spec="auto_x"), D(["X_1"], "str"), D("exon", "ftype"), U(S_EXON), R],
         U(S_EXON, id_spec="auto_x")),
        ("dict_spec", (B1, "error", "dict"),
         [U(e_id, id_spec="dict"), U(S_G1A, "create_unique", id_spec="dict"), D("exon", "ftype"), D(["exon_1"], "tuple"), U(e_id), R],
         U(e_id + S_G1A, "create_unique", id_spec="dict")),
        ("shared_counter", (B1, "error", None),
         [U(gx, "create_unique"), U(S_EXON), D("exon", "ftype"), D(["exon"], "str"), D(["exon_2"], "db"), R],
         U(gx + S_EXON, "create_unique")),
    ]


def unit_counters(U_):
    with scratch() as d:
        run = Runner(d)
        depth = 4 if U_.thorough else 2
        n_routes = 0
        for name, (specs, strat, spec), alpha, probe in counter_routes():
            base = Base("c_" + name.replace(":", "_"), d, specs, strat, spec)
            n_routes += 1
            if base.problem:
                run.fail({"base": base.case()}, "create_db == model", base.problem)
                continue
            for n in range(1, depth + 1):
                for seq in itertools.product(alpha, repeat=n):
                    run.run(base, list(seq) + [probe])
                    run.run(base, list(seq) + [R, probe])
        U_.bounded_result("C10.bounded.counters",
                          "keys generated after a history (by featuretype, create_unique, merge duplicates, 'autoincrement:X', dict "
                          "id_spec, counter shared by an explicit id and a featuretype) == the model's continued numbering, and were "
                          "never keys of the database before; database == model after every step",
                          "%d key routes x all histories of length <= %d over 6 operations (2-3 generating updates, 2-3 deletes of "
                          "generated / generating features, reopen), each followed by a generating probe update, directly and after a "
                          "reopen; cut: %s" % (n_routes, depth, dict(run.skipped)),
                          run.cases, run.fails, exhaustive=True, distinct=len(run.seen), sample=run.sample)

        # ---- seeded random long histories
        run2 = Runner(d)
        base = Base("r1", d, B1)
        base2 = Base("r2", d, B1 + S_M2 + S_G2 + [sp("exon", 90, 95, ID="e1", Parent=["m1", "m2"])])
        for b in (base, base2):
            if b.problem:
                run2.fail({"base": b.case()}, "create_db == model", b.problem)
        n_hist = 1500 if U_.thorough else 170
        lo, hi = (4, 12) if U_.thorough else (4, 8)
        rng = U_.rng
        for i in range(n_hist):
            b = base if i % 2 == 0 else base2
            ops = random_history(rng, b, rng.randint(lo, hi))
            ops.append(U(S_TWO + S_G1A + [sp("CDS", 1, 2)], "create_unique"))       # probe of the counters
            run2.run(b, ops)
        U_.bounded_result("C10.bounded.random",
                          "features and relations == reference model after every step of a random history; generated keys never "
                          "recycled",
                          "%d seeded random histories of %d-%d steps + a generating probe on 2 GFF3 file databases: updates of 0-4 features "
                          "(4 featuretypes, explicit / absent ids, 0-2 parents, 2 coordinate variants, 5 strategies, 8 source forms "
                          "list/tuple/iterator/generator/text/file/FeatureDB), deletes of 1-3 existing or unknown ids in 9 argument forms, "
                          "add_relation (str / Feature, levels 1-3, parent_func / child_func), reopen; cut: %s"
                          % (n_hist, lo, hi, dict(run2.skipped)),
                          run2.cases, run2.fails, distinct=len(run2.seen), sample=run2.sample)


GENE_IDS, MRNA_IDS = ["g1", "g2", "g3"], ["m1", "m2", "m3"]
UPDATE_FORMS = ["list", "list", "tuple", "iter", "gen", "text", "file", "db"]


def random_feature(rng):
    ft = rng.choice(["gene", "mRNA", "exon", "exon", "CDS"])
    attrs = collections.OrderedDict()
    if ft == "gene":
        i = rng.choice(GENE_IDS + [None])
    elif ft == "mRNA":
        i = rng.choice(MRNA_IDS + [None])
    else:
        i = rng.choice([None, None, None, "e1", "e2"])
    if i:
        attrs["ID"] = [i]
    if ft == "mRNA":
        ps = rng.sample(GENE_IDS, rng.choice([0, 1, 1, 2]))
    elif ft == "gene":
        ps = []
    else:
        ps = rng.sample(MRNA_IDS, rng.choice([0, 1, 1, 2]))
    if ps:
        attrs["Parent"] = ps
    note = rng.choice([None, None, "x", "y"])
    if note:
        attrs["Note"] = [note]
    if i:
        start, end = rng.choice([1, 1, 2]), 100
    else:
        start = rng.randint(1, 90)
        end = start + rng.randint(0, 9)
    return [ft, start, end, attrs]


def random_op(rng, m):
    ids = m.ids()
    x = rng.random()
    if x < 0.45:
        specs = [random_feature(rng) for _ in range(rng.choice([0, 1, 1, 2, 2, 3, 4]))]
        strategy = rng.choice(["error", "merge", "merge", "create_unique", "create_unique", "warning", "replace"])
        if strategy == "replace":
            # C05 known finding: 'replace' keeps the relations of the replaced line -> keep Parent unchanged
            parent_of = {}
            for s in specs:
                i = s[3].get("ID", [None])[0]
                if not i:
                    continue
                if i in m.ref.F:
                    old = m.ref.F[i].attrs.get("Parent")
                elif i in parent_of:
                    old = parent_of[i]
                else:
                    parent_of[i] = s[3].get("Parent")
                    continue
                s[3].pop("Parent", None)
                if old:
                    s[3]["Parent"] = list(old)
        return U(specs, strategy, rng.choice(UPDATE_FORMS))
    if x < 0.72:
        y = rng.random()
        if y < 0.12 and ids:
            return D(m.ref.F[rng.choice(ids)].cols["featuretype"], "ftype")
        if y < 0.14:
            return D([], "self")
        pool = ids + ["nope"]
        chosen = rng.sample(pool, min(len(pool), rng.choice([1, 1, 2, 3])))
        forms = ["list", "tuple", "feats", "gen", "db"] + (["str", "feat", "str"] if len(chosen) == 1 else [])
        return D(chosen, rng.choice(forms))
    if x < 0.9:
        pool = ids + ["nope"]
        p, c = rng.choice(pool), rng.choice(pool)
        func = rng.choice([None, None, "child", "parent", "both"]) if p != c else None
        return A(p, c, rng.choice([1, 1, 2, 3]), rng.choice(["str", "feat"]), func)
    return R


def random_history(rng, base, n):
    m = base.model.copy()
    ops = []
    for _ in range(n):
        for _attempt in range(8):
            op = random_op(rng, m)
            m2 = m.copy()
            try:
                m2.apply(op)
            except OutOfScope:
                continue
            m = m2
            ops.append(op)
            break
    return ops


# --------------------------------------------------------------------------------------------------
# backup

L5 = [sp("exon", 31, 41, Parent="m1"), sp("gene", 500, 600, ID="g5"), sp("CDS", 12, 18, Parent="m1"),
      sp("mRNA", 1, 100, ID="m4", Parent="g1"), sp("exon", 32, 42, Parent="m4")]
CONT = U(S_TWO + S_G1A + [sp("CDS", 1, 2)], "create_unique")


def insert_at(lst, p, item):
    return lst[:p] + [item] + lst[p:]


def backup_ops(thorough):
    """(operation, fails?)"""
    out = []
    for op in (U(S_EXON), U(S_M2, "merge"), U(S_G1B, "merge"), U([]), U([], form="text"), U([], form="iter"),
               D(["exon_1"], "str"), D(["nope"], "str"), D("exon", "ftype"), D([], "self"), D(["m1", "g1"], "gen")):
        out.append((op, False))
    cls = (None, 0, 2)
    for cl in cls:
        extra = {} if cl is None else {"checklines": cl}
        for p in range(0, len(L5) + 1):
            out.append((U(L5, "error", fail_at=p, **extra), True))
            out.append((U(S_G1B + L5, "merge", fail_at=p, **extra), True))            # the duplicates row is committed mid-way
            if p < len(L5) or thorough:
                out.append((U(insert_at(L5, p, sp("gene", 1, 100, ID="g1")), "error", explicit_strategy=True, **extra), True))
            if cl != 2 or thorough:
                out.append((U(insert_at(L5, p, sp("gene", 7, 8, ID=["a", "b"])), "merge", **extra), True))
        out.append((U(insert_at(L5, 3, sp("gene", 1, 100, ID="g1")), "no_such_strategy", **extra), True))
    ids = ["exon_1", "nope", "m1", "g1"]
    for p in range(0, len(ids) + 1):
        d = D(ids, "gen")
        d["fail_at"] = p
        out.append((d, True))
    return out


def unit_backup(U_):
    with scratch() as d:
        run = Runner(d)
        base = Base("k1", d, B1)
        fails, cases, distinct = [], 0, set()
        prefixes = [[], [U(S_G1A, "create_unique"), D(["exon_1"], "str")]]
        if U_.thorough:
            prefixes += [[U(S_M2, "merge"), A("g1", "exon_1", 1)], [D([], "self")]]
        stales = ["none", "junk", "old"]
        for prefix in prefixes:
            steps, _, reason, pre_model = run.plan(base, prefix)
            assert not reason
            for op, must_fail in backup_ops(U_.thorough):
                if op.get("fail_at") is None:
                    # whether a rejected duplicate / invalid strategy bites depends on the pre-state: ask the model
                    try:
                        pre_model.copy().apply(op)
                        must_fail = False
                    except OutOfScope:
                        must_fail = True
                for stale in stales:
                    for explicit in ((True, None) if (U_.thorough or stale == "none") else (None,)):
                        if stale != "none" and not U_.thorough and must_fail and op.get("fail_at") not in (None, 0, 3):
                            continue
                        cases += 1
                        if cases % 100 == 0:
                            gc.collect()
                        case = {"base": base.case(), "history": prefix, "operation": op, "make_backup": "default" if explicit is None else True,
                                "bak_before": stale}
                        distinct.add(json.dumps(case, sort_keys=True))
                        r = backup_case(run, base, prefix, pre_model, op, must_fail, stale, explicit)
                        if r:
                            if len(fails) < 25:
                                fails.append({"case": case, "expected": r[0], "observed": r[1]})
                            else:
                                fails.append(None)
        nf = len(fails)
        fails = [f for f in fails if f]
        U_.bounded_result("C10.bounded.backup",
                          "after update()/delete() with make_backup on a file database '<db>.bak' is byte-identical to the database "
                          "file at entry (also when the feature / id source raises at its p-th item, a duplicate is rejected, an id is "
                          "multi-valued or the strategy is invalid), replaces any older .bak, and restoring it gives a database equal "
                          "to the model of the pre-state whose numbering continues as the model says",
                          "%d pre-states x (11 succeeding operations incl. empty updates + failing 5/6-feature updates with the failure at "
                          "every position 0..n x checklines default/0/2 x 4 failure kinds + failing id generators at every position) x "
                          "{no .bak, junk .bak, older .bak} x make_backup {default, True}; %d failing cases in total"
                          % (len(prefixes), nf),
                          cases, fails, distinct=len(distinct))

        # ---- an update directly after a rejected add_relation (was: OperationalError 'database is locked')
        strict = Runner(d)
        run3 = Runner(d, allow=("txn",))
        small, big = alphabet(False), alphabet(True)
        for alpha, depth in ((big, 2), (small, 4 if U_.thorough else 3)):
            for seq in itertools.product(alpha, repeat=depth):
                _, _, reason, _ = strict.plan(base, list(seq))
                if reason == "rejected_relation_then_update":
                    run3.run(base, list(seq))
        U_.bounded_result("C10.bounded.rejected_relation_then_update",
                          "a rejected (duplicate) add_relation changes nothing, so a following update() on the same FeatureDB "
                          "object behaves as the model says (database == model after every step)",
                          "all histories of length 2 over the %d operations and of length %d over %d operations of C10.bounded.histories "
                          "in which a non-empty update follows a rejected add_relation with no commit / reopen in between"
                          % (len(big), 4 if U_.thorough else 3, len(small)),
                          run3.cases, run3.fails, exhaustive=True, distinct=len(run3.seen), sample=run3.sample)


def backup_case(run, base, prefix, pre_model, op, must_fail, stale, explicit):
    real = run.fresh(base)
    bak = run.path + ".bak"
    try:
        for p in prefix:
            e = real.apply(p, backup=False, scratch_dir=run.d)
            if e is not None:
                return "prefix runs", repr(e)
        if os.path.exists(bak):
            return "no .bak with make_backup=False", "exists"
        if stale == "junk":
            with open(bak, "wb") as fh:
                fh.write(b"junk" * 3000)
        elif stale == "old":
            shutil.copyfile(base.path, bak)
        with open(run.path, "rb") as fh:
            pre = fh.read()
        if not must_fail:
            m = pre_model.copy()
            kind = m.apply(op)
        e = real.apply(op, backup=explicit, scratch_dir=run.d)
        got = exc_kind(e)
        e = None
        if must_fail and got is None:
            return "the operation fails (test design)", "returned normally"
        if not must_fail:
            if got != kind:
                return {"raises": kind}, {"raises": got}
            dd = diff(m.snapshot(), real.snapshot())
            if dd:
                return "database == model after the operation", dd
        if not os.path.exists(bak):
            return ".bak exists", "missing (operation outcome: %s)" % got
        with open(bak, "rb") as fh:
            b = fh.read()
        if b != pre:
            return ".bak == database file at entry (%d bytes)" % len(pre), \
                "differs (%d bytes; equals the file after the operation: %s; operation outcome: %s)" % (
                    len(b), b == open(run.path, "rb").read(), got)
        # completeness: continue on the restored copy
        real.close()
        if got is not None:
            gc.collect()
        shutil.copyfile(bak, run.path)
        real = Real(run.path)
        dd = diff(pre_model.snapshot(), real.snapshot())
        if dd:
            return "restored .bak == model of the pre-state", dd
        m = pre_model.copy()
        m.apply(CONT)
        e = real.apply(CONT, backup=False, scratch_dir=run.d)
        if e is not None:
            return "update on the restored .bak runs", repr(e)
        dd = diff(m.snapshot(), real.snapshot())
        if dd:
            return "update on the restored .bak == model (numbering continues from the pre-state)", dd
        return None
    finally:
        real.close()
        if must_fail:
            gc.collect()          # the creator of a failed update (and its connection) is only freed by the collector


# --------------------------------------------------------------------------------------------------
# F10 (deep updates) and GTF histories

BDEEP = [sp("gene", 1, 100, ID="g1"), sp("mRNA", 1, 100, ID="m1", Parent="g1"), sp("exon", 10, 20, ID="e1", Parent="m1"),
         sp("CDS", 12, 18, Parent="e1")]
S_SUB = [sp("CDS", 12, 18, Parent="exon_1")]
S_CHAIN = [sp("mRNA", 1, 100, ID="m4", Parent="g1"), sp("exon", 50, 60, ID="e4", Parent="m4"), sp("CDS", 52, 58, Parent="e4")]

GB = [gsp("exon", 10, 20, "gA", "tA"), gsp("exon", 30, 40, "gA", "tA"), gsp("CDS", 12, 18, "gA", "tA")]
G_IN = [gsp("exon", 22, 28, "gA", "tA")]
G_TB = [gsp("exon", 12, 20, "gA", "tB"), gsp("exon", 25, 40, "gA", "tB")]
G_NEW = [gsp("exon", 100, 120, "gB", "tC"), gsp("CDS", 100, 110, "gB", "tC")]
G_CDS = [gsp("CDS", 30, 35, "gA", "tA"), gsp("start_codon", 12, 14, "gA", "tA")]
G_EXT = [gsp("exon", 50, 60, "gA", "tA")]


def unit_deep_gtf(U_):
    import io
    with scratch() as d, contextlib.redirect_stderr(io.StringIO()):
        # ---- F10: updates at which composing relations of any level differs from two first-level edges
        run = Runner(d)
        alpha = [U(S_SUB), U(S_EXON), U(S_CHAIN, "merge"), D(["m1"], "str"), A("exon_1", "g1", 2), A("m1", "g1", 1), R]
        depth = 3 if U_.thorough else 2
        for bname, specs in (("b1", B1), ("bdeep", BDEEP)):
            base = Base("f10_" + bname, d, specs)
            if base.problem:
                run.fail({"base": base.case()}, "create_db == model", base.problem)
                continue
            for n in range(1, depth + 2):
                for seq in itertools.product(alpha, repeat=n):
                    steps, cut_op, reason, _ = run.plan(base, list(seq))
                    if reason != "deep":
                        continue
                    ops = [s[0] for s in steps] + [cut_op]
                    key = (base.name, json.dumps(ops, sort_keys=True))
                    if key in run.seen:
                        continue
                    run.seen.add(key)
                    m = base.model.copy()
                    m.allow.add("deep")
                    full = []
                    for op in ops:
                        kind = m.apply(op)
                        full.append((op, kind, m.snapshot()))
                    run.execute(base, full)
        U_.bounded_result("C10.bounded.deep_update",
                          "after an update on a GFF3 graph in which relations of any level compose to more than two first-level "
                          "edges do, level 2 still means exactly two first-level edges (database == model)",
                          "all histories of length <= %d over 7 operations on 2 GFF3 bases (depth 3 and 4) that END in such an update "
                          "(%d of them deviate)" % (depth + 1, run.nfail), run.cases, run.fails, exhaustive=True, distinct=len(run.seen), sample=run.sample)

        # ---- GTF histories
        run = Runner(d)
        alpha = [U(G_IN, gtf=True), U(G_TB, form="text", gtf=True), U(G_NEW, gtf=True), U(G_CDS, form="file", gtf=True), U([], gtf=True),
                 D(["exon_1"], "str"), D(["tA"], "feat"), D("exon", "ftype"), D(["gA", "CDS_1"], "list"),
                 A("gA", "CDS_1", 1), A("tA", "exon_1", 1), R]
        flagsets = [(False, False), (True, True)] + ([(True, False), (False, True)] if U_.thorough else [])
        depth = 3 if U_.thorough else 2
        for flags in flagsets:
            base = Base("gtf_%d%d" % flags, d, GB, fmt="gtf", gtf_flags=flags)
            if base.problem:
                run.fail({"base": base.case(), "flags": flags}, "create_db == model", base.problem)
                continue
            for seq in itertools.product(alpha, repeat=depth):
                run.run(base, list(seq))
            small = [alpha[i] for i in (0, 1, 2, 5, 6, 7, 11)]
            if U_.thorough or flags == (False, False):
                for seq in itertools.product(small, repeat=depth + 1):
                    run.run(base, list(seq))
        U_.bounded_result("C10.bounded.gtf",
                          "GTF file database: features (lines and inferred transcripts / genes) and relations == reference model after "
                          "every step of an update/delete/add_relation/reopen history; generated keys never recycled",
                          "all histories of length %d over 12 operations and of length %d over 7 of them (5 updates as Feature lists / GTF text / GTF file that add "
                          "subfeatures inside existing extents, new transcripts, new genes, non-subfeature lines, nothing; 4 deletes; 2 "
                          "add_relation; reopen) x %d disable_infer_* settings (same kwargs at every update); updates that would change an "
                          "inferred extent are out of scope; cut: %s" % (depth, depth + 1, len(flagsets), dict(run.skipped)),
                          run.cases, run.fails, exhaustive=True, distinct=len(run.seen), sample=run.sample)


def unit_failed_long_update(U_):
    """Bounded: an update() whose feature source raises part-way - after 0, 1, a few hundred, exactly 1000, 1001, 1100, 2300
    features - leaves the stored features and relations as they were (seen through a freshly opened FeatureDB), and the same
    update run to its end afterwards gives the modelled content with keys never handed out before"""
    from gffutils import feature as _feature
    fails, cases = [], 0
    base = ["chr1\tsrc\tgene\t100\t900\t.\t+\t.\tID=g0", "chr1\tsrc\tmRNA\t100\t900\t.\t+\t.\tID=t0;Parent=g0", "chr1\tsrc\texon\t100\t200\t.\t+\t.\tParent=t0"]

    def lines(n):
        out = []
        for i in range(n):
            s0 = 1000 + 10 * i
            out += ["chr2\tsrc\tgene\t%d\t%d\t.\t+\t.\tID=G%d" % (s0, s0 + 8, i), "chr2\tsrc\tmRNA\t%d\t%d\t.\t+\t.\tID=T%d;Parent=G%d" % (s0, s0 + 8, i, i),
                    "chr2\tsrc\texon\t%d\t%d\t.\t+\t.\tParent=T%d" % (s0, s0 + 4, i)]
        return out

    class Fault(Exception):
        pass

    def source(ls, fail_at):
        for i, l in enumerate(ls):
            if fail_at is not None and i == fail_at:
                raise Fault()
            yield _feature.feature_from_line(l)

    def observe(path):
        c = sqlite3.connect(path)
        try:
            return (sorted(r[0] for r in c.execute("SELECT id FROM features")), sorted(tuple(r) for r in c.execute("SELECT parent, child, level FROM relations")))
        finally:
            c.close()
    positions = (0, 1, 2, 500, 999, 1000, 1001, 1100, 2300) if U_.thorough else (0, 1, 999, 1000, 1100)
    nlines = lines(800 if U_.thorough else 400)
    with scratch() as d:
        for pos in positions:
            if pos >= len(nlines):
                continue
            path = os.path.join(d, "f%d.db" % pos)
            db = gffutils.create_db("\n".join(base), path, from_string=True)
            db.conn.close()
            before = observe(path)
            db = gffutils.FeatureDB(path)
            cases += 1
            try:
                db.update(source(nlines, pos))
                raised = False
            except Fault:
                raised = True
            except Exception as e:
                raised = repr(e)
            db.conn.close()
            del db
            gc.collect()
            after = observe(path)
            if raised is not True or after != before:
                fails.append({"case": {"source raises after": pos, "features in the source": len(nlines)}, "expected": "the source's exception; %d features, %d relations as before" % (len(before[0]), len(before[1])),
                              "observed": "raised=%r; %d features, %d relations" % (raised, len(after[0]), len(after[1]))})
                continue
            db = gffutils.FeatureDB(path)
            db.update(source(nlines, None))
            db.conn.close()
            full = observe(path)
            want = len(before[0]) + len(nlines)
            if len(full[0]) != want or len(set(full[0])) != want:
                fails.append({"case": {"after the failed update at": pos, "then": "the same update to its end"}, "expected": "%d features" % want, "observed": "%d features" % len(full[0])})
    U_.bounded_result("C10.bounded.failed_long_update", "an update whose source raises part-way adds nothing (freshly opened database == before), whatever the number of features read before the fault; the completed update afterwards adds exactly its features",
                      "file database, sources of %d features raising after %s features" % (len(nlines), list(positions)), cases, fails)


UNITS = [("bounded.failed_long_update", unit_failed_long_update), ("bounded.histories", unit_histories), ("bounded.counters", unit_counters), ("bounded.backup", unit_backup),
         ("bounded.deep_gtf", unit_deep_gtf)]
