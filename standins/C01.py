"""Bounded run-time stand-ins for C01 (import fidelity: every input line is stored once and comes
back unchanged).

The statement is evaluated natively on the REAL pipeline (gffutils.create_db -> sqlite ->
FeatureDB.all_features -> str) over generated GFF3 / GTF / GFF2 files.  The oracle is the *generator's
own structured description of the file*: every line is produced from a record (eight columns, ordered
attribute items, extra columns) by the writer `enc` of DESIGN.md Appendix A.3, written here from the
statement (nothing is parsed with gffutils to obtain expectations).

Checked for every case
  * exactly one feature per feature line, in input order (GTF with inference: derived features only
    after the input features and marked source == gffutils_derived);
  * eight fixed columns (start/end as int or None), extra columns, attribute keys and value lists;
  * keep_order=True: str(feature) == the input line, byte for byte; keep_order=False: same columns, same
    multiset of attribute parts; sort_attribute_values=True: the line with each value list sorted;
  * printing is independent of the order in which features are printed (reverse pass);
  * the same after closing and reopening the database file (a second FeatureDB on the connection for
    :memory:);
  * re-importing the printed features gives a database with the same ids, content, printed lines and
    relations.

Precondition of the byte-identity clause (known finding F16 and the documented "one order for the whole
database" rule): the dialect that the weighted vote over the first checklines+1 feature lines yields
(Appendix A.3 `vote`) must agree with the file's dialect on every fact some line of the file depends
on, and every line must list its keys in the order "keys seen in the window, in first-seen order; then
keys never seen in the window, in the line's own order".  Files outside the precondition are NOT run
by the main stand-ins; they are run by `bounded.known_dialect_loss` and reported under separate ids.
"""
import collections
import contextlib
import io
import itertools
import os
import shutil
import tempfile

import gffutils
from gffutils.feature import feature_from_line      # only to build Feature objects for the "features" input forms

# =============================================================================================
# specification side (Appendix A.3), written from the statement
# =============================================================================================
Dialect = collections.namedtuple("Dialect", "sep trailing kv quoted repeated")
SEPS = (";", "; ", " ; ")
STYLES = (("=", False), ("=", True), (" ", True), (" ", False))      # k=v  k="v"  k "v"  k v
ALL_DIALECTS = [Dialect(sep, tr, kv, q, rep) for sep in SEPS for tr in (False, True) for (kv, q) in STYLES for rep in (False, True)]
PLAIN_GFF3 = Dialect(";", False, "=", False, False)

# GFF3 specification: tab, newline, CR, %, control characters, and ; = & , are percent-encoded
RESERVED = set("\t\n\r%;=&,") | set(chr(i) for i in range(32)) | {chr(127)}


def fmt_of(D):
    return "gtf" if (D.kv == " " and D.quoted) else "gff3"


def pct(v):
    return "".join("%%%02X" % ord(c) if c in RESERVED else c for c in v)


def parts_of(items, D):
    """the attribute parts of one line, in order: list of (key, values-of-this-part)"""
    out = []
    for k, vs in items:
        if D.repeated and len(vs) > 1:
            out.extend((k, [v]) for v in vs)
        else:
            out.append((k, list(vs)))
    return out


def enc_part(k, vs, D):
    if not vs:
        return k + D.kv + '""' if fmt_of(D) == "gtf" else k
    s = ",".join(pct(v) if fmt_of(D) == "gff3" else v for v in vs)
    if D.quoted:
        s = '"' + s + '"'
    return k + D.kv + s


def enc(items, D):
    if not items:
        return ""
    return D.sep.join(enc_part(k, vs, D) for k, vs in parts_of(items, D)) + (";" if D.trailing else "")


class Rec(object):
    """one feature line: cols = [seqid, source, type, start|None, end|None, score, strand, frame]"""

    def __init__(self, cols, items, extra=()):
        self.cols, self.items, self.extra = list(cols), [(k, list(v)) for k, v in items], list(extra)

    def line(self, D, sort_values=False):
        c = [("." if x is None else str(x)) for x in self.cols]
        items = [(k, sorted(vs)) for k, vs in self.items] if sort_values else self.items
        return "\t".join(c) + "\t" + enc(items, D) + "".join("\t" + x for x in self.extra)

    def keys(self):
        return [k for k, _ in self.items]


# ---- what one line lets an observer see of the dialect, and the vote over the window
DEFAULTS = {"sep": ";", "trailing": False, "kv": "=", "quoted": False, "repeated": False}


def observed(rec, D):
    ps = parts_of(rec.items, D)
    ob = dict(DEFAULTS)
    if not ps:
        return ob
    if len(ps) >= 2:
        ob["sep"] = D.sep
    ob["trailing"] = D.trailing
    first_k, first_vs = ps[0]
    ob["kv"] = "=" if (D.kv == "=" and first_vs) else " "
    gtf = fmt_of(D) == "gtf"
    ob["quoted"] = D.quoted and any(vs or gtf for _, vs in ps)
    ob["repeated"] = D.repeated and any(len(vs) > 1 for _, vs in rec.items)
    return ob


def vote(window, D):
    """argmax over values of the summed weights (weight = number of attribute keys), first seen wins ties"""
    out = {}
    for fact in DEFAULTS:
        tally = collections.OrderedDict()
        for r in window:
            v = observed(r, D)[fact]
            tally[v] = tally.get(v, 0) + len(r.items)
        best = None
        for v, w in tally.items():
            if best is None or w > tally[best]:
                best = v
        out[fact] = DEFAULTS[fact] if best is None else best
    return out


def classify(recs, D, checklines):
    """reasons why byte identity is NOT demanded of this file (empty list: it is demanded)"""
    window = recs[:checklines + 1]
    want = {"sep": D.sep, "trailing": D.trailing, "kv": D.kv, "quoted": D.quoted, "repeated": D.repeated}
    matters = {
        "sep": any(len(parts_of(r.items, D)) >= 2 for r in recs),
        "trailing": any(r.items for r in recs),
        "kv": any(vs or fmt_of(D) == "gtf" for r in recs for _, vs in r.items),
        "quoted": any(vs or fmt_of(D) == "gtf" for r in recs for _, vs in r.items),
        "repeated": any(len(vs) > 1 for r in recs for _, vs in r.items),
    }
    got = vote(window, D)
    reasons = ["vote:" + f for f in sorted(DEFAULTS) if matters[f] and got[f] != want[f]]
    seen = []
    for r in window:
        for k in r.keys():
            if k not in seen:
                seen.append(k)
    for r in recs:
        ks = r.keys()
        known = [k for k in ks if k in seen]
        if known and any(k not in seen for k in ks[:ks.index(known[-1])]):
            if "late_key" not in reasons:
                reasons.append("late_key")
        if [seen.index(k) for k in known] != sorted(seen.index(k) for k in known):
            if "first_seen_order" not in reasons:
                reasons.append("first_seen_order")
    return reasons


# =============================================================================================
# cases
# =============================================================================================
class Case(object):
    def __init__(self, D, recs, checklines=None, db="memory", strategy="error", keep_order=True, sort_values=False,
                 id_spec=None, form="file", eol="\n", final_eol=True, deco=(), fasta=False, infer=False, tag=""):
        self.D, self.recs, self.checklines, self.db, self.strategy = D, recs, checklines, db, strategy
        self.keep_order, self.sort_values, self.id_spec, self.form = keep_order, sort_values, id_spec, form
        self.eol, self.final_eol, self.deco, self.fasta, self.infer, self.tag = eol, final_eol, tuple(deco), fasta, infer, tag

    @property
    def window(self):
        return 10 if self.checklines is None else self.checklines

    def lines(self):
        return [r.line(self.D) for r in self.recs]

    def text(self):
        out = []
        deco = collections.defaultdict(list)
        for pos, t in self.deco:
            deco[pos].append(t)
        ls = self.lines()
        for i, l in enumerate(ls):
            out.extend(deco.get(i, ()))
            out.append(l)
        out.extend(deco.get(len(ls), ()))
        if self.fasta:
            out.extend(["##FASTA", ">chr1", "ACGTACGT"])
        s = self.eol.join(out)
        return s + self.eol if (self.final_eol or self.fasta) else s

    def kwargs(self):
        kw = {"merge_strategy": self.strategy, "keep_order": self.keep_order, "sort_attribute_values": self.sort_values}
        if self.checklines is not None:
            kw["checklines"] = self.checklines
        if self.id_spec == "ID":
            kw["id_spec"] = "ID"
        elif self.id_spec == "auto":
            kw["id_spec"] = _auto_id
        if fmt_of(self.D) == "gtf" and not self.infer:
            kw["disable_infer_genes"] = True
            kw["disable_infer_transcripts"] = True
        return kw

    def describe(self):
        kw = self.kwargs()
        if "id_spec" in kw and callable(kw["id_spec"]):
            kw["id_spec"] = "lambda f: None"
        return {"tag": self.tag, "text": self.text(), "dialect": dict(self.D._asdict()), "create_db": kw, "db": self.db, "input_form": self.form}

    def key(self):
        return (self.text(), repr(sorted(self.describe()["create_db"].items())), self.db, self.form)


def _auto_id(f):
    return None


def expected_print(case, rec):
    """(mode, line): mode 'exact' | 'loose' | None (nothing demanded of the bytes)"""
    D = case.D
    if case.sort_values:
        if D.repeated and any(vs != sorted(vs) for _, vs in rec.items):
            return None, None           # "sorted values" says nothing about the order of repeated keys
        if fmt_of(D) == "gff3" and any(sorted(vs) != sorted(vs, key=pct) for _, vs in rec.items):
            return None, None           # ... nor whether values are compared before or after escaping
        line = rec.line(D, sort_values=True)
    else:
        line = rec.line(D)
    return ("exact" if case.keep_order else "loose"), line


def loose_key(line, D):
    f = line.split("\t")
    a = f[8] if len(f) > 8 else None
    tr = False
    if a and D.trailing and a.endswith(";"):
        a, tr = a[:-1], True
    return (f[:8], f[9:], tr, sorted(a.split(D.sep)) if a else a)


def snapshot(db):
    feats = list(db.all_features())
    snap = []
    for f in feats:
        snap.append({"id": f.id,
                     "cols": [f.seqid, f.source, f.featuretype, f.start, f.end, f.score, f.strand, f.frame],
                     "attrs": [[k, list(v)] for k, v in f.attributes.items()],
                     "extra": list(f.extra), "str": str(f)})
    again = [str(f) for f in reversed(feats)][::-1]
    return snap, again


def normalised(case, snap):
    """what 'equivalent database' compares: value order is not carried by lines printed with sorted values,
    key order is not carried by lines printed with keep_order=False"""
    out = []
    for s in snap:
        attrs = [[k, (sorted(v) if case.sort_values else v)] for k, v in s["attrs"]]
        out.append(dict(s, attrs=(attrs if case.keep_order else sorted(attrs)),
                        str=(s["str"] if case.keep_order else loose_key(s["str"], case.D))))
    return out


def relations(db):
    return sorted(tuple(r) for r in db.conn.execute("SELECT parent, child, level FROM relations"))


def compare(case, snap, again, stage, fails):
    """the statement's clauses on one snapshot of the database"""
    recs = case.recs
    desc = None

    def fail(what, expected, got, i=None):
        d = dict(case.describe())
        d["stage"], d["clause"] = stage, what
        if i is not None:
            d["line_index"] = i
        fails.append({"case": d, "expected": expected, "observed": got})

    n = len(recs)
    if case.infer:
        tail = snap[n:]
        if len(snap) < n or any(s["cols"][1] != "gffutils_derived" for s in tail):
            fail("one feature per input line, derived features last", n, [s["str"] for s in snap])
            return False
        snap, again = snap[:n], again[:n]
    elif len(snap) != n:
        fail("one feature per input line", n, [s["str"] for s in snap])
        return False
    ok = True
    for i, (r, s) in enumerate(zip(recs, snap)):
        if s["cols"] != r.cols or [type(x) for x in s["cols"]] != [type(x) for x in r.cols]:
            fail("eight fixed columns", r.cols, s["cols"], i)
            ok = False
        if s["extra"] != r.extra:
            fail("extra columns", r.extra, s["extra"], i)
            ok = False
        exp_attrs = dict((k, list(v)) for k, v in r.items)
        got_attrs = dict((k, v) for k, v in s["attrs"])
        if got_attrs != exp_attrs or len(s["attrs"]) != len(r.items):
            fail("attribute keys and values", r.items, s["attrs"], i)
            ok = False
        mode, line = expected_print(case, r)
        if mode == "exact" and s["str"] != line:
            fail("printed form byte-identical to the input line", line, s["str"], i)
            ok = False
        elif mode == "loose" and loose_key(s["str"], case.D) != loose_key(line, case.D):
            fail("printed form has the input's columns and attribute parts (keep_order=False)", line, s["str"], i)
            ok = False
        if again[i] != s["str"]:
            fail("printed form does not depend on which features were printed before", s["str"], again[i], i)
            ok = False
    return ok


class Scratch(object):
    def __init__(self):
        self.root = tempfile.gettempdir()
        self.before = set(os.listdir(self.root))
        self.dir = tempfile.mkdtemp(prefix="c01_")
        self.n = 0

    def path(self, suffix):
        self.n += 1
        return os.path.join(self.dir, "f%d%s" % (self.n, suffix))

    def sweep(self):
        """remove what gffutils' from_string leaves behind (known finding F13) and our own files"""
        for name in set(os.listdir(self.root)) - self.before:
            p = os.path.join(self.root, name)
            if not os.path.isdir(p):
                try:
                    os.unlink(p)
                except OSError:
                    pass

    def close(self):
        self.sweep()
        shutil.rmtree(self.dir, ignore_errors=True)


def _create(data, dbfn, kw, from_string=False):
    with contextlib.redirect_stderr(io.StringIO()):
        return gffutils.create_db(data, dbfn, from_string=from_string, **kw)


def run_case(case, scratch, reimport=True):
    """returns the list of failures of this case"""
    fails = []
    kw = case.kwargs()
    text = case.text()
    tmp = []
    dbs = []
    try:
        if case.form == "file":
            p = scratch.path(".gff")
            with open(p, "w", encoding="utf-8", newline="") as fh:
                fh.write(text)
            tmp.append(p)
            data, fs = p, False
        elif case.form == "string":
            data, fs = text, True
        else:
            feats = [feature_from_line(l) for l in case.lines()]
            data, fs = (iter(feats) if case.form == "featgen" else feats), False
        dbfn = ":memory:"
        if case.db == "file":
            dbfn = scratch.path(".db")
            tmp.append(dbfn)
        try:
            db = _create(data, dbfn, kw, fs)
            dbs.append(db)
            snap, again = snapshot(db)
        except Exception as e:
            d = dict(case.describe())
            d["stage"] = "create_db"
            fails.append({"case": d, "expected": "no exception", "observed": repr(e)})
            return fails
        if not compare(case, snap, again, "create_db", fails):
            return fails
        rel1 = relations(db)
        # ---- closed and reopened
        try:
            if case.db == "file":
                db.conn.close()
                db2 = gffutils.FeatureDB(dbfn, keep_order=case.keep_order, sort_attribute_values=case.sort_values)
            else:
                db2 = gffutils.FeatureDB(db.conn, keep_order=case.keep_order, sort_attribute_values=case.sort_values)
            dbs.append(db2)
            snap2, again2 = snapshot(db2)
            rel2 = relations(db2)
        except Exception as e:
            d = dict(case.describe())
            d["stage"] = "reopen"
            fails.append({"case": d, "expected": "no exception", "observed": repr(e)})
            return fails
        compare(case, snap2, again2, "reopen", fails)
        if snap2 != snap or rel2 != rel1:
            d = dict(case.describe())
            d["stage"] = "reopen"
            fails.append({"case": d, "expected": {"features": snap, "relations": rel1}, "observed": {"features": snap2, "relations": rel2}})
        # ---- printed features imported again
        lossy = case.sort_values and any(vs != sorted(vs) for r in case.recs for _, vs in r.items)
        if reimport and not case.infer and not fails and not lossy:
            text3 = "\n".join(s["str"] for s in snap) + "\n"
            try:
                if case.form == "string":
                    db3 = _create(text3, ":memory:", kw, True)
                else:
                    p3 = scratch.path(".gff")
                    with open(p3, "w", encoding="utf-8", newline="") as fh:
                        fh.write(text3)
                    tmp.append(p3)
                    dbfn3 = ":memory:"
                    if case.db == "file":
                        dbfn3 = scratch.path(".db")
                        tmp.append(dbfn3)
                    db3 = _create(p3, dbfn3, kw)
                dbs.append(db3)
                snap3, _ = snapshot(db3)
                rel3 = relations(db3)
            except Exception as e:
                d = dict(case.describe())
                d["stage"] = "reimport"
                fails.append({"case": d, "expected": "no exception", "observed": repr(e)})
                return fails
            a, b = normalised(case, snap), normalised(case, snap3)
            if a != b or rel3 != rel1:
                d = dict(case.describe())
                d["stage"] = "reimport"
                fails.append({"case": d, "expected": {"features": a, "relations": rel1}, "observed": {"features": b, "relations": rel3}})
        return fails
    finally:
        for d in dbs:
            try:
                d.conn.close()
            except Exception:
                pass
        for p in tmp:
            try:
                os.unlink(p)
            except OSError:
                pass
        if case.form == "string":
            scratch.sweep()


def run_all(cases, scratch, want_demanded, reimport_every=1, cap=60):
    """runs the cases whose classification (demanded / not demanded) is the wanted one"""
    fails, n, distinct, skipped, sample = [], 0, set(), 0, None
    by_reason = collections.defaultdict(list)
    for case in cases:
        reasons = classify(case.recs, case.D, case.window)
        if (not reasons) != want_demanded:
            skipped += 1
            continue
        k = case.key()
        if k in distinct:
            continue
        distinct.add(k)
        n += 1
        fs = run_case(case, scratch, reimport=(n % reimport_every == 0))
        if sample is None and not fs:
            sample = {"input": case.describe(), "result": "held"}
        for f in fs:
            f["case"]["reasons"] = reasons
        if want_demanded:
            if len(fails) < cap:
                fails.extend(fs[:3])
        else:
            by_reason[tuple(reasons)].append((case, fs))
    return {"fails": fails, "cases": n, "distinct": len(distinct), "skipped": skipped, "sample": sample, "by_reason": by_reason}


# =============================================================================================
# enumerators
# =============================================================================================
def cols_for(i, fmt, ftype=None):
    """deterministic column variety: '.' coordinates, scores, strands, frames"""
    ft = ftype or (("exon", "CDS", "start_codon")[i % 3] if fmt == "gtf" else ("gene", "mRNA", "exon", "CDS")[i % 4])
    start, end = 10 * i + 1, 10 * i + 7
    if i % 4 == 1:
        start, end = None, None
    elif i % 4 == 3:
        end = None
    return ["chr%d" % (1 + i % 2), "src", ft, start, end, (".", "0.5", "1e-10")[i % 3], ("+", "-", ".")[i % 3], (".", "0", "2")[i % 3]]


def extra_for(i):
    return ([], ["x1"], [""], [], ["", "a b"], [])[i % 6]


def shape_items(shape, u, fmt):
    k1, k2, k3 = ("gene_id", "transcript_id", "note") if fmt == "gtf" else ("ID", "Name", "Note")
    special = "x y" if fmt == "gtf" else "x=1;y,z %41\t&"
    if shape == "A":
        return [(k1, [u]), (k2, ["n" + u, "m"])]
    if shape == "B":
        return [(k1, [u])]
    if shape == "C":
        return [(k1, [u]), (k2, ["n"]), (k3, [special])]
    if shape == "F":
        return [(k1, [u]), ("flag", [])]
    if shape == "M":
        return [(k1, [u]), (k2, ["b", "a", "b c", "b"]), (k3, ["p", special])]
    if shape == "E":
        return []
    raise ValueError(shape)


def dialect_cases(thorough):
    """all 48 dialects x all sequences of line shapes"""
    shapes = "ABCFME"
    L = 3 if thorough else 2
    idx = si = 0
    for n in range(1, L + 1):
        for seq in itertools.product(shapes, repeat=n):
            for cl in range(0, n):
                si += 1
                for di, D in enumerate(ALL_DIALECTS):
                    idx += 1
                    if not thorough and n == 2 and (si + di) % 3:
                        continue
                    fmt = fmt_of(D)
                    recs = [Rec(cols_for(i, fmt), shape_items(s, "f%dx" % i, fmt), extra_for(i + n)) for i, s in enumerate(seq)]
                    yield Case(D, recs, checklines=cl, db=("file" if idx % (4 if thorough else 8) == 0 else "memory"),
                               eol=("\r\n" if idx % 5 == 0 else "\n"), final_eol=(idx % 7 != 0), tag="dialects:%s" % "".join(seq))


def subsets_in_order(keys, nonempty=True):
    out = []
    for r in range(1 if nonempty else 0, len(keys) + 1):
        out.extend(itertools.combinations(keys, r))
    return out


def late_key_cases(thorough):
    """window lines carry ID;Name only; later lines add keys never seen in the window, after the seen
    ones and in one global order (Parent < Note < Alias): every line must still come back unchanged"""
    late = ("Parent", "Note", "Alias") if thorough else ("Parent", "Note")        # deliberately not alphabetical
    subs = subsets_in_order(late)
    idx = 0
    for cl in ((0, 1, 2, 3, 10) if thorough else (0, 1, 10)):
        for n in (1, 2, 3):
            if n == 3 and not thorough and cl == 1:
                continue
            for seq in itertools.product(subs, repeat=n):
                idx += 1
                ds = [PLAIN_GFF3, ALL_DIALECTS[idx % 48]] if (thorough or idx % 3 == 0) else [ALL_DIALECTS[idx % 48]]
                for D in ds:
                    fmt = fmt_of(D)
                    recs = []
                    for i in range(cl + 1):
                        recs.append(Rec(cols_for(i, fmt), [("ID", ["g%dx" % i]), ("Name", ["n%d" % i, "m"][:1 + (i == 0)])]))
                    for j, sub in enumerate(seq):
                        i = cl + 1 + j
                        items = [("ID", ["t%dx" % i])] + ([("Name", ["tn%d" % i])] if (idx + j) % 4 else [])
                        items += [(k, ["g0x"] if k == "Parent" else ["some text", "v%d" % i][:1 + (j % 2)]) for k in sub]
                        recs.append(Rec(cols_for(i, fmt), items, extra_for(i)))
                    yield Case(D, recs, checklines=(None if cl == 10 else cl), db=("file" if idx % 5 == 0 else "memory"), tag="late_keys")


def boundary_cases(thorough):
    """dialect facts (separator, trailing, quoting, repeated keys) carried by exactly one rich line at
    position p around the end of the inspected window; all earlier lines are poor (single attribute,
    or single-valued).  classify() decides on which side of the precondition the file falls."""
    idx = 0
    for cl in ((0, 1, 2, 3, 4, 10) if thorough else (0, 1, 2, 3)):
        for p in sorted(set([max(cl - 1, 0), cl, cl + 1])):
            for poor in ("single", "two") if thorough else ("single",):
                for D in ALL_DIALECTS:
                    idx += 1
                    fmt = fmt_of(D)
                    k1, k2, k3 = ("gene_id", "transcript_id", "note") if fmt == "gtf" else ("ID", "Name", "Note")
                    recs = []
                    for i in range(p + 3):
                        u = "f%dx" % i
                        if i < p:
                            items = [(k1, [u])] if poor == "single" else [(k1, [u]), (k2, ["n"])]
                        else:
                            items = [(k1, [u]), (k2, ["n%d" % i, "m"]), (k3, ["some text"])]
                        recs.append(Rec(cols_for(i, fmt), items, extra_for(i)))
                    yield Case(D, recs, checklines=(None if cl == 10 else cl), db=("file" if idx % 6 == 0 else "memory"), tag="boundary:p=%d,%s" % (p, poor))


def key_order_cases(thorough):
    """every file of <= 3 lines whose lines carry ID plus a subset of (Name, Note, Parent) in that one
    global order, all lines inside the window or not"""
    subs = subsets_in_order(("Name", "Note", "Parent"), nonempty=False)
    idx = 0
    for n in ((1, 2, 3) if thorough else (1, 2)):
        for seq in itertools.product(subs, repeat=n):
            for cl in ((0, 1, 10) if thorough else (0, 10)):
                if cl == 1 and n < 3:
                    continue
                idx += 1
                D = ALL_DIALECTS[idx % 48] if idx % 3 else PLAIN_GFF3
                fmt = fmt_of(D)
                recs = []
                for i, sub in enumerate(seq):
                    items = [("ID", ["f%dx" % i])] + [(k, ["f0x"] if k == "Parent" else ["v%d" % i, "w"]) for k in sub]
                    recs.append(Rec(cols_for(i, fmt), items))
                yield Case(D, recs, checklines=(None if cl == 10 else cl), tag="key_order")


# ---- random files from the grammar
GFF_KEYS = ["ID", "Name", "Parent", "Note", "Alias", "Dbxref", "Ontology_term", "tag", "k_1", "x9", "_u", "Is_circular"]
GTF_KEYS = ["gene_id", "transcript_id", "exon_number", "gene_name", "note", "tag", "k_1", "x9", "_u", "ccds_id"]
PLAIN = "abcdefghijklmnopqrstuvwxyzABCDEFGHIJKLMNOPQRSTUVWXYZ0123456789_.:-|/+()"
INNER_ANY = [" ", "  ", "\"", "\\", "'", "é", "中", "\U0001F600", "{", "[", "#", ">", "@", " ", "\x85", "\xa0"]
INNER_GFF3 = [";", "=", ",", "&", "%", "\t", "\x01", "\x1f", "\x7f", "%3B", "%20", "\n", "\r"]
INNER_GTF = ["%", "&", "%3B"]


def rand_token(rng, lo=1, hi=6):
    return "".join(rng.choice(PLAIN) for _ in range(rng.randint(lo, hi)))


def rand_value(rng, fmt):
    v = rand_token(rng)
    r = rng.random()
    if r < 0.45:
        return v
    pool = INNER_ANY + (INNER_GFF3 if fmt == "gff3" else INNER_GTF)
    for _ in range(rng.randint(1, 2)):
        v = v + rng.choice(pool) + rand_token(rng, 1, 3)
    return v


def rand_cols(rng, fmt, i, allow_dot=True):
    seqid = rng.choice(["chr1", "chr2L", "scaffold_12", "1", "X|y", "chr 1"])
    source = rng.choice(["src", "gffutils test", ".", "FlyBase"])
    if fmt == "gtf":
        ft = rng.choice(["exon", "CDS", "start_codon", "five_prime_utr"])
    else:
        ft = rng.choice(["gene", "mRNA", "exon", "CDS", "five_prime_UTR", "region"])
    big = rng.random() < 0.1
    start = rng.choice([0, 1, 2 ** 29 - 1, 2 ** 29, 2 ** 31, 2 ** 40]) if big else rng.randint(1, 5000)
    end = start + rng.choice([0, 1, 10, 100000]) if rng.random() < 0.9 else max(start - 5, 0)
    if allow_dot:
        r = rng.random()
        if r < 0.08:
            start, end = None, None
        elif r < 0.12:
            start = None
        elif r < 0.16:
            end = None
    return [seqid, source, ft, start, end, rng.choice([".", "0.5", "1e-10", "100", "0"]), rng.choice(["+", "-", ".", "?"]), rng.choice([".", "0", "1", "2"])]


def random_case(rng, thorough):
    D = rng.choice(ALL_DIALECTS)
    fmt = fmt_of(D)
    K = rng.sample(GTF_KEYS if fmt == "gtf" else GFF_KEYS, rng.randint(1, 5))
    checklines = rng.choice([None, None, 0, 1, 2, 3, 5])
    c = 10 if checklines is None else checklines
    n = max(1, rng.choice([1, 2, c, c + 1, c + 2, c + 3, rng.randint(1, c + 6)]))
    strategy = rng.choice(["error", "error", "create_unique", "create_unique", "merge", "warning", "replace"])
    infer = fmt == "gtf" and rng.random() < 0.3
    explicit = fmt == "gtf" and not infer and rng.random() < 0.4
    multi_p = rng.choice([0.0, 0.3, 0.6])
    flag_p = rng.choice([0.0, 0.0, 0.15])
    rich_first = rng.random() < 0.8
    sort_values = rng.random() < 0.25
    recs = []
    ids = []
    for i in range(n):
        full = (rich_first and i == 0)
        keys = [k for k in K if full or rng.random() < 0.7]
        if not keys and rng.random() < 0.8:
            keys = [rng.choice(K)]
        cols = rand_cols(rng, fmt, i, allow_dot=not infer)
        if explicit and rng.random() < 0.4:
            cols[2] = rng.choice(["gene", "transcript"])
        items = []
        for j, k in enumerate(keys):
            if k == "ID" or (cols[2] == "gene" and k == "gene_id") or (cols[2] == "transcript" and k == "transcript_id"):
                if strategy == "create_unique" and ids and rng.random() < 0.3:
                    v = rng.choice(ids)
                else:
                    v = "f%dx%s" % (i, rand_token(rng, 0, 2))
                    ids.append(v)
                items.append((k, [v]))
                continue
            if k == "Parent":
                items.append((k, ["p%d" % rng.randint(0, 2) for _ in range(1 + (rng.random() < multi_p))]))
                continue
            r = rng.random()
            if r < flag_p and not (j == 0 and D.kv == "="):
                items.append((k, []))
                continue
            nv = 1
            if rng.random() < multi_p or (full and j == len(keys) - 1 and multi_p > 0):
                nv = rng.randint(2, 3)
            vs = []
            while len(vs) < nv:
                v = rand_value(rng, fmt)
                if v not in vs:
                    vs.append(v)
            if sort_values and rng.random() < 0.5:
                vs.sort()
            items.append((k, vs))
        extra = []
        if rng.random() < 0.25:
            extra = [rng.choice(["x", "", "a b", "[1]", "0", "{\"a\":1}", "é"]) for _ in range(rng.randint(1, 2))]
        recs.append(Rec(cols, items, extra))
    deco = []
    if rng.random() < 0.4:
        for _ in range(rng.randint(1, 3)):
            deco.append((rng.randint(0, n), rng.choice(["# comment", "", "##gff-version 3", "#!x", "##sequence-region chr1 1 100", "#chr1\tsrc\tgene\t1\t2\t.\t+\t.\tID=no"])))
    form = rng.choice(["file"] * 6 + ["string"] * 2 + ["features", "featgen"])
    return Case(D, recs, checklines=checklines, db=rng.choice(["memory", "file"]), strategy=strategy,
                keep_order=rng.random() < 0.75, sort_values=sort_values,
                id_spec=(rng.choice([None, None, "ID", "auto"]) if fmt == "gff3" else rng.choice([None, None, "auto"])),
                form=form, eol=rng.choice(["\n", "\n", "\r\n"]), final_eol=rng.random() < 0.8, deco=deco,
                fasta=rng.random() < 0.1, infer=infer, tag="random")


def random_cases(rng, count, thorough):
    for _ in range(count):
        yield random_case(rng, thorough)


# =============================================================================================
# units
# =============================================================================================
def unit_dialects(U):
    scratch = Scratch()
    try:
        r = run_all(dialect_cases(U.thorough), scratch, True, reimport_every=(1 if U.thorough else 2))
    finally:
        scratch.close()
    U.bounded_result(
        "C01.bounded.dialects",
        "create_db(file) then all_features(): one feature per line in input order, columns / extra / attributes equal the generator's record, "
        "str(feature) == input line (keep_order=True), same after reopen, re-import of the printed lines gives an equal database",
        "exhaustive: all 48 dialects (3 separators x trailing x 4 key/value styles x repeated keys) x every sequence of <= %d lines over 6 line shapes "
        "(multi-valued, single attribute, reserved characters, valueless flag, three keys with unsorted values, empty column 9), '.' coordinates and extra columns (also empty ones) by position, LF and CRLF, with and without final newline, "
        "checklines 0..n-1, :memory: and every %s case on a file database with reopen%s; %d files outside the observability precondition left to C01.bounded.late_dialect_facts"
        % (3 if U.thorough else 2, "4th" if U.thorough else "8th", "" if U.thorough else " (2-line files: every third dialect, rotating)", r["skipped"]),
        r["cases"], r["fails"], exhaustive=True, distinct=r["distinct"], sample=r["sample"])


def unit_window(U):
    scratch = Scratch()
    try:
        a = run_all(late_key_cases(U.thorough), scratch, True, reimport_every=(1 if U.thorough else 3))
        b = run_all(boundary_cases(U.thorough), scratch, True, reimport_every=(1 if U.thorough else 3))
        c = run_all(key_order_cases(U.thorough), scratch, True, reimport_every=(1 if U.thorough else 3))
    finally:
        scratch.close()
    U.bounded_result(
        "C01.bounded.late_keys",
        "lines after the inspected window that add keys never seen inside it (after the seen keys, in one global order) are printed byte-identically, whatever was printed before; content, reopen and re-import as in C01.bounded.dialects",
        "exhaustive: window of checklines+1 lines 'ID;Name', checklines in %s, then every sequence of <= 3 lines over the non-empty subsets of %d late keys (with and without Name), "
        "plain GFF3 and a dialect rotating over all 48" % ("{0,1,2,3,10}" if U.thorough else "{0,1,10}", 3 if U.thorough else 2),
        a["cases"], a["fails"], exhaustive=True, distinct=a["distinct"], sample=a["sample"])
    U.bounded_result(
        "C01.bounded.window_boundary",
        "a file whose dialect facts are carried by one rich line at the edge of the inspected window round-trips (content and bytes) whenever the weighted vote over the first checklines+1 lines recovers the file's dialect",
        "exhaustive: all 48 dialects x checklines in %s x carrier position in {checklines-1, checklines, checklines+1} x earlier lines %s; "
        "%d files on the other side of the precondition left to C01.bounded.late_dialect_facts"
        % ("{0,1,2,3,4,10}" if U.thorough else "{0,1,2,3}", "single-attribute or two single-valued keys" if U.thorough else "single-attribute", b["skipped"]),
        b["cases"], b["fails"], exhaustive=True, distinct=b["distinct"], sample=b["sample"])
    U.bounded_result(
        "C01.bounded.key_subsets",
        "files whose lines carry subsets of one globally ordered key list round-trip whenever every line agrees with the first-seen key order of the window",
        "exhaustive: every file of <= %d lines, each line ID plus a subset of (Name, Note, Parent) in that order, checklines in %s, dialect rotating over all 48; "
        "%d files that contradict the first-seen order left to C01.bounded.key_order_first_seen / late_dialect_facts"
        % (3 if U.thorough else 2, "{0,1,10}" if U.thorough else "{0,10}", c["skipped"]),
        c["cases"], c["fails"], exhaustive=True, distinct=c["distinct"], sample=c["sample"])


def unit_random(U):
    scratch = Scratch()
    count = 12000 if U.thorough else 650
    try:
        r = run_all(random_cases(U.rng, count, U.thorough), scratch, True, reimport_every=1)
    finally:
        scratch.close()
    U.bounded_result(
        "C01.bounded.random",
        "whole pipeline on random files of the grammar: count, order, columns, extra, attributes, printed form (exact for keep_order=True, same parts for keep_order=False, sorted values for sort_attribute_values=True), "
        "print-order independence, reopen, re-import",
        "seeded random, %d files drawn (%d inside the observability precondition and run): random dialect of the 48, 1-5 keys in one global order, subsets per line, flags, 1-3 values with reserved characters / escapes / Unicode / quotes / inner blanks, "
        "'.' and large coordinates, 0-2 extra columns (also empty), 1..checklines+6 lines with checklines in {default,0,1,2,3,5}, comments / blank lines / directives / FASTA tail, LF or CRLF, with or without final newline, "
        "input as file / from_string / list / generator of Features, :memory: and file databases, merge_strategy in {error, create_unique (with duplicate ids), merge, warning, replace}, "
        "id_spec in {default, 'ID', callable}, keep_order and sort_attribute_values on and off, GTF with inference disabled or enabled (derived features must follow the input)" % (count, r["cases"]),
        r["cases"], r["fails"], exhaustive=False, distinct=r["distinct"], sample=r["sample"])


def unit_known(U):
    """files OUTSIDE the precondition: the statement still demands byte identity of them; the current tree
    does not deliver it (F16 and the first-seen key order rule).  Reported separately, expected to fail."""
    scratch = Scratch()
    try:
        gens = itertools.chain(boundary_cases(U.thorough), key_order_cases(U.thorough), dialect_cases(False), random_cases(U.rng, 1500 if U.thorough else 300, U.thorough))
        r = run_all(gens, scratch, False, reimport_every=10 ** 9)
    finally:
        scratch.close()
    late = {"cases": 0, "fails": [], "kinds": collections.Counter()}
    order = {"cases": 0, "fails": [], "kinds": collections.Counter()}
    for reasons, lst in r["by_reason"].items():
        tgt = order if set(reasons) == {"first_seen_order"} else late
        for case, fs in lst:
            tgt["cases"] += 1
            if fs:
                tgt["kinds"][",".join(reasons)] += 1
                if len(tgt["fails"]) < 40:
                    tgt["fails"].append(fs[0])
    U.bounded_result(
        "C01.bounded.late_dialect_facts",
        "KNOWN DEFECT F16 (expected to fail): files in one consistent dialect whose separator / trailing semicolon / quoting / repeated keys are not what the weighted vote over the first checklines+1 lines yields, "
        "or whose later lines put a key never seen in the window before a seen one, must also come back unchanged",
        "the files of the boundary, key-subset, dialect and random enumerators that classify() puts outside the precondition for a reason other than the first-seen order alone; failing files by reason: %s" % dict(late["kinds"]),
        late["cases"], late["fails"], exhaustive=False, distinct=late["cases"])
    U.bounded_result(
        "C01.bounded.key_order_first_seen",
        "DEVIATION, same family as F16 (expected to fail): a file whose lines all follow one global key order (ID < Name < Note < Parent) must come back unchanged even when the concatenation of first-seen keys over the window is a different order "
        "(lines 'ID;Parent' then 'ID;Note;Parent' inside the window: the second is printed 'ID;Parent;Note')",
        "the files of the key-subset and random enumerators whose only reason outside the precondition is that a line contradicts the first-seen order of the window; failing files: %s" % dict(order["kinds"]),
        order["cases"], order["fails"], exhaustive=False, distinct=order["cases"])


UNITS = [
    ("bounded.dialects", unit_dialects),
    ("bounded.window", unit_window),
    ("bounded.random", unit_random),
    ("bounded.known_dialect_loss", unit_known),
]
