"""Bounded run-time stand-ins for C15 (interfeatures / create_introns / create_splice_sites have
exact gap geometry).  The oracle below is written from the statement and DESIGN.md A.7; it never
calls helpers.merge_attributes or any other piece of the code under test.

Units
  bounded.inter      C15.bounded.inter_geometry   exhaustive interval sequences (boundary geometry, bins)
                     C15.bounded.inter_state      relation x strand x seqid-change x type sequences
                                                  (running state of the loop), argument shapes
  bounded.attrs      C15.bounded.inter_attributes per-key sorted union, ID join, numeric_sort,
                                                  merge_attributes on/off, update_attributes
  bounded.introns    C15.bounded.introns          create_introns on gene/transcript/exon databases
  bounded.splice     C15.bounded.splice           create_splice_sites on the same databases
                     C15.bounded.splice_no_merge  create_splice_sites(merge_attributes=False)
                                                  (separate: genuine deviation of the current tree)
"""
import copy
import itertools
import os
import tempfile

import gffutils
from gffutils.feature import Feature

from contracts.qharness import native_db
from contracts import spec_bins


# ------------------------------------------------------------------------------ oracle
def mk(seqid, start, end, strand="+", ft="a", attrs=None, fid=None, source="src"):
    f = Feature(seqid=seqid, source=source, featuretype=ft, start=start, end=end, score=".", strand=strand,
                frame=".", attributes=copy.deepcopy(attrs) if attrs else {})
    f.id = fid
    return f


def sort_ns(values, numeric):
    """sorted set of the values; numeric order when asked for and every value is a number"""
    vals = set(values)
    if numeric:
        try:
            keyed = [(float(v), v) for v in vals]
        except ValueError:
            keyed = None
        if keyed is not None:
            return [v for _, v in sorted(keyed)]
    return sorted(vals)


def union_attrs(x, y, numeric):
    out = {}
    for k in set(x) | set(y):
        out[k] = sort_ns(list(x.get(k, [])) + list(y.get(k, [])), numeric)
    return out


def gap(a, b, new_featuretype=None, merge=True, numeric=False, update=None):
    """A.7 gap(): None or the canonical tuple of the interfeature between a and b.
    a, b are plain tuples (seqid, start, end, strand, featuretype, attrs)."""
    if a[0] != b[0]:
        return None
    s, e = a[2] + 1, b[1] - 1
    if s > e:
        return None
    ft = new_featuretype if new_featuretype is not None else "inter_%s_%s" % (a[4], b[4])
    strand = a[3] if a[3] == b[3] else "."
    attrs = union_attrs(a[5], b[5], numeric) if merge else {}
    if update:
        for k, v in update.items():
            attrs[k] = list(v)
    if len(attrs.get("ID", ())) > 1:
        attrs["ID"] = ["-".join(attrs["ID"])]
    return (a[0], s, e, ft, strand, attrs, spec_bins.bin1(s, e, "gff"))


def expected_inter(plain, **opts):
    out = []
    for a, b in zip(plain[:-1], plain[1:]):
        g = gap(a, b, **opts)
        if g is not None:
            out.append(g)
    return out


def plain_of(f):
    return (f.seqid, f.start, f.end, f.strand, f.featuretype, {k: list(v) for k, v in f.attributes.items()})


def canon(f, with_bin=True):
    t = (f.seqid, f.start, f.end, f.featuretype, f.strand, {k: list(v) for k, v in f.attributes.items()})
    return t + (f.bin,) if with_bin else t


def full_state(f):
    """every field of an input Feature (frame condition)"""
    return (f.id, f.seqid, f.source, f.featuretype, f.start, f.end, f.score, f.strand, f.frame,
            tuple((k, tuple(v)) for k, v in f.attributes.items()), repr(f.extra), f.bin)


def db_state(db):
    c = db.conn.cursor()
    out = []
    for t in ("features", "relations", "meta", "directives", "autoincrements", "duplicates"):
        out.append(tuple(tuple(r) for r in c.execute("SELECT * FROM %s ORDER BY rowid" % t)))
    return tuple(out)


def jf(t):
    """json-able rendering of a plain feature tuple / canonical tuple"""
    return [list(x) if isinstance(x, tuple) else x for x in t]


class Checker(object):
    """runs one interfeatures case against the oracle and the frame conditions"""

    def __init__(self, db):
        self.db = db
        self.base = db_state(db)
        self.changes = db.conn.total_changes
        self.fails = []
        self.cases = 0
        self.distinct = set()

    def run(self, plain, shape="list", new_featuretype=None, merge=True, numeric=False, update=None, tag=None):
        """plain: list of (seqid, start, end, strand, featuretype, attrs)"""
        self.cases += 1
        feats = [mk(p[0], p[1], p[2], p[3], p[4], p[5], fid="f%d" % i) for i, p in enumerate(plain)]
        before = [full_state(f) for f in feats]
        upd = copy.deepcopy(update)
        kw = {}
        if new_featuretype is not None:
            kw["new_featuretype"] = new_featuretype
        if not merge:
            kw["merge_attributes"] = False
        if numeric:
            kw["numeric_sort"] = True
        if update is not None:
            kw["update_attributes"] = upd
        exp = expected_inter(plain, new_featuretype=new_featuretype, merge=merge, numeric=numeric, update=update)
        case = {"features": [jf(p) for p in plain], "shape": shape, "kwargs": {k: v for k, v in kw.items()}}
        if tag:
            case["tag"] = tag
        if shape == "list":
            arg = feats
        elif shape == "tuple":
            arg = tuple(feats)
        elif shape == "generator":
            arg = (f for f in feats)
        else:
            arg = iter(feats)
        try:
            got = [canon(g) for g in self.db.interfeatures(arg, **kw)]
        except Exception as e:
            self.fails.append({"case": case, "expected": [jf(x) for x in exp], "observed": "exception " + repr(e)})
            return
        if got != exp:
            self.fails.append({"case": case, "expected": [jf(x) for x in exp], "observed": [jf(x) for x in got]})
            return
        after = [full_state(f) for f in feats]
        if after != before:
            self.fails.append({"case": case, "expected": "input features unchanged: %r" % (before,), "observed": repr(after)})
            return
        if upd != update:
            self.fails.append({"case": case, "expected": "update_attributes unchanged: %r" % (update,), "observed": repr(upd)})
            return
        if self.db.conn.total_changes != self.changes or db_state(self.db) != self.base:
            self.fails.append({"case": case, "expected": "database unchanged", "observed": "database rows differ / DML executed"})
            self.base = db_state(self.db)
            self.changes = self.db.conn.total_changes


def small_db():
    """a database with a few resident features so that 'database unchanged' is not vacuous"""
    fs = [mk("c1", 1, 50, "+", "gene", {"ID": ["g"]}, fid="g"),
          mk("c1", 1, 50, "+", "mRNA", {"ID": ["t"], "Parent": ["g"]}, fid="t"),
          mk("c1", 1, 10, "+", "exon", {"ID": ["e1"], "Parent": ["t"]}, fid="e1"),
          mk("c1", 21, 50, "+", "exon", {"ID": ["e2"], "Parent": ["t"]}, fid="e2")]
    return native_db(fs, [("g", "t", 1), ("t", "e1", 1), ("t", "e2", 1), ("g", "e1", 2), ("g", "e2", 2)])


# ------------------------------------------------------------------------------ unit 1: geometry and running state
STRANDS = ("+", "-", ".")


def intervals(lo, hi):
    return [(s, e) for s in range(lo, hi + 1) for e in range(s, hi + 1)]


def unit_inter(U):
    db = small_db()
    rng = U.rng

    # ---- (a) exhaustive interval sequences
    ck = Checker(db)
    top = 5
    L = 4 if U.thorough else 3
    ivs = intervals(1, top)
    bases = (0, 131069, 2 ** 29 - 4)      # second and third straddle a bin boundary / the end of the binned range
    nseq = 0
    for n in range(0, L + 1):
        for seq in itertools.product(ivs, repeat=n):
            nseq += 1
            # uniform pass: one seqid, one strand, one type, default arguments
            ck.run([("c1", s, e, "+", "a", {"ID": ["i%d" % i]}) for i, (s, e) in enumerate(seq)])
            if n == 0:
                continue
            # mixed pass: strands / types / base offset / new_featuretype drawn from the seeded rng
            base = bases[rng.randrange(3)] if rng.random() < 0.3 else 0
            nft = rng.choice((None, "gap"))
            ck.run([("c1", base + s, base + e, rng.choice(STRANDS), rng.choice("ab"), {"ID": ["i%d" % i]}) for i, (s, e) in enumerate(seq)],
                   new_featuretype=nft, shape=rng.choice(("list", "tuple", "generator", "iterator")))
    # bin boundaries exhaustively for pairs: every gap whose ends lie within 3 bases of a boundary
    for B in (131072, 2 * 131072, 1048576, 8388608, 67108864, 2 ** 29):
        for ae in range(B - 4, B + 2):
            for bs in range(ae, B + 5):
                ck.run([("c1", ae - 2, ae, "+", "a", {}), ("c1", bs, bs + 2, "+", "a", {})], tag="bin-boundary")
    U.bounded_result("C15.bounded.inter_geometry",
                     "list(interfeatures(fs)) == [gap(fs[i], fs[i+1]) for consecutive pairs, None dropped] (seqid, start, end, type, strand, attributes, bin), inputs and database unchanged",
                     "all %d sequences of 0..%d intervals [s,e] with 1 <= s <= e <= %d on one seqid, each once uniform (+, one type) and once with rng strands/types/"
                     "new_featuretype/argument shape/coordinate base in {0, 2^17-3, 2^29-4}; all feature pairs whose gap ends lie within 4 bases of 6 bin boundaries" % (nseq, L, top),
                     ck.cases, ck.fails, exhaustive=True, distinct=ck.cases)

    # ---- (b) running state: relation x strand x seqid change x featuretype
    ck = Checker(db)
    rels = ("gap1", "gap2", "gap6", "touch", "overlap", "nested", "contain", "back")

    def place(prev, rel):
        ps, pe = prev
        if rel == "gap1":
            return (pe + 2, pe + 4)
        if rel == "gap2":
            return (pe + 3, pe + 5)
        if rel == "gap6":
            return (pe + 7, pe + 9)
        if rel == "touch":
            return (pe + 1, pe + 3)
        if rel == "overlap":
            return (pe, pe + 2)
        if rel == "nested":
            return (ps + 1, pe - 1) if ps + 1 <= pe - 1 else (ps, pe)
        if rel == "contain":
            return (ps - 1, pe + 1)
        return (ps - 10, ps - 8)      # back: entirely upstream of the previous feature

    def build(relseq, strands, changes, types):
        out, cur, sid = [], (100, 102), 1
        for i in range(len(strands)):
            if i:
                if changes[i - 1]:
                    sid += 1
                cur = place(cur, relseq[i - 1])
            out.append(("c%d" % sid, cur[0], cur[1], strands[i], types[i], {"ID": ["i%d" % i]}))
        return out

    N = 4 if U.thorough else 3
    typepats = {1: ("a",), 2: ("aa", "ab"), 3: ("aaa", "aba", "abc"), 4: ("aaaa", "abab", "abca")}
    k = 0
    for n in range(1, N + 1):
        for relseq in itertools.product(rels, repeat=n - 1):
            for strands in itertools.product(STRANDS, repeat=n):
                for changes in itertools.product((0, 1), repeat=n - 1):
                    for types in typepats[n]:
                        k += 1
                        ck.run(build(relseq, strands, changes, types), new_featuretype=(None, "gap")[k % 2],
                               shape=("list", "generator", "tuple", "iterator")[(k // 2) % 4])
    # seqid changes back and forth (c1, c2, c1) and longer random sequences
    R = 30000 if U.thorough else 3000
    for _ in range(R):
        n = rng.randint(4, 8)
        plain, cur = [], (100, 102)
        for i in range(n):
            if i:
                cur = place(cur, rng.choice(rels))
                if cur[0] < 1:
                    cur = (1, 3)
            plain.append((rng.choice(("c1", "c1", "c1", "c2")) if rng.random() < 0.5 else "c1", cur[0], cur[1],
                          rng.choice(STRANDS), rng.choice("ab"), {"ID": ["i%d" % i], "n": [str(rng.randint(1, 12))]}))
        ck.run(plain, new_featuretype=rng.choice((None, "gap")), numeric=rng.random() < 0.5,
               shape=rng.choice(("list", "tuple", "generator", "iterator")))
    # features that come out of a database query, in query order
    feats = list(db.all_features(order_by=("seqid", "start")))
    exons = list(db.children("t", featuretype="exon", order_by="start"))
    for src, name in ((feats, "all_features"), (exons, "children")):
        ck.cases += 1
        exp = expected_inter([plain_of(f) for f in src])
        before = [full_state(f) for f in src]
        got = [canon(g) for g in db.interfeatures(iter(src))]
        if got != exp or before != [full_state(f) for f in src] or db_state(db) != ck.base:
            ck.fails.append({"case": {"query": name}, "expected": [jf(x) for x in exp], "observed": [jf(x) for x in got]})
    U.bounded_result("C15.bounded.inter_state",
                     "list(interfeatures(fs)) == [gap(fs[i], fs[i+1])] when strand, seqid, featuretype and geometry relation vary independently along the list (no state leaks from an earlier pair)",
                     "all sequences of 1..%d features: 8 geometric relations per step (gap 1/2/6, touching, overlap, nested, containing, upstream) x strands {+,-,.}^n x seqid change per step x "
                     "2-3 featuretype patterns, new_featuretype None/'gap' and list/tuple/generator/iterator alternating; %d rng sequences of 4..8 features over 2 recurring seqids; 2 database query results" % (N, R),
                     ck.cases, ck.fails, distinct=ck.cases)


# ------------------------------------------------------------------------------ unit 2: attributes
UPDATES = (None, {}, {"ID": ["u"]}, {"ID": ["u", "v"]}, {"ID": ["v", "u"]}, {"P": ["z"]}, {"new": ["1", "0"]},
           {"P": [], "n": ["5"]}, {"ID": []}, {"ID": ["9", "10", "8"], "P": ["b", "a"]})


def value_options(thorough):
    alpha = ("1", "10", "9", "a", "2.5", "-3") if thorough else ("1", "10", "9", "a", "2.5")
    opts = [None, []]
    for n in (1, 2, 3) if thorough else (1, 2):
        if n == 3:
            alpha = alpha[:5]
        for t in itertools.product(alpha, repeat=n):
            opts.append(list(t))
    return opts


def unit_attrs(U):
    db = small_db()
    rng = U.rng
    ck = Checker(db)
    opts = value_options(U.thorough)
    fill = [None, ["1"], ["x", "w"], ["10", "9"], ["b"], ["2", "b"]]
    keys = ("ID", "P", "n")
    k = 0

    def attrs_of(key, v, others):
        d = {}
        for kk in keys:
            val = v if kk == key else others[kk]
            if val is not None:
                d[kk] = list(val)
        return d

    # per key: all pairs of value options on that key (the other keys drawn), third feature checks non-accumulation
    for key in keys:
        for va in opts:
            for vb in opts:
                for numeric in (False, True):
                    k += 1
                    oa = {kk: rng.choice(fill) for kk in keys}
                    ob = {kk: rng.choice(fill) for kk in keys}
                    oc = {kk: rng.choice(fill) for kk in keys}
                    plain = [("c1", 10, 12, "+", "a", attrs_of(key, va, oa)),
                             ("c1", 20, 22, "+", "a", attrs_of(key, vb, ob)),
                             ("c1", 30, 32, "+", "a", attrs_of(key, rng.choice(opts), oc))]
                    merge = (k % 7) != 0
                    ck.run(plain, merge=merge, numeric=numeric, update=UPDATES[k % len(UPDATES)] if k % 3 == 0 else None,
                           new_featuretype=(None, "gap")[k % 2])
    # update_attributes crossed with merge on/off, numeric on/off
    samples = [opts[i] for i in range(0, len(opts), max(1, len(opts) // 12))]
    for upd in UPDATES:
        for merge in (True, False):
            for numeric in (False, True):
                for va in samples:
                    for vb in samples:
                        key = rng.choice(keys)
                        oa = {kk: rng.choice(fill) for kk in keys}
                        ob = {kk: rng.choice(fill) for kk in keys}
                        geo = rng.choice(((10, 12, 20, 22), (10, 12, 13, 15), (10, 12, 14, 15), (10, 20, 12, 30)))
                        plain = [("c1", geo[0], geo[1], "+", "a", attrs_of(key, va, oa)),
                                 ("c1", geo[2], geo[3], "-", "b", attrs_of(key, vb, ob)),
                                 ("c1", 40, 42, "-", "b", attrs_of(key, va, ob))]
                        ck.run(plain, merge=merge, numeric=numeric, update=upd)
    # features without any attribute, and keys present on one side only
    for a, b in itertools.product(({}, {"ID": ["x"]}, {"P": ["p", "q"]}, {"ID": ["x"], "P": ["q"]}, {"ID": ["x", "y"]}), repeat=2):
        for merge in (True, False):
            ck.run([("c1", 1, 2, "+", "a", a), ("c1", 9, 9, "+", "a", b)], merge=merge)
    # random longer lists with random geometry (gaps and non-gaps interleaved)
    R = 20000 if U.thorough else 2500
    for _ in range(R):
        n = rng.randint(2, 6)
        plain, pos = [], 5
        for i in range(n):
            step = rng.choice((-3, 0, 1, 2, 3, 8))
            s = max(1, pos + step)
            e = s + rng.randint(0, 4)
            pos = e
            d = {}
            for kk in keys:
                v = rng.choice(opts) if rng.random() < 0.5 else rng.choice(fill)
                if v is not None:
                    d[kk] = list(v)
            plain.append((rng.choice(("c1", "c1", "c1", "c2")), s, e, rng.choice(STRANDS), rng.choice("ab"), d))
        ck.run(plain, merge=rng.random() < 0.85, numeric=rng.random() < 0.5, update=rng.choice(UPDATES) if rng.random() < 0.4 else None,
               new_featuretype=rng.choice((None, "gap")), shape=rng.choice(("list", "generator")))
    U.bounded_result("C15.bounded.inter_attributes",
                     "attributes of every interfeature == per-key sorted (numeric when numeric_sort and all values are numbers) union of the two neighbours' values, then update_attributes, then "
                     "several ID values joined by '-'; {} plus update_attributes when merge_attributes=False; nothing carried over from earlier pairs; inputs, update_attributes and database unchanged",
                     "per key in {ID, P, n}: all pairs of %d value options (absent, [], every ordered list of length <= %d over %d values incl. duplicates) x numeric_sort on/off, other keys drawn, "
                     "third feature appended; %d update_attributes dicts x merge on/off x numeric on/off x %d option pairs x 4 drawn geometries; %d rng lists of 2..6 features"
                     % (len(opts), 3 if U.thorough else 2, 6 if U.thorough else 5, len(UPDATES), len(samples) ** 2, R),
                     ck.cases, ck.fails, distinct=ck.cases)


# ------------------------------------------------------------------------------ units 3/4: databases of transcripts
class Model(object):
    """an explicit gene / transcript / exon structure: features (plain dicts) and relation triples"""

    def __init__(self):
        self.feats = []          # dicts id, seqid, start, end, strand, ft, attrs  (insertion order = rowid order)
        self.rel = []

    def add(self, fid, seqid, start, end, strand, ft, attrs):
        self.feats.append({"id": fid, "seqid": seqid, "start": start, "end": end, "strand": strand, "ft": ft, "attrs": attrs})

    def link(self, parent, child, level):
        if (parent, child, level) not in self.rel:
            self.rel.append((parent, child, level))

    def by_id(self, fid):
        for f in self.feats:
            if f["id"] == fid:
                return f

    def children1(self, fid):
        return [self.by_id(c) for (p, c, l) in self.rel if p == fid and l == 1]

    def transcripts(self, grandparent, parent):
        """the transcripts selected by the two arguments, as a list (multiset) of ids"""
        out = []
        if grandparent:
            for g in self.feats:
                if g["ft"] == grandparent:
                    out.extend(c["id"] for c in self.children1(g["id"]))
        else:
            out.extend(t["id"] for t in self.feats if t["ft"] == parent)
        return out

    def exon_orders(self, tid, exon_ft):
        """all start-ordered arrangements of the level-1 exon children (ties in any order)"""
        ex = [e for e in self.children1(tid) if e["ft"] == exon_ft]
        groups = {}
        for e in ex:
            groups.setdefault(e["start"], []).append(e)
        arrangements = [[]]
        for s in sorted(groups):
            arrangements = [a + list(p) for a in arrangements for p in itertools.permutations(groups[s])]
        return arrangements

    def build(self, rng=None):
        order = list(self.feats)
        if rng is not None:
            rng.shuffle(order)
        fs = [mk(f["seqid"], f["start"], f["end"], f["strand"], f["ft"], f["attrs"], fid=f["id"]) for f in order]
        return native_db(fs, self.rel)

    def describe(self):
        return {"features": [[f["id"], f["seqid"], f["start"], f["end"], f["strand"], f["ft"], f["attrs"]] for f in self.feats],
                "relations": [list(r) for r in self.rel]}


def pl(e):
    return (e["seqid"], e["start"], e["end"], e["strand"], e["ft"], e["attrs"])


def expected_introns(m, tid, exon_ft, **opts):
    """list of acceptable intron lists for one transcript"""
    return [expected_inter([pl(e) for e in arr], **opts) for arr in m.exon_orders(tid, exon_ft)]


LABEL = {("left", "+"): "five_prime_cis_splice_site", ("left", "-"): "three_prime_cis_splice_site",
         ("right", "+"): "three_prime_cis_splice_site", ("right", "-"): "five_prime_cis_splice_site"}


def expected_sites(m, tid, exon_ft, numeric, merge=True):
    """list of acceptable site lists (as sorted multisets) for one transcript"""
    t = m.by_id(tid)
    outs = []
    for arr in m.exon_orders(tid, exon_ft):
        sites = []
        for side in ("left", "right"):
            label = LABEL.get((side, t["strand"]), "splice_site")
            for g in expected_inter([pl(e) for e in arr], new_featuretype=label, merge=merge, numeric=numeric):
                seqid, s, e, ft, strand, attrs, _bin = g
                attrs = dict(attrs)
                if merge:
                    attrs["ID"] = [label + "_" + attrs["ID"][0]]
                if side == "left":
                    sites.append((seqid, s, s + 1, label, strand, attrs))
                else:
                    sites.append((seqid, e - 1, e, label, strand, attrs))
        outs.append(sites)
    return outs


def single_transcript_models(thorough, rng):
    """every set of 1..k distinct exons over the intervals in 1..top, one transcript, both strands"""
    top, kmax = (6, 4) if thorough else (5, 3)
    ivs = intervals(1, top)
    for k in range(1, kmax + 1):
        for sub in itertools.combinations(ivs, k):
            if thorough and k == 4 and rng.random() < 0.8:
                continue
            for strand in "+-":
                m = Model()
                m.add("g", "c1", 1, top, strand, "gene", {"ID": ["g"]})
                m.add("t", "c1", 1, top, strand, "mRNA", {"ID": ["t"], "Parent": ["g"]})
                m.link("g", "t", 1)
                order = list(sub)
                rng.shuffle(order)
                for i, (s, e) in enumerate(order):
                    eid = "e%d" % (i + 1)
                    m.add(eid, "c1", s, e, strand, "exon", {"ID": [eid], "Parent": ["t"], "exon_number": [str(9 + i)]})
                    m.link("t", eid, 1)
                    m.link("g", eid, 2)
                yield m


def random_model(rng):
    """several genes (gene / locus), transcripts (mRNA / ncRNA, one orphan mRNA), exons and CDS, shared exons,
    distinct exon starts within a transcript"""
    m = Model()
    ngenes = rng.randint(1, 3)
    eid = 0
    for gi in range(ngenes):
        gid = "g%d" % gi
        seqid = rng.choice(("c1", "c2"))
        gstrand = rng.choice("+-")
        gft = "gene" if rng.random() < 0.8 else "locus"
        m.add(gid, seqid, 1, 400, gstrand, gft, {"ID": [gid]})
        prev_exons = []
        for ti in range(rng.randint(1, 3)):
            tid = "t%d_%d" % (gi, ti)
            r = rng.random()
            tstrand = gstrand if r < 0.8 else (rng.choice("+-") if r < 0.95 else ".")
            tft = rng.choice(("mRNA", "mRNA", "ncRNA"))
            m.add(tid, seqid, 1, 400, tstrand, tft, {"ID": [tid], "Parent": [gid]})
            m.link(gid, tid, 1)
            n = rng.randint(0, 5)
            starts = set()
            pos = rng.randint(1, 20)
            for j in range(n):
                length = rng.choice((1, 1, 2, 3, 10))
                s, e = pos, pos + length - 1
                pos = max(1, e + 1 + rng.choice((-2, 0, 0, 1, 1, 2, 3, 7, 30)))
                if s in starts:
                    continue
                starts.add(s)
                eid += 1
                x = "x%d" % eid
                estrand = tstrand if rng.random() < 0.85 else rng.choice(STRANDS)
                ft = "exon" if rng.random() < 0.8 else "CDS"
                eseq = seqid if rng.random() < 0.95 else "c3"
                attrs = {"ID": [x], "Parent": [tid], "exon_number": [str(rng.randint(1, 12))]}
                if rng.random() < 0.2:
                    attrs["note"] = [rng.choice(("a", "b")), rng.choice(("a", "c"))]
                m.add(x, eseq, s, e, estrand, ft, attrs)
                m.link(tid, x, 1)
                m.link(gid, x, 2)
                prev_exons.append((x, s))
            # share an exon of an earlier transcript of this gene (if its start is free)
            if ti and prev_exons and rng.random() < 0.3:
                x, s = rng.choice(prev_exons)
                if s not in starts and (tid, x, 1) not in m.rel:
                    m.by_id(x)["attrs"]["Parent"].append(tid)
                    m.link(tid, x, 1)
        if rng.random() < 0.25:      # exons hanging directly on the gene (level-1 children without exons of their own)
            for s in (300, 320)[:rng.randint(1, 2)]:
                eid += 1
                x = "x%d" % eid
                m.add(x, seqid, s, s + 10, gstrand, "exon", {"ID": [x], "Parent": [gid]})
                m.link(gid, x, 1)
    if rng.random() < 0.3:           # a cluster above the genes: transcripts and exons are its level-2/3 descendants
        m.add("cl", "c1", 1, 400, "+", "cluster", {"ID": ["cl"]})
        for (p, c, l) in list(m.rel):
            if p.startswith("g"):
                m.link("cl", c, l + 1)
        for f in m.feats:
            if f["id"].startswith("g"):
                m.link("cl", f["id"], 1)
    if rng.random() < 0.4:           # an mRNA without a gene: selected by parent_featuretype only
        m.add("orph", "c1", 1, 400, "+", "mRNA", {"ID": ["orph"]})
        pos = 5
        for j in range(rng.randint(1, 3)):
            eid += 1
            x = "x%d" % eid
            m.add(x, "c1", pos, pos + 2, "+", "exon", {"ID": [x], "Parent": ["orph"]})
            m.link("orph", x, 1)
            pos += rng.choice((3, 4, 9))
    return m


SELECTIONS = (({}, "gene", None),
              ({"grandparent_featuretype": "gene"}, "gene", None),
              ({"grandparent_featuretype": None, "parent_featuretype": "mRNA"}, None, "mRNA"),
              ({"grandparent_featuretype": None, "parent_featuretype": "ncRNA"}, None, "ncRNA"),
              ({"grandparent_featuretype": "locus"}, "locus", None),
              ({"grandparent_featuretype": "cluster"}, "cluster", None),
              ({"grandparent_featuretype": None, "parent_featuretype": "gene"}, None, "gene"))
BAD_SELECTIONS = ({"grandparent_featuretype": "gene", "parent_featuretype": "mRNA"},
                  {"parent_featuretype": "mRNA"},
                  {"grandparent_featuretype": None},
                  {"grandparent_featuretype": None, "parent_featuretype": None})

GFF_TEXT = """\
##gff-version 3
chr1\tsrc\tgene\t100\t900\t.\t+\t.\tID=g1
chr1\tsrc\tmRNA\t100\t900\t.\t+\t.\tID=t1;Parent=g1
chr1\tsrc\texon\t500\t900\t.\t+\t.\tID=e3;Parent=t1,t1b;exon_number=10
chr1\tsrc\texon\t100\t200\t.\t+\t.\tID=e1;Parent=t1;exon_number=8
chr1\tsrc\texon\t300\t400\t.\t+\t.\tID=e2;Parent=t1,t1b;exon_number=9
chr1\tsrc\tCDS\t150\t200\t.\t+\t0\tID=c1;Parent=t1
chr1\tsrc\tmRNA\t300\t900\t.\t+\t.\tID=t1b;Parent=g1
chr2\tsrc\tgene\t2000\t2900\t.\t-\t.\tID=g2
chr2\tsrc\tncRNA\t2000\t2900\t.\t-\t.\tID=t2;Parent=g2
chr2\tsrc\texon\t2000\t2200\t.\t-\t.\tID=f1;Parent=t2
chr2\tsrc\texon\t2201\t2400\t.\t-\t.\tID=f2;Parent=t2
chr2\tsrc\texon\t2402\t2900\t.\t-\t.\tID=f3;Parent=t2
"""


def text_model():
    """the structure of GFF_TEXT, for the end-to-end case through create_db"""
    m = Model()
    m.add("g1", "chr1", 100, 900, "+", "gene", {"ID": ["g1"]})
    m.add("t1", "chr1", 100, 900, "+", "mRNA", {"ID": ["t1"], "Parent": ["g1"]})
    m.add("e3", "chr1", 500, 900, "+", "exon", {"ID": ["e3"], "Parent": ["t1", "t1b"], "exon_number": ["10"]})
    m.add("e1", "chr1", 100, 200, "+", "exon", {"ID": ["e1"], "Parent": ["t1"], "exon_number": ["8"]})
    m.add("e2", "chr1", 300, 400, "+", "exon", {"ID": ["e2"], "Parent": ["t1", "t1b"], "exon_number": ["9"]})
    m.add("c1", "chr1", 150, 200, "+", "CDS", {"ID": ["c1"], "Parent": ["t1"]})
    m.add("t1b", "chr1", 300, 900, "+", "mRNA", {"ID": ["t1b"], "Parent": ["g1"]})
    m.add("g2", "chr2", 2000, 2900, "-", "gene", {"ID": ["g2"]})
    m.add("t2", "chr2", 2000, 2900, "-", "ncRNA", {"ID": ["t2"], "Parent": ["g2"]})
    m.add("f1", "chr2", 2000, 2200, "-", "exon", {"ID": ["f1"], "Parent": ["t2"]})
    m.add("f2", "chr2", 2201, 2400, "-", "exon", {"ID": ["f2"], "Parent": ["t2"]})
    m.add("f3", "chr2", 2402, 2900, "-", "exon", {"ID": ["f3"], "Parent": ["t2"]})
    for p, c in (("g1", "t1"), ("g1", "t1b"), ("t1", "e1"), ("t1", "e2"), ("t1", "e3"), ("t1", "c1"), ("t1b", "e2"), ("t1b", "e3"),
                 ("g2", "t2"), ("t2", "f1"), ("t2", "f2"), ("t2", "f3")):
        m.link(p, c, 1)
    return m


def skey(t):
    return (t[0], t[1], t[2], t[3], t[4], sorted((k, tuple(v)) for k, v in t[5].items())) + tuple(t[6:])


def match(got, acceptable_per_transcript, ordered):
    """got: canonical tuples in yield order.  acceptable_per_transcript: for every selected transcript the list
    of acceptable result lists.  ordered: compare as a sequence (single transcript) else as a multiset."""
    if ordered and len(acceptable_per_transcript) == 1:
        return any(got == alt for alt in acceptable_per_transcript[0])
    g = sorted(skey(x) for x in got)
    for combo in itertools.product(*acceptable_per_transcript):
        e = sorted(skey(x) for alt in combo for x in alt)
        if g == e:
            return True
    return False


def run_models(U, what):
    """what: 'introns' | 'splice'.  Returns (cases, fails, nofails, nmodels): nofails are the failures of
    create_splice_sites(merge_attributes=False), reported separately."""
    rng = U.rng
    fails, nomerge_fails = [], []
    cases = nomerge_cases = 0
    nmodels = 0

    def check_frame(db, base, changes, case):
        if db.conn.total_changes != changes or db_state(db) != base:
            fails.append({"case": case, "expected": "database unchanged", "observed": "database rows differ / DML executed"})
            return False
        return True

    def one_model(m, db, option_sets, single):
        nonlocal cases, nomerge_cases
        base = db_state(db)
        changes = db.conn.total_changes
        for (selkw, gp, par), exon_ft, nft, merge, numeric in option_sets:
            tids = m.transcripts(gp, par)
            kw = dict(selkw)
            if exon_ft != "exon":
                kw["exon_featuretype"] = exon_ft
            if numeric:
                kw["numeric_sort"] = True
            if what == "introns":
                if nft != "intron":
                    kw["new_featuretype"] = nft
                if not merge:
                    kw["merge_attributes"] = False
                acc = [expected_introns(m, t, exon_ft, new_featuretype=nft, merge=merge, numeric=numeric) for t in tids]
                call = db.create_introns
                with_bin = True
            else:
                acc = [expected_sites(m, t, exon_ft, numeric) for t in tids]
                call = db.create_splice_sites
                with_bin = False
            case = {"model": m.describe(), "call": what, "kwargs": kw}
            cases += 1
            try:
                got = [canon(f, with_bin) for f in call(**kw)]
            except Exception as e:
                fails.append({"case": case, "expected": [[jf(x) for x in alt] for a in acc for alt in a[:1]], "observed": "exception " + repr(e)})
                continue
            if not match(got, acc, ordered=(what == "introns" and single)):
                fails.append({"case": case, "expected": [[jf(x) for x in alt] for a in acc for alt in a[:1]], "observed": [jf(x) for x in got]})
                continue
            check_frame(db, base, changes, case)
        return base, changes

    def default_options(single):
        """option sets for one model; the exhaustive models get the default call plus one drawn variant"""
        out = [(SELECTIONS[0], "exon", "intron", True, False)]
        sel = SELECTIONS[2] if single else rng.choice(SELECTIONS)
        out.append((sel, "exon", rng.choice(("intron", "my_intron", None)), rng.random() < 0.7, rng.random() < 0.5))
        return out

    # (a) exhaustive single-transcript models
    for m in single_transcript_models(U.thorough, rng):
        nmodels += 1
        db = m.build()
        one_model(m, db, default_options(True), True)
        if what == "splice":
            t = m.by_id("t")
            exp = expected_sites(m, "t", "exon", False, merge=False)
            if all(alt for alt in exp) and nomerge_cases < (400 if U.thorough else 60):
                nomerge_cases += 1
                case = {"model": m.describe(), "call": "splice", "kwargs": {"merge_attributes": False}}
                try:
                    got = [canon(f, False) for f in db.create_splice_sites(merge_attributes=False)]
                    if not match(got, [exp], False):
                        nomerge_fails.append({"case": case, "expected": [jf(x) for x in exp[0]], "observed": [jf(x) for x in got]})
                except Exception as e:
                    nomerge_fails.append({"case": case, "expected": [jf(x) for x in exp[0]], "observed": "exception " + repr(e)})

    # (b) random multi-gene models, every selection mode
    R = 4000 if U.thorough else 450
    for _ in range(R):
        m = random_model(rng)
        nmodels += 1
        db = m.build(rng)
        opts = []
        for sel in SELECTIONS:
            if sel[1] in ("locus", "cluster") and not any(f["ft"] == sel[1] for f in m.feats) and rng.random() < 0.7:
                continue
            opts.append((sel, "exon" if rng.random() < 0.8 else "CDS", rng.choice(("intron", "intron", "my_intron", None)),
                         rng.random() < 0.8, rng.random() < 0.5))
        base, changes = one_model(m, db, opts, False)
        # argument validation: both or neither of grandparent / parent
        bad = rng.choice(BAD_SELECTIONS)
        cases += 1
        call = db.create_introns if what == "introns" else db.create_splice_sites
        try:
            got = list(call(**bad))
            fails.append({"case": {"model": m.describe(), "call": what, "kwargs": bad}, "expected": "ValueError", "observed": "%d features" % len(got)})
        except ValueError:
            pass
        except Exception as e:
            fails.append({"case": {"model": m.describe(), "call": what, "kwargs": bad}, "expected": "ValueError", "observed": repr(e)})

    # (c) end to end through create_db on GFF3 text
    m = text_model()
    fd, path = tempfile.mkstemp(suffix=".gff3", dir=tempfile.gettempdir())
    try:
        with os.fdopen(fd, "w") as fh:
            fh.write(GFF_TEXT)
        db = gffutils.create_db(path, ":memory:")
    finally:
        os.unlink(path)
    nmodels += 1
    opts = [(sel, eft, nft, merge, numeric) for sel in SELECTIONS for eft in ("exon", "CDS") for nft in ("intron", None)
            for merge in (True, False) for numeric in (False, True)]
    one_model(m, db, opts, False)
    return cases, fails, nomerge_cases, nomerge_fails, nmodels, R


def unit_introns(U):
    cases, fails, _, _, nmodels, R = run_models(U, "introns")
    top, kmax = (6, 4) if U.thorough else (5, 3)
    U.bounded_result("C15.bounded.introns",
                     "create_introns(...) yields, for every selected transcript, exactly interfeatures(level-1 children of exon_featuretype ordered by start) "
                     "(ordered for one transcript, as a multiset over several; ties in start in any order); both-or-neither of grandparent/parent_featuretype raises ValueError; database unchanged",
                     "every set of 1..%d distinct exons over the intervals within 1..%d (k=4 sampled 20%% in the thorough tier), one transcript on + and on -, rows inserted in rng order, default call plus one drawn "
                     "option set; %d rng databases (1-3 genes/loci on 2 seqids, 1-3 transcripts mRNA/ncRNA incl. strand '.', 0-5 exons/CDS with gaps -2..30, shared exons, exons directly under a gene, a cluster above the genes, "
                     "orphan mRNA) x 7 selection modes x exon_featuretype exon/CDS x new_featuretype intron/custom/None x merge_attributes x numeric_sort drawn; one GFF3 text through create_db x 112 option sets"
                     % (kmax, top, R),
                     cases, fails, distinct=nmodels)


def unit_splice(U):
    cases, fails, ncases, nfails, nmodels, R = run_models(U, "splice")
    top, kmax = (6, 4) if U.thorough else (5, 3)
    U.bounded_result("C15.bounded.splice",
                     "create_splice_sites(...) yields, as a multiset, for every intron [s,e] of every selected transcript the sites [s,s+1] and [e-1,e], typed five/three_prime_cis_splice_site by "
                     "(side, transcript strand) ('splice_site' for strand '.'), stranded and attributed like the intron with ID = [type + '_' + intron ID]; ValueError for both-or-neither; database unchanged",
                     "every set of 1..%d distinct exons over the intervals within 1..%d, one transcript on + and on -; %d rng databases (as C15.bounded.introns; exon strands may differ from the transcript's) "
                     "x 7 selection modes x exon_featuretype exon/CDS x numeric_sort drawn; one GFF3 text through create_db" % (kmax, top, R),
                     cases, fails, distinct=nmodels)
    U.bounded_result("C15.bounded.splice_no_merge",
                     "create_splice_sites(merge_attributes=False) yields the same two-base sites and labels with empty attributes",
                     "the first %d single-transcript exon sets of C15.bounded.splice that have at least one intron" % ncases,
                     ncases, nfails, distinct=ncases)


UNITS = [("bounded.inter", unit_inter),
         ("bounded.attrs", unit_attrs),
         ("bounded.introns", unit_introns),
         ("bounded.splice", unit_splice)]
