"""Bounded run-time stand-ins for C19 - existing databases are never clobbered; queries never write.

Everything here runs the REAL gffutils code on real database files under tempfile.gettempdir().
The oracles are written from the statement:

* no-clobber: the bytes of the old file, a raw dump of every table (opened read-only, not through
  gffutils) and what a freshly opened FeatureDB reports must be identical before and after a
  create_db(force=False) on that path, and the call must raise.  With force=True the expected ids,
  relations, directives, counters and duplicates are computed from the *structure* the input text
  was generated from (not by the importer), every input carries a marker token so that a leak of
  the old database is visible as that token anywhere in the dump, and the dump must equal the dump
  of the same import into a path that never existed.
* read-only: after any sequence of read-style calls the connection must report no changed rows and
  no open transaction, the file bytes / raw dump / reopened FeatureDB view must equal those taken
  before, the directory must hold no new file, and an ID-less feature added after reopening must
  receive the id that the persisted counters of the pristine file dictate.
"""
import collections
import contextlib
import hashlib
import io
import itertools
import os
import pathlib
import shutil
import sqlite3
import tempfile

import gffutils
from gffutils import merge_criteria as mc
from gffutils.feature import Feature, feature_from_line


# =====================================================================================================
# observation of a database file (independent of the code under test where possible)
# =====================================================================================================
def sha(path):
    with open(path, "rb") as fh:
        return hashlib.sha256(fh.read()).hexdigest()


def dump_conn(con):
    out = {}
    master = [tuple(r) for r in con.execute("SELECT type, name, tbl_name, sql FROM sqlite_master ORDER BY name")]
    out["sqlite_master"] = master
    for typ, name, _tbl, _sql in master:
        if typ == "table":
            out[name] = [tuple(r) for r in con.execute('SELECT rowid, * FROM "%s" ORDER BY rowid' % name)]
    return out


def dump_file(path):
    """every row of every table, read through a read-only sqlite connection"""
    con = sqlite3.connect(pathlib.Path(os.path.abspath(path)).as_uri() + "?mode=ro", uri=True)
    try:
        return dump_conn(con)
    finally:
        con.close()


def observe(path_or_conn):
    """what the statement calls 'observed by reopening the file': features, relations, directives,
    dialect and id counters as a freshly constructed FeatureDB reports them"""
    db = gffutils.FeatureDB(path_or_conn)
    try:
        feats = sorted((f.id, tuple(str(x) for x in f.astuple())) for f in db.all_features())
        rel = sorted(tuple(r) for r in db.conn.execute("SELECT parent, child, level FROM relations"))
        return {"features": feats, "relations": rel, "directives": list(db.directives),
                "dialect": db.dialect, "counters": dict(db._autoincrements)}
    finally:
        if not isinstance(path_or_conn, sqlite3.Connection):
            db.conn.close()


def dump_diff(a, b):
    """json-able description of the difference of two dumps"""
    d = {}
    for t in sorted(set(a) | set(b)):
        ra, rb = a.get(t), b.get(t)
        if ra != rb:
            sa, sb = set(ra or ()), set(rb or ())
            d[t] = {"only_before": [list(map(str, r)) for r in sorted(sa - sb, key=repr)][:6],
                    "only_after": [list(map(str, r)) for r in sorted(sb - sa, key=repr)][:6],
                    "n_before": None if ra is None else len(ra), "n_after": None if rb is None else len(rb)}
    return d


def obs_diff(a, b):
    return {k: {"before": _short(a[k]), "after": _short(b[k])} for k in a if a[k] != b[k]}


def _short(v):
    s = repr(v)
    return s if len(s) < 600 else s[:600] + "..."


class State(object):
    """all three views of one database file plus the listing of its directory"""

    def __init__(self, path):
        self.exists = os.path.exists(path)
        self.sha = sha(path) if self.exists else None
        self.dump = dump_file(path) if self.exists else None
        self.obs = observe(path) if self.exists else None
        self.listing = sorted(os.listdir(os.path.dirname(os.path.abspath(path))))

    def differences(self, other):
        """[] when `other` (taken later) shows the same content"""
        out = []
        if self.exists != other.exists:
            return [{"file exists": [self.exists, other.exists]}]
        if self.dump != other.dump:
            out.append({"tables": dump_diff(self.dump, other.dump)})
        if self.obs != other.obs:
            out.append({"reopened FeatureDB": obs_diff(self.obs, other.obs)})
        if self.sha != other.sha and not out:
            out.append({"bytes": "file bytes differ although all tables are equal"})
        if self.listing != other.listing:
            out.append({"directory": {"before": self.listing, "after": other.listing}})
        return out


# =====================================================================================================
# inputs: annotation structures, their text, and what the statement says the database must hold
# =====================================================================================================
class Spec(object):
    """One import: text + create_db options + the expected content, derived from the structure."""

    def __init__(self, name, fmt, marker, text, exp_ids, exp_rel, exp_dir, exp_cnt, exp_dup=(), kwargs=None):
        self.name, self.fmt, self.marker, self.text = name, fmt, marker, text
        self.exp_ids = sorted(exp_ids)
        self.exp_rel = sorted(exp_rel)
        self.exp_dir = list(exp_dir)
        self.exp_cnt = dict(exp_cnt)
        self.exp_dup = sorted(exp_dup)
        self.kwargs = dict(kwargs or {})

    def describe(self):
        return {"name": self.name, "fmt": self.fmt, "kwargs": {k: repr(v) for k, v in self.kwargs.items()}, "text": self.text}


def gff3_spec(name, marker, rows, directives=(), kwargs=None):
    """rows: (featuretype, id or None, parents, seqid, start, end, strand, extra attribute string)
    expectation for the default id_spec 'ID': key = ID attribute or '<featuretype>_<n>'; level-1 relation
    per Parent, level-2 relation per two-step path."""
    lines = ["##%s" % d for d in directives]
    cnt = collections.defaultdict(int)
    ids, l1 = [], set()
    for ft, fid, parents, seqid, start, end, strand, extra in rows:
        attrs = []
        if fid is not None:
            attrs.append("ID=%s" % fid)
            key = fid
        else:
            cnt[ft] += 1
            key = "%s_%d" % (ft, cnt[ft])
        if parents:
            attrs.append("Parent=%s" % ",".join(parents))
        attrs.append("Note=%s" % marker)
        if extra:
            attrs.append(extra)
        lines.append("\t".join([seqid, marker, ft, str(start), str(end), ".", strand, ".", ";".join(attrs)]))
        ids.append(key)
        for p in parents:
            l1.add((p, key))
    rel = {(p, c, 1) for p, c in l1} | {(g, c, 2) for g, p in l1 for p2, c in l1 if p == p2}
    return Spec(name, "gff3", marker, "\n".join(lines) + "\n", ids, rel, list(directives), cnt, kwargs=kwargs)


def gtf_spec(name, marker, rows, kwargs=None):
    """rows: (featuretype in exon/CDS, gene_id, transcript_id, seqid, start, end, strand).
    expectation for the default GTF id_spec: sub-features '<featuretype>_<n>', one feature per transcript_id and
    per gene_id; (transcript, sub, 1), (gene, sub, 2), (gene, transcript, 1)."""
    lines = []
    cnt = collections.defaultdict(int)
    ids, rel = [], set()
    for ft, g, t, seqid, start, end, strand in rows:
        cnt[ft] += 1
        key = "%s_%d" % (ft, cnt[ft])
        lines.append("\t".join([seqid, marker, ft, str(start), str(end), ".", strand, ".",
                                'gene_id "%s"; transcript_id "%s"; note "%s";' % (g, t, marker)]))
        ids.append(key)
        rel |= {(t, key, 1), (g, key, 2), (g, t, 1)}
        for x in (g, t):
            if x not in ids:
                ids.append(x)
    return Spec(name, "gtf", marker, "\n".join(lines) + "\n", ids, rel, [], cnt, kwargs=kwargs)


def fixed_specs():
    S = []
    # A: gene / mRNA / ID-less overlapping exons (counters), directives
    S.append(gff3_spec("A", "mkA", [
        ("gene", "g1", (), "chr1", 1, 500, "+", ""),
        ("mRNA", "m1", ("g1",), "chr1", 1, 500, "+", ""),
        ("exon", None, ("m1",), "chr1", 1, 100, "+", ""),
        ("exon", None, ("m1",), "chr1", 50, 200, "+", ""),
        ("exon", None, ("m1",), "chr1", 300, 500, "+", ""),
        ("CDS", None, ("m1",), "chr1", 60, 400, "+", ""),
    ], directives=("gff-version 3", "sequence-region chr1 1 1000 mkA")))
    # B: the same ids as A with other coordinates, explicit ids only, no directives
    S.append(gff3_spec("B", "mkB", [
        ("gene", "g1", (), "chr2", 10, 90, "-", ""),
        ("mRNA", "m1", ("g1",), "chr2", 10, 90, "-", ""),
        ("exon", "e1", ("m1",), "chr2", 10, 40, "-", ""),
    ]))
    # C: disjoint ids, a duplicate top-level id with other coordinates: 'merge' files it under d1_1, records the
    # pair in the duplicates table and counts under the id
    S.append(gff3_spec("C", "mkC", [
        ("region", "d1", (), "chrC", 5, 9, ".", ""),
        ("region", "d1", (), "chrC", 15, 19, ".", ""),
        ("gene", "cg", (), "chrC", 1, 50, "+", ""),
        ("exon", None, ("cg",), "chrC", 1, 50, "+", ""),
    ], directives=("gff-version 3",), kwargs={"merge_strategy": "merge"}))
    c = S[-1]
    c.exp_ids = sorted(["d1", "d1_1", "cg", "exon_1"])
    c.exp_cnt = {"exon": 1, "d1": 1}
    c.exp_dup = [("d1", "d1_1")]
    # D: a single line
    S.append(gff3_spec("D", "mkD", [("gene", "only", (), "chrD", 7, 7, "+", "")]))
    # E: two transcripts sharing an exon (multi-parent), minus strand
    S.append(gff3_spec("E", "mkE", [
        ("gene", "eg", (), "chr1", 100, 900, "-", ""),
        ("mRNA", "et1", ("eg",), "chr1", 100, 900, "-", ""),
        ("mRNA", "et2", ("eg",), "chr1", 100, 600, "-", ""),
        ("exon", "ex1", ("et1", "et2"), "chr1", 100, 200, "-", ""),
        ("exon", None, ("et1",), "chr1", 800, 900, "-", ""),
        ("exon", None, ("et2",), "chr1", 500, 600, "-", ""),
    ], directives=("gff-version 3", "species mkE")))
    # T: GTF, one gene, two transcripts
    S.append(gtf_spec("T", "mkT", [
        ("exon", "tg1", "tt1", "chr1", 1, 100, "+"),
        ("exon", "tg1", "tt1", "chr1", 80, 300, "+"),
        ("CDS", "tg1", "tt1", "chr1", 90, 250, "+"),
        ("exon", "tg1", "tt2", "chr1", 1, 100, "+"),
        ("exon", "tg1", "tt2", "chr1", 400, 450, "+"),
    ]))
    # U: GTF, other gene; ids of exons collide with those of T (exon_1 ...)
    S.append(gtf_spec("U", "mkU", [
        ("exon", "ug", "ut", "chr3", 11, 20, "-"),
        ("exon", "ug", "ut", "chr3", 31, 40, "-"),
    ]))
    return S


def random_gff3_spec(rng, name, marker, share_ids):
    """random small annotation: 1-3 genes x 1-2 mRNAs x 1-4 exons on a short chromosome (overlaps are common),
    ids present or generated at random"""
    pre = "" if share_ids else marker + "_"
    rows = []
    for gi in range(rng.randint(1, 3)):
        seqid = rng.choice(("chr1", "chr2"))
        strand = rng.choice("+-")
        g = "%sg%d" % (pre, gi)
        rows.append(("gene", g, (), seqid, 1, 80, strand, ""))
        for ti in range(rng.randint(1, 2)):
            t = "%sg%dt%d" % (pre, gi, ti)
            rows.append(("mRNA", t, (g,), seqid, 1, 80, strand, ""))
            for ei in range(rng.randint(1, 4)):
                s = rng.randint(1, 60)
                e = s + rng.randint(0, 25)
                eid = "%s_e%d" % (t, ei) if rng.random() < 0.4 else None
                rows.append((rng.choice(("exon", "exon", "CDS")), eid, (t,), seqid, s, e, strand, ""))
    if rng.random() < 0.3:
        rows.append(("region", None, (), "chr9", rng.randint(1, 5), rng.randint(5, 9), ".", ""))
    directives = ["gff-version 3"] + (["note-%s %d" % (marker, rng.randint(0, 99))] if rng.random() < 0.5 else [])
    return gff3_spec(name, marker, rows, directives=directives if rng.random() < 0.8 else ())


# =====================================================================================================
# running create_db in its data forms
# =====================================================================================================
DATA_FORMS = ("string", "file", "features")


def quiet():
    """the GTF importer writes a progress meter to sys.stderr"""
    return contextlib.redirect_stderr(io.StringIO())


def run_create(spec, dbfn, force, form, workdir, extra=None):
    with quiet():
        return _run_create(spec, dbfn, force, form, workdir, extra)


def _run_create(spec, dbfn, force, form, workdir, extra=None):
    kw = dict(spec.kwargs)
    kw.update(extra or {})
    if form == "string":
        return gffutils.create_db(spec.text, dbfn, from_string=True, force=force, **kw)
    if form == "file":
        fn = os.path.join(workdir, "input_%s.%s" % (spec.name, spec.fmt))
        with open(fn, "w") as fh:
            fh.write(spec.text)
        try:
            return gffutils.create_db(fn, dbfn, force=force, **kw)
        finally:
            os.unlink(fn)
    if form == "features":
        feats = [feature_from_line(l) for l in spec.text.splitlines() if l and not l.startswith("#")]
        return gffutils.create_db(iter(feats), dbfn, force=force, **kw)
    raise AssertionError(form)


def close(db):
    try:
        db.conn.close()
    except Exception:
        pass


def check_only_new(spec, form, path, old_marker, fresh_dump):
    """[] if the database file at `path` holds exactly the new input `spec`"""
    probs = []
    d = dump_file(path)
    o = observe(path)
    ids = sorted(i for i, _ in o["features"])
    if ids != spec.exp_ids:
        probs.append({"ids": {"expected": spec.exp_ids, "observed": ids}})
    if [list(r) for r in o["relations"]] != [list(r) for r in spec.exp_rel]:
        probs.append({"relations": {"expected": spec.exp_rel, "observed": o["relations"]}})
    exp_dir = [] if form == "features" else spec.exp_dir
    if o["directives"] != exp_dir:
        probs.append({"directives": {"expected": exp_dir, "observed": o["directives"]}})
    if o["counters"] != spec.exp_cnt:
        probs.append({"counters": {"expected": spec.exp_cnt, "observed": o["counters"]}})
    if o["dialect"].get("fmt") != spec.fmt:
        probs.append({"dialect fmt": {"expected": spec.fmt, "observed": o["dialect"].get("fmt")}})
    if len(d.get("meta", ())) != 1:
        probs.append({"meta rows": {"expected": 1, "observed": len(d.get("meta", ()))}})
    dup = sorted((r[1], r[2]) for r in d.get("duplicates", ()))
    if dup != spec.exp_dup:
        probs.append({"duplicates": {"expected": spec.exp_dup, "observed": dup}})
    if old_marker and old_marker != spec.marker:
        leaks = [t for t, rows in d.items() if old_marker in repr(rows)]
        if leaks:
            probs.append({"old content present": {"marker": old_marker, "tables": leaks}})
    if fresh_dump is not None and d != fresh_dump:
        probs.append({"differs from the same import into a new path": dump_diff(fresh_dump, d)})
    return probs


# =====================================================================================================
# unit 1: create_db on an existing database
# =====================================================================================================
def clobber_cases(U, specs):
    """(old spec, old post-processing, new spec, data form, path style)"""
    names = [s.name for s in specs]
    by = dict(zip(names, specs))
    out = []
    for o in names:
        for n in names:
            for form in DATA_FORMS:
                if form == "features" and by[n].fmt != "gff3":
                    continue
                if not U.thorough and form != "string" and (names.index(o) + names.index(n)) % 3 != DATA_FORMS.index(form):
                    continue
                out.append((by[o], "plain", by[n], form, "abs"))
    # old databases with a history (update bumps the stored counters; delete leaves gaps), other path shapes
    for o in names:
        for n in (names if U.thorough else names[:3]):
            out.append((by[o], "updated", by[n], "string", "abs"))
    for o in names:
        out.append((by[o], "emptied", by[names[(names.index(o) + 1) % len(names)]], "string", "abs"))
    for o, n in (("A", "B"), ("B", "A"), ("T", "A"), ("A", "T"), ("C", "C"), ("A", "A")):
        out.append((by[o], "plain", by[n], "string", "relative"))
        out.append((by[o], "plain", by[n], "file", "odd name"))
        out.append((by[o], "reader open", by[n], "string", "abs"))
    return out


def make_old(spec, post, path, workdir):
    db = run_create(spec, path, False, "string", workdir)
    if post == "updated":
        extra = Feature(seqid="chrX", source=spec.marker, featuretype="exon", start=3, end=4, strand="+",
                        attributes={"Note": [spec.marker]})
        kw = {}
        if spec.fmt == "gtf":
            kw = dict(disable_infer_genes=True, disable_infer_transcripts=True)
        with quiet():
            db.update([extra], make_backup=False, merge_strategy="create_unique", **kw)
        victim = spec.exp_ids[0]
        db.delete([victim], make_backup=False)
    if post == "emptied":
        # every feature deleted: tables, directives, dialect and id counters remain, zero feature rows
        db.delete(list(db.all_features()), make_backup=False)
    close(db)


def unit_clobber(U):
    specs = fixed_specs()
    for i in range(8 if U.thorough else 3):
        specs.append(random_gff3_spec(U.rng, "R%d" % i, "mkR%d" % i, share_ids=(i % 2 == 0)))
    work = tempfile.mkdtemp(prefix="c19_clobber_", dir=tempfile.gettempdir())
    cwd = os.getcwd()
    f_noforce, f_force = [], []
    n_noforce = n_force = 0
    distinct_a, distinct_b = set(), set()
    fresh_cache = {}
    try:
        for ci, (old, post, new, form, pstyle) in enumerate(clobber_cases(U, specs)):
            d = os.path.join(work, "case%d" % ci)
            os.mkdir(d)
            fname = {"abs": "old.db", "relative": "rel.db", "odd name": "my db é中.sqlite"}[pstyle]
            path = os.path.join(d, fname)
            arg = path
            if pstyle == "relative":
                os.chdir(d)
                arg = fname
            reader = None
            n_noforce += 1
            distinct_a.add((old.name, post, new.name, form, pstyle))
            try:
                make_old(old, post, arg, d)
                case = {"old": old.describe(), "old_history": post, "new": new.describe(), "data_form": form, "path": pstyle}
                before = State(path)
                if post == "reader open":
                    reader = gffutils.FeatureDB(arg)
                    next(iter(reader.all_features()))
                # ---- force=False: must raise, must leave everything as it was
                raised = None
                try:
                    r = run_create(new, arg, False, form, d)
                    close(r)
                except Exception as e:
                    raised = e
                after = State(path)
                diffs = before.differences(after)
                if raised is None or diffs:
                    f_noforce.append({"case": dict(case, force=False),
                                      "expected": "an exception and an unchanged file",
                                      "observed": {"raised": repr(raised), "changes": diffs}})
                # ---- force=True: only the new input (on a rebuilt old database if the first half damaged it)
                if diffs or not os.path.exists(path):
                    if reader is not None:
                        close(reader)
                        reader = None
                    for fn in os.listdir(d):
                        os.unlink(os.path.join(d, fn))
                    make_old(old, post, arg, d)
                if True:
                    n_force += 1
                    distinct_b.add((old.name, post, new.name, form, pstyle))
                    key = (new.name, form)
                    if key not in fresh_cache:
                        fp = os.path.join(work, "fresh_%s_%s.db" % key)
                        close(run_create(new, fp, False, form, work))
                        fresh_cache[key] = dump_file(fp)
                        os.unlink(fp)
                    try:
                        r = run_create(new, arg, True, form, d)
                        live = observe(r.conn)
                        close(r)
                        probs = check_only_new(new, form, path, old.marker, fresh_cache[key])
                        disk = observe(path)
                        if live != disk:
                            probs.append({"returned object differs from the file": obs_diff(live, disk)})
                        listing = sorted(os.listdir(d))
                        if listing != [fname]:
                            probs.append({"directory": listing})
                    except Exception as e:
                        probs = [{"exception": repr(e)}]
                    if probs:
                        f_force.append({"case": dict(case, force=True), "expected": "exactly the new input",
                                        "observed": probs})
            except Exception as e:
                # the stand-in's own set-up (building / observing the old database) failed: never on a healthy tree
                f_noforce.append({"case": {"old": old.describe(), "old_history": post, "new": new.describe(), "data_form": form,
                                           "path": pstyle},
                                  "expected": "old database can be built, observed and overwritten",
                                  "observed": "stand-in set-up raised %r" % (e,)})
            finally:
                if reader is not None:
                    close(reader)
                os.chdir(cwd)
                shutil.rmtree(d, ignore_errors=True)
        # ---- control: the same calls on a path that does not exist must succeed (the oracle of the
        #      force=True half is exercised on its own, and 'raises' above is not vacuous)
        for new in specs:
            for form in DATA_FORMS:
                if form == "features" and new.fmt != "gff3":
                    continue
                for force in (False, True):
                    p = os.path.join(work, "ctl.db")
                    n_force += 1
                    distinct_b.add(("<none>", new.name, form, force))
                    try:
                        close(run_create(new, p, force, form, work))
                        probs = check_only_new(new, form, p, None, None)
                    except Exception as e:
                        probs = [{"exception": repr(e)}]
                    if probs:
                        f_force.append({"case": {"old": None, "new": new.describe(), "data_form": form, "force": force},
                                        "expected": "exactly the new input", "observed": probs})
                    if os.path.exists(p):
                        os.unlink(p)
    finally:
        os.chdir(cwd)
        shutil.rmtree(work, ignore_errors=True)
    scope = ("all ordered pairs over %d inputs (5 GFF3 incl. shared ids / duplicates table / counters / directives, 2 GTF, "
             "%d seeded-random GFF3) x data forms string/file/Feature iterator%s; old databases plain, with an update+delete "
             "history, emptied by delete(), or held open by a reader; absolute, relative and non-ASCII paths"
             % (len(specs), len(specs) - 7, "" if U.thorough else " (file/iterator forms on a third of the pairs)"))
    U.bounded_result("C19.bounded.noforce_untouched",
                     "create_db(new, path_of_old, force=False) raises and the old file's bytes, every table row (read-only raw "
                     "dump), the reopened FeatureDB view and the directory listing are identical before and after",
                     scope, n_noforce, f_noforce, distinct=len(distinct_a))
    U.bounded_result("C19.bounded.force_only_new",
                     "create_db(new, path_of_old, force=True): ids, relations, directives, counters, duplicates, dialect format "
                     "== expectation derived from the input structure; one meta row; the old input's marker token occurs in no "
                     "table; raw dump == dump of the same import into a never-used path; returned object == file",
                     scope + "; plus every input on a non-existent path with both force settings", n_force, f_force,
                     distinct=len(distinct_b))


# =====================================================================================================
# unit 2 / 3: read-style calls
# =====================================================================================================
def query_specs(rng, thorough):
    """databases the read-style calls are run on"""
    S = []
    # Q1: two genes on both strands, transcripts sharing exons, overlapping exons (merge produces new
    # ids), CDS, ID-less features (stored counters), a duplicates row, directives
    q1 = gff3_spec("Q1", "mkQ", [
        ("gene", "g1", (), "chr1", 1, 500, "+", ""),
        ("mRNA", "m1", ("g1",), "chr1", 1, 500, "+", "Name=first"),
        ("mRNA", "m2", ("g1",), "chr1", 1, 300, "+", ""),
        ("exon", "x1", ("m1", "m2"), "chr1", 1, 100, "+", ""),
        ("exon", None, ("m1",), "chr1", 50, 200, "+", ""),
        ("exon", None, ("m1",), "chr1", 201, 250, "+", ""),
        ("exon", None, ("m1",), "chr1", 300, 500, "+", ""),
        ("exon", None, ("m2",), "chr1", 150, 300, "+", ""),
        ("CDS", None, ("m1",), "chr1", 60, 90, "+", ""),
        ("CDS", None, ("m1",), "chr1", 310, 400, "+", ""),
        ("gene", "g2", (), "chr1", 400, 900, "-", ""),
        ("mRNA", "m3", ("g2",), "chr1", 400, 900, "-", ""),
        ("exon", None, ("m3",), "chr1", 400, 450, "-", ""),
        ("exon", None, ("m3",), "chr1", 440, 600, "-", ""),
        ("exon", None, ("m3",), "chr1", 800, 900, "-", ""),
        ("region", "d1", (), "chr2", 5, 9, ".", ""),
        ("region", "d1", (), "chr2", 8, 19, ".", ""),
    ], directives=("gff-version 3", "sequence-region chr1 1 1000"), kwargs={"merge_strategy": "merge"})
    S.append(q1)
    S.append(gtf_spec("Q2", "mkG", [
        ("exon", "tg1", "tt1", "chr1", 1, 100, "+"),
        ("exon", "tg1", "tt1", "chr1", 80, 300, "+"),
        ("CDS", "tg1", "tt1", "chr1", 90, 250, "+"),
        ("exon", "tg1", "tt2", "chr1", 1, 100, "+"),
        ("exon", "tg1", "tt2", "chr1", 90, 450, "+"),
        ("exon", "tg2", "tt3", "chr2", 10, 20, "-"),
        ("exon", "tg2", "tt3", "chr2", 15, 40, "-"),
    ]))
    S.append(gff3_spec("Q3", "mkS", [("exon", None, (), "chr1", 7, 7, "+", "")]))
    # Q4: explicit ids that LOOK like generated keys ('exon_1', 'CDS_2'; no counter stored for those types): a read-style
    # call that generates ids for its results (merge, children_bp) has no business recording anything about them
    S.append(gff3_spec("Q4", "mkE", [
        ("gene", "g1", (), "chr1", 1, 500, "+", ""),
        ("mRNA", "m1", ("g1",), "chr1", 1, 500, "+", ""),
        ("exon", "exon_1", ("m1",), "chr1", 1, 100, "+", ""),
        ("exon", "exon_2", ("m1",), "chr1", 50, 200, "+", ""),
        ("exon", "exon_3", ("m1",), "chr1", 300, 400, "+", ""),
        ("exon", "exon_4", ("m1",), "chr1", 390, 500, "+", ""),
        ("CDS", "CDS_1", ("m1",), "chr1", 60, 90, "+", ""),
        ("CDS", "CDS_2", ("m1",), "chr1", 80, 120, "+", ""),
    ]))
    for i in range(4 if thorough else 1):
        S.append(random_gff3_spec(rng, "QR%d" % i, "mkQR%d" % i, share_ids=True))
    return S


class Call(object):
    """one read-style call: description (python-like text, enough to reproduce) + closure"""

    def __init__(self, method, text, fn, consume=True):
        self.method, self.text, self.fn, self.consume = method, text, fn, consume


def _consume(x, partial, keep):
    if x is None or isinstance(x, (str, bytes, int, float, Feature)):
        return
    it = iter(x)
    if partial:
        try:
            next(it)
        except StopIteration:
            pass
        keep.append(it)            # a half-consumed generator stays alive until the case ends
    else:
        for item in it:
            if isinstance(item, list):
                pass


CRITERIA = {
    "default": (mc.seqid, mc.overlap_end_inclusive, mc.strand, mc.feature_type),
    "no_strand": (mc.seqid, mc.overlap_end_inclusive, mc.feature_type),
    "any_inclusive": (mc.overlap_any_inclusive,),
    "empty": (),
}


def alphabet(path, thorough):
    """the call alphabet for the database at `path`, derived from its own ids / featuretypes / seqids
    (read through raw SQL).  Calls take the live FeatureDB as argument."""
    con = sqlite3.connect(pathlib.Path(path).as_uri() + "?mode=ro", uri=True)
    rows = con.execute("SELECT id, seqid, featuretype, start, end, strand FROM features ORDER BY rowid").fetchall()
    parents = [r[0] for r in con.execute("SELECT DISTINCT parent FROM relations ORDER BY parent")]
    con.close()
    ids = [r[0] for r in rows]
    fts = sorted({r[2] for r in rows})
    seqids = sorted({r[1] for r in rows})
    tops = parents[:4] if parents else ids[:1]
    some_ids = (ids if thorough else ids[:3] + ids[-2:]) + ["no_such_id"]
    C = []

    def add(method, text, fn):
        C.append(Call(method, text, fn))

    # ---- look-up
    for i in some_ids:
        add("__getitem__", "db[%r]" % i, lambda db, i=i: db[i])
    add("__getitem__", "db[db[%r]]" % ids[0], lambda db: db[db[ids[0]]])
    add("__getitem__", "db[%r]" % ids[0].encode(), lambda db: db[ids[0].encode()])
    # ---- counts and listings
    for ft in [None] + fts + ["nope"]:
        add("count_features_of_type", "db.count_features_of_type(%r)" % ft, lambda db, ft=ft: db.count_features_of_type(ft))
    add("featuretypes", "list(db.featuretypes())", lambda db: db.featuretypes())
    add("seqids", "list(db.seqids())", lambda db: db.seqids())
    add("schema", "db.schema()", lambda db: db.schema())
    # ---- iteration
    s0 = seqids[0]
    limits = [None, "%s:1-300" % s0, (s0, 50, 450), (s0, 0, 2 ** 29 + 5)]
    orders = [None, "start", ("seqid", "start", "end"), "length", "id", ["featuretype", "attributes"]]
    strands = [None, "+", "-", "."]
    ftargs = [None, fts[0], tuple(fts), "nope"]
    grid = list(itertools.product(limits, strands, ftargs, orders, (False, True), (False, True)))
    if not thorough:
        # every value of every argument, and every pair of (limit, order), not the full product
        grid = [g for k, g in enumerate(grid) if k % 23 == 0] + \
               [(l, None, None, o, False, False) for l in limits for o in orders]
    for lim, st, ft, ob, rev, cw in grid:
        add("all_features", "db.all_features(limit=%r, strand=%r, featuretype=%r, order_by=%r, reverse=%r, completely_within=%r)"
            % (lim, st, ft, ob, rev, cw),
            lambda db, a=(lim, st, ft, ob, rev, cw): db.all_features(limit=a[0], strand=a[1], featuretype=a[2], order_by=a[3],
                                                                      reverse=a[4], completely_within=a[5]))
    for ft in fts + [tuple(fts), "nope"]:
        for lim, ob, rev in ((None, None, False), (limits[1], "start", True), (limits[2], "length", False)):
            add("features_of_type", "db.features_of_type(%r, limit=%r, order_by=%r, reverse=%r)" % (ft, lim, ob, rev),
                lambda db, ft=ft, lim=lim, ob=ob, rev=rev: db.features_of_type(ft, limit=lim, order_by=ob, reverse=rev))
    for ft in fts[:3] + ["nope"]:
        for lv in (None, 1, 2):
            add("iter_by_parent_childs", "db.iter_by_parent_childs(featuretype=%r, level=%r, order_by='start')" % (ft, lv),
                lambda db, ft=ft, lv=lv: db.iter_by_parent_childs(featuretype=ft, level=lv, order_by="start"))
    # ---- children / parents
    for meth in ("children", "parents"):
        targets = (tops if meth == "children" else ids[-3:]) + ["no_such_id"]
        for t in targets:
            for lv in (None, 1, 2, 3):
                for ft, ob, rev, lim, cw in ((None, None, False, None, False), (fts[0], "start", True, None, False),
                                             (tuple(fts), ("start", "end"), False, limits[2], True)):
                    if not thorough and lv == 3 and ft is not None:
                        continue
                    add(meth, "db.%s(%r, level=%r, featuretype=%r, order_by=%r, reverse=%r, limit=%r, completely_within=%r)"
                        % (meth, t, lv, ft, ob, rev, lim, cw),
                        lambda db, meth=meth, t=t, lv=lv, ft=ft, ob=ob, rev=rev, lim=lim, cw=cw:
                        getattr(db, meth)(t, level=lv, featuretype=ft, order_by=ob, reverse=rev, limit=lim, completely_within=cw))
        add(meth, "db.%s(db[%r])" % (meth, targets[0]), lambda db, meth=meth, t=targets[0]: getattr(db, meth)(db[t]))
    # ---- region
    regs = [dict(region="%s:1-300" % s0), dict(region=(s0, 100, 260)), dict(region=s0), dict(seqid=s0, start=200),
            dict(seqid=s0, end=100), dict(seqid=s0, start=1, end=2 ** 29), dict(start=1, end=10 ** 6), dict(),
            dict(region="%s:1-300" % s0, seqid=s0), dict(seqid="nope", start=1, end=5)]
    for r in regs:
        for st in (None, "+", "-"):
            for ft in (None, fts[0], list(fts)):
                for cw in (False, True):
                    if not thorough and (st == "-" and ft is not None or cw and st == "+"):
                        continue
                    kw = dict(r, strand=st, featuretype=ft, completely_within=cw)
                    add("region", "db.region(**%r)" % kw, lambda db, kw=kw: db.region(**kw))
    add("region", "db.region(db[%r])" % ids[0], lambda db: db.region(db[ids[0]]))
    add("region", "db.region(db[%r], strand='-', completely_within=True)" % ids[-1],
        lambda db: db.region(db[ids[-1]], strand="-", completely_within=True))

    # ---- interfeatures
    def feats(db, ft, parent=None):
        if parent is None:
            return db.features_of_type(ft, order_by=("seqid", "start"))
        return db.children(parent, featuretype=ft, order_by="start")

    sub = "exon" if "exon" in fts else fts[0]
    for parent in [None] + tops[:3]:
        for nft, ma, ns, dia, af, ua in ((None, True, False, None, None, None), ("gap", False, True, None, None, None),
                                        ("intron", True, False, "db", "func", {"Tag": ["v"]}),
                                        ("intron", True, True, None, None, {"ID": ["forced"]})):
            add("interfeatures", "db.interfeatures(<%s of %r by start>, new_featuretype=%r, merge_attributes=%r, numeric_sort=%r, "
                "dialect=%s, attribute_func=%s, update_attributes=%r)" % (sub, parent, nft, ma, ns, dia, af, ua),
                lambda db, parent=parent, nft=nft, ma=ma, ns=ns, dia=dia, af=af, ua=ua: db.interfeatures(
                    feats(db, sub, parent), new_featuretype=nft, merge_attributes=ma, numeric_sort=ns,
                    dialect=(db.dialect if dia else None), attribute_func=((lambda a: dict(a, Seen=["1"])) if af else None),
                    update_attributes=ua))
    add("interfeatures", "db.interfeatures(iter([]))", lambda db: db.interfeatures(iter([])))
    # ---- create_introns / create_splice_sites
    intr = [dict(), dict(exon_featuretype="CDS"), dict(grandparent_featuretype="gene", new_featuretype="gap"),
            dict(parent_featuretype="mRNA", grandparent_featuretype=None), dict(parent_featuretype="transcript", grandparent_featuretype=None),
            dict(merge_attributes=False, numeric_sort=True), dict(exon_featuretype="nope"),
            dict(parent_featuretype="mRNA", grandparent_featuretype="gene")]
    for kw in intr:
        add("create_introns", "db.create_introns(**%r)" % kw, lambda db, kw=kw: db.create_introns(**kw))
        kw2 = {k: v for k, v in kw.items() if k != "new_featuretype"}
        add("create_splice_sites", "db.create_splice_sites(**%r)" % kw2, lambda db, kw2=kw2: db.create_splice_sites(**kw2))
    # ---- merge
    sources = [("children(%r, featuretype=%r, order_by='start')" % (p, sub), lambda db, p=p: db.children(p, featuretype=sub, order_by="start"))
               for p in tops]
    sources.append(("all_features(order_by=('seqid','featuretype','strand','start'))",
                    lambda db: db.all_features(order_by=("seqid", "featuretype", "strand", "start"))))
    sources.append(("features_of_type(%r, order_by='start')" % sub, lambda db: db.features_of_type(sub, order_by="start")))
    sources.append(("list(features_of_type(%r)) unsorted reversed" % sub, lambda db: list(db.features_of_type(sub, order_by="start"))[::-1]))
    sources.append(("[]", lambda db: []))
    sources.append(("[one feature]", lambda db: [db[ids[0]]]))
    for stext, sfn in sources:
        for cname in ("default", "no_strand", "any_inclusive", "empty"):
            for ml in (False, True):
                if not thorough and ml and cname != "default":
                    continue
                add("merge", "db.merge(db.%s, merge_criteria=%s, multiline=%r)" % (stext, cname, ml),
                    lambda db, sfn=sfn, cname=cname, ml=ml: db.merge(sfn(db), merge_criteria=CRITERIA[cname], multiline=ml))
    add("merge", "merge x3 on one object (in-memory counter keeps growing)",
        lambda db: [list(db.merge(sources[0][1](db))) for _ in range(3)])
    # ---- children_bp
    for t in tops + ["no_such_id"]:
        for cft in ("exon", "CDS", "nope"):
            for mg in (False, True):
                for cname in (("default", "no_strand") if mg else ("default",)):
                    add("children_bp", "db.children_bp(%r, child_featuretype=%r, merge=%r, merge_criteria=%s)" % (t, cft, mg, cname),
                        lambda db, t=t, cft=cft, mg=mg, cname=cname: db.children_bp(t, child_featuretype=cft, merge=mg,
                                                                                   merge_criteria=CRITERIA[cname]))
    add("children_bp", "db.children_bp(db[%r], merge=True)" % tops[0], lambda db: db.children_bp(db[tops[0]], merge=True))
    add("children_bp", "db.children_bp(%r, ignore_strand=True)" % tops[0], lambda db: db.children_bp(tops[0], ignore_strand=True))
    # ---- bed12
    for t in tops + ids[-1:]:
        for kw in (dict(), dict(block_featuretype="exon", thick_featuretype="CDS"), dict(thick_featuretype=None),
                   dict(thin_featuretype=["exon"], thick_featuretype=None), dict(thin_featuretype=["exon"]),
                   dict(name_field="Name", color="255,0,0"), dict(block_featuretype=["exon", "CDS"], name_field="Note")):
            add("bed12", "db.bed12(%r, **%r)" % (t, kw), lambda db, t=t, kw=kw: db.bed12(t, **kw))
        add("bed12", "db.bed12(db[%r])" % t, lambda db, t=t: db.bed12(db[t]))
    return C


class QueryBed(object):
    """pristine database files + their state; hands out private copies"""

    def __init__(self, U, prefix):
        self.work = tempfile.mkdtemp(prefix=prefix, dir=tempfile.gettempdir())
        self.specs = query_specs(U.rng, U.thorough)
        self.pristine, self.state, self.alpha = {}, {}, {}
        self.spec = {s.name: s for s in self.specs}
        self.n = 0
        try:
            os.mkdir(os.path.join(self.work, "pristine"))
            for s in self.specs:
                d = os.path.join(self.work, "pristine", s.name)
                os.mkdir(d)
                p = os.path.join(d, "q.db")
                close(run_create(s, p, False, "string", d))
                self.pristine[s.name] = p
                self.state[s.name] = State(p)
                self.alpha[s.name] = alphabet(p, U.thorough)
        except Exception:
            self.cleanup()
            raise

    def copy(self, name):
        self.n += 1
        d = os.path.join(self.work, "c%d" % self.n)
        os.mkdir(d)
        p = os.path.join(d, "q.db")
        shutil.copyfile(self.pristine[name], p)
        return d, p

    def cleanup(self):
        shutil.rmtree(self.work, ignore_errors=True)


OPEN_MODES = (dict(), dict(keep_order=True, sort_attribute_values=True), dict(text_factory=None))


def run_reads(bed, name, calls, partial_flags, open_kw, memory=False, probe_ids=False, fresh=False):
    """runs the calls on a private copy (fresh=True: on the object create_db returns for a newly built file);
    returns (problems, number of calls that raised)"""
    try:
        return _run_reads(bed, name, calls, partial_flags, open_kw, memory, probe_ids, fresh)
    except Exception as e:
        return [{"stand-in could not open / observe / probe the database": repr(e)}], 0


def _run_reads(bed, name, calls, partial_flags, open_kw, memory=False, probe_ids=False, fresh=False):
    d, p = bed.copy(name)
    problems, raised = [], 0
    keep = []
    base = bed.state[name]
    try:
        if fresh:
            os.unlink(p)
            db = run_create(bed.spec[name], p, False, "string", d, extra=open_kw_for_create(open_kw))
            base = State(p)
        elif memory:
            src = sqlite3.connect(p)
            conn = sqlite3.connect(":memory:")
            src.backup(conn)
            src.close()
            before_mem = dump_conn(conn)
            db = gffutils.FeatureDB(conn, **open_kw)
        else:
            db = gffutils.FeatureDB(p, **open_kw)
        tc = db.conn.total_changes
        for c, partial in zip(calls, partial_flags):
            try:
                _consume(c.fn(db), partial, keep)
            except Exception:
                raised += 1            # arbitrary arguments may be rejected; they still must not write
        delta = db.conn.total_changes - tc
        if delta:
            problems.append({"rows changed through the FeatureDB connection": delta})
        if db.conn.in_transaction:
            problems.append({"open write transaction left behind": True})
        if memory:
            del keep[:]
            after_mem = dump_conn(db.conn)
            if after_mem != before_mem:
                problems.append({"tables": dump_diff(before_mem, after_mem)})
            db.conn.close()
        else:
            # 'observed by reopening the file afterwards' - first with the handle still alive, then after closing it
            st = State(p)
            diffs = base.differences(st)
            del keep[:]
            db.conn.close()
            del db
            st2 = State(p)
            diffs2 = base.differences(st2)
            for x in diffs + [y for y in diffs2 if y not in diffs]:
                problems.append(x)
            if probe_ids and not problems:
                problems.extend(probe_counters(bed, name, p))
    finally:
        del keep[:]
        shutil.rmtree(d, ignore_errors=True)
    return problems, raised


def open_kw_for_create(open_kw):
    return {k: v for k, v in open_kw.items() if k in ("keep_order", "sort_attribute_values")}


def probe_counters(bed, name, p):
    """behavioural reading of 'id counters unchanged': an ID-less feature of each counted type added after reopening
    gets '<type>_<stored n + 1>' where n is the counter of the pristine file"""
    cnt = bed.state[name].obs["counters"]
    fmt = bed.state[name].obs["dialect"].get("fmt")
    fts = sorted(k for k in cnt if k in ("exon", "CDS", "region")) or ["probetype"]      # (a type of its own: explicit ids may be shaped like exon_1)
    db = gffutils.FeatureDB(p)
    try:
        new = [Feature(seqid="chrP", source="probe", featuretype=ft, start=1, end=2, strand="+", attributes={"Note": ["probe"]})
               for ft in fts]
        kw = dict(disable_infer_genes=True, disable_infer_transcripts=True) if fmt == "gtf" else {}
        with quiet():
            db.update(new, make_backup=False, **kw)
        got = sorted(r[0] for r in db.conn.execute("SELECT id FROM features WHERE source = 'probe'"))
        exp = sorted("%s_%d" % (ft, cnt.get(ft, 0) + 1) for ft in fts)
        if got != exp:
            return [{"ids handed out after reopening": {"expected": exp, "observed": got}}]
        return []
    finally:
        db.conn.close()


def unit_reads_single(U):
    """every call of the alphabet alone, on every database"""
    try:
        bed = QueryBed(U, "c19_single_")
    except Exception as e:
        U.bounded_result("C19.bounded.reads_single", "the databases the read-style calls run on can be built and observed",
                         "set-up", 1, [{"case": "set-up of the query databases", "expected": "no exception", "observed": repr(e)}])
        return
    fails, cases, raised_total = [], 0, 0
    per_method = collections.Counter()
    try:
        for s in bed.specs:
            for k, c in enumerate(bed.alpha[s.name]):
                mem = (k % 7 == 3)
                fresh = (k % 11 == 5) and not mem
                okw = OPEN_MODES[k % len(OPEN_MODES)] if k % 5 == 0 else {}
                cases += 1
                per_method[c.method] += 1
                probs, r = run_reads(bed, s.name, [c], [False], okw, memory=mem, fresh=fresh)
                raised_total += r
                if probs:
                    fails.append({"case": {"database": s.describe(), "open": {k2: repr(v) for k2, v in okw.items()},
                                           "in_memory_copy": mem, "on_object_returned_by_create_db": fresh, "calls": [c.text]},
                                  "expected": "no write", "observed": probs})
    finally:
        bed.cleanup()
    U.bounded_result("C19.bounded.reads_single",
                     "after one read-style call (result fully consumed): connection.total_changes unchanged, no open transaction, "
                     "file bytes / raw dump of every table / reopened FeatureDB view (features, relations, directives, dialect, "
                     "counters) / directory listing identical to the pristine file",
                     "every call of an argument grid over __getitem__, count_features_of_type, featuretypes, seqids, schema, all_features, "
                     "features_of_type, iter_by_parent_childs, children, parents, region, interfeatures, create_introns, "
                     "create_splice_sites, merge, children_bp, bed12 (%s) on %d databases (GFF3 with overlapping exons, shared "
                     "exons, stored counters, duplicates, directives; GTF; single feature; %d seeded-random); every 7th case on an "
                     "in-memory copy, every 11th on the object create_db returns for a new file; %d of the calls raised (rejected arguments)"
                     % (", ".join("%s:%d" % kv for kv in sorted(per_method.items())), len(bed.specs), len(bed.specs) - 3, raised_total),
                     cases, fails, exhaustive=True, distinct=cases)


def unit_reads_seq(U):
    """ordered pairs over one representative per method + seeded-random longer sequences with half-consumed iterators"""
    try:
        bed = QueryBed(U, "c19_seq_")
    except Exception as e:
        U.bounded_result("C19.bounded.reads_sequences", "the databases the read-style calls run on can be built and observed",
                         "set-up", 1, [{"case": "set-up of the query databases", "expected": "no exception", "observed": repr(e)}])
        return
    rng = U.rng
    fails, cases = [], 0
    distinct = set()
    raised_total = 0
    n_rand = 0
    try:
        for s in bed.specs:
            alpha = bed.alpha[s.name]
            bym = collections.OrderedDict()
            for c in alpha:
                bym.setdefault(c.method, []).append(c)
            # representatives: for the writing-prone methods the variants that actually generate new ids
            reps = []
            for m, cs in bym.items():
                reps.append(cs[0])
                if m in ("merge", "children_bp", "interfeatures", "create_introns", "bed12") and len(cs) > 1:
                    pick = [c for c in cs if "merge=True" in c.text] or cs[1:]
                    reps.append(pick[0])
            seqs = []
            if s.name in ("Q1", "Q2") or U.thorough:
                for a, b in itertools.product(reps, repeat=2):
                    if not U.thorough and s.name == "Q2" and (reps.index(a) + reps.index(b)) % 3:
                        continue
                    seqs.append(([a, b], [False, False]))
            nr = (1200 if U.thorough else 60) if s.name in ("Q1", "Q2") else (400 if U.thorough else 25)
            for _ in range(nr):
                L = rng.randint(2, 8 if U.thorough else 6)
                cs = []
                for _j in range(L):
                    m = rng.choice(list(bym))
                    cs.append(rng.choice(bym[m]))
                seqs.append((cs, [rng.random() < 0.3 for _c in cs]))
                n_rand += 1
            for k, (cs, flags) in enumerate(seqs):
                okw = OPEN_MODES[k % len(OPEN_MODES)] if k % 4 == 0 else {}
                cases += 1
                distinct.add((s.name, tuple(c.text for c in cs), tuple(flags)))
                probs, r = run_reads(bed, s.name, cs, flags, okw, memory=False, probe_ids=(k % 3 == 0 or U.thorough),
                                     fresh=(k % 9 == 4))
                raised_total += r
                if probs:
                    fails.append({"case": {"database": s.describe(), "open": {k2: repr(v) for k2, v in okw.items()},
                                           "on_object_returned_by_create_db": k % 9 == 4,
                                           "calls": [c.text for c in cs], "only_first_item_consumed": flags},
                                  "expected": "no write", "observed": probs})
    finally:
        bed.cleanup()
    U.bounded_result("C19.bounded.reads_sequences",
                     "after a sequence of read-style calls on one FeatureDB object: total_changes unchanged, no open transaction, file "
                     "bytes / raw dump / reopened FeatureDB view / directory unchanged (checked with the handle alive and after closing "
                     "it); an ID-less feature added after reopening gets '<type>_<pristine counter + 1>'",
                     "all ordered pairs over 1-2 representative calls per method (merge-producing variants included) on the GFF3 and GTF "
                     "databases%s, plus %d seeded-random sequences of length 2..%d over the full argument grid with 30%% of the results "
                     "only consumed up to the first item (generator left open), every 9th case on the object create_db returns for a new file; %d calls raised"
                     % (" and the others" if U.thorough else " (a third of the pairs on GTF)", n_rand, 8 if U.thorough else 6, raised_total),
                     cases, fails, distinct=len(distinct))


UNITS = [
    ("bounded.clobber", unit_clobber),
    ("bounded.reads_single", unit_reads_single),
    ("bounded.reads_sequences", unit_reads_seq),
]
