"""Bounded run-time stand-in for C20: concurrent imports are independent and leave no temp files;
concurrent readers of one finished database all observe its full content.

Everything here runs the REAL gffutils.create_db / FeatureDB in separate OS processes (os.fork, so it
also works inside the harness' daemonic pool workers) that share ONE temporary directory.

Oracles (independent of the code under test):
  * the content a database must have is derived from the generated gene model itself (ids, coordinates,
    parent/child/grandchild triples, inferred transcript/gene extents for GTF) - `expected_from_model`;
  * "exactly the database a solitary run produces": every table of the sqlite file is read with the
    plain sqlite3 module (not through gffutils) and compared row by row with the solitary run of the
    same call; the solitary run is itself checked against the model;
  * "no intermediate file of theirs": the listing of the shared temp dir after the runs must equal the
    listing before them (two foreign sentinel files, one of them called *.gffutils, plus the outputs that
    were deliberately placed there), and the sentinels must be unchanged.

Schedules: (1) barrier-synchronised starts with enumerated start-offset patterns, (2) forced
interleavings: a run is frozen with SIGSTOP while its intermediate file exists (observed by polling the
shared temp dir, frozen after an enumerated fraction of the measured file life time), other runs are
executed to completion (or frozen in turn) and the frozen ones are resumed in LIFO or FIFO order.
"""
import hashlib
import itertools
import json
import multiprocessing
import os
import shutil
import signal
import sqlite3
import sys
import tempfile
import time
import traceback

import gffutils

_MP = multiprocessing.get_context("fork")
WAIT = 30.0          # upper bound (s) for any wait on another process
TABLES = ("features", "relations", "meta", "directives", "autoincrements", "duplicates")
MAX_FAILS = 40       # a unit stops enumerating once it has this many failures (a broken tree fails slowly: timeouts)
SENTINELS = {"unrelated.keep": "not yours\n", "foreign.gffutils": "someone else's intermediate file\n"}


# ----------------------------------------------------------------------------------------------
# generated inputs and the model oracle
# ----------------------------------------------------------------------------------------------
def make_model(variant, n_genes):
    """Deterministic gene model.  Variants v and v+2 use the SAME ids with different coordinates and
    exon counts (a foreign intermediate file is then accepted silently but gives wrong content);
    variants v and v+1 use disjoint ids."""
    tag = variant % 2
    genes = []
    for g in range(n_genes):
        seqid = "chr%d" % (1 + (g * 7 + variant) % 3)
        strand = "+-"[(g + variant) % 2]
        base = 1000 + g * 6000 + variant * 37
        gid = "v%dG%04d" % (tag, g)
        txs = []
        for t in range(1 + (g + variant) % 3):
            tid = "%s.t%d" % (gid, t)
            exons = []
            for e in range(2 + (g + t + variant) % 4):
                s = base + t * 50 + e * 900
                exons.append((s, s + 300 + 10 * variant + e))
            txs.append((tid, exons))
        genes.append((gid, seqid, strand, txs))
    return genes


def gff3_text(model):
    out = ["##gff-version 3", "##species model-organism"]
    for gid, seqid, strand, txs in model:
        gs = min(s for _, ex in txs for s, _ in ex)
        ge = max(e for _, ex in txs for _, e in ex)
        out.append("%s\tsrc\tgene\t%d\t%d\t.\t%s\t.\tID=%s;Name=%s" % (seqid, gs, ge, strand, gid, gid))
        for tid, ex in txs:
            out.append("%s\tsrc\tmRNA\t%d\t%d\t.\t%s\t.\tID=%s;Parent=%s" % (seqid, ex[0][0], ex[-1][1], strand, tid, gid))
            for k, (s, e) in enumerate(ex):
                out.append("%s\tsrc\texon\t%d\t%d\t.\t%s\t.\tID=%s.e%d;Parent=%s" % (seqid, s, e, strand, tid, k, tid))
    return "\n".join(out) + "\n"


def gtf_text(model):
    out = []
    for gid, seqid, strand, txs in model:
        for ti, (tid, ex) in enumerate(txs):
            for k, (s, e) in enumerate(ex):
                out.append('%s\tsrc\texon\t%d\t%d\t.\t%s\t.\tgene_id "%s"; transcript_id "%s"; exon_number "%d";'
                           % (seqid, s, e, strand, gid, tid, k + 1))
                if ti == 0:
                    out.append('%s\tsrc\tCDS\t%d\t%d\t.\t%s\t0\tgene_id "%s"; transcript_id "%s"; exon_number "%d";'
                               % (seqid, s + 5, e - 5, strand, gid, tid, k + 1))
    return "\n".join(out) + "\n"


def expected_from_model(fmt, model, kwargs):
    """(features: id -> (seqid, source, featuretype, start, end, strand), relations: set of triples),
    written from the import statements C01-C03, not from the code."""
    F, R = {}, set()
    if fmt == "gff3":
        for gid, seqid, strand, txs in model:
            gs = min(s for _, ex in txs for s, _ in ex)
            ge = max(e for _, ex in txs for _, e in ex)
            F[gid] = (seqid, "src", "gene", gs, ge, strand)
            for tid, ex in txs:
                F[tid] = (seqid, "src", "mRNA", ex[0][0], ex[-1][1], strand)
                R.add((gid, tid, 1))
                for k, (s, e) in enumerate(ex):
                    eid = "%s.e%d" % (tid, k)
                    F[eid] = (seqid, "src", "exon", s, e, strand)
                    R.add((tid, eid, 1))
                    R.add((gid, eid, 2))
        return F, R
    ne = nc = 0
    for gid, seqid, strand, txs in model:
        for ti, (tid, ex) in enumerate(txs):
            for k, (s, e) in enumerate(ex):
                ne += 1
                ids = ["exon_%d" % ne]
                F[ids[0]] = (seqid, "src", "exon", s, e, strand)
                if ti == 0:
                    nc += 1
                    ids.append("CDS_%d" % nc)
                    F[ids[1]] = (seqid, "src", "CDS", s + 5, e - 5, strand)
                for i in ids:
                    R.add((tid, i, 1))
                    R.add((gid, i, 2))
                R.add((gid, tid, 1))
            if not kwargs.get("disable_infer_transcripts"):
                F[tid] = (seqid, "gffutils_derived", "transcript", ex[0][0], ex[-1][1], strand)
        if not kwargs.get("disable_infer_genes"):
            gs = min(s for _, ex in txs for s, _ in ex)
            ge = max(e for _, ex in txs for _, e in ex)
            F[gid] = (seqid, "gffutils_derived", "gene", gs, ge, strand)
    return F, R


def model_mismatch(dump, fmt, model, kwargs):
    F, R = expected_from_model(fmt, model, kwargs)
    gotF = {r[0]: (r[1], r[2], r[3], r[4], r[5], r[7]) for r in dump["features"]}
    gotR = {tuple(r) for r in dump["relations"]}
    if len(dump["features"]) != len(gotF):
        return "duplicate ids in the features table"
    if gotF != F:
        ks = sorted(set(F) ^ set(gotF)) or sorted(k for k in F if F[k] != gotF[k])
        return "features differ from the gene model, e.g. %r: model %r, db %r (%d vs %d rows)" % (
            ks[0], F.get(ks[0]), gotF.get(ks[0]), len(F), len(gotF))
    if gotR != R:
        d = sorted(R ^ gotR)
        return "relations differ from the gene model, e.g. %r (%d model vs %d db)" % (d[0], len(R), len(gotR))
    return None


# ----------------------------------------------------------------------------------------------
# reading a database without gffutils
# ----------------------------------------------------------------------------------------------
def dump_conn(conn):
    out = {}
    for t in TABLES:
        out[t] = [list(r) for r in conn.execute("SELECT * FROM %s" % t)]
    return out


def dump_file(path):
    if not os.path.isfile(path):
        return {"missing": path}
    conn = sqlite3.connect(path)
    try:
        return dump_conn(conn)
    except sqlite3.Error as e:
        return {"unreadable": repr(e)}
    finally:
        conn.close()


def describe_diff(exp, got):
    """short, json-able description of the first difference between two table dumps"""
    if got == exp:
        return None
    if "missing" in got or "unreadable" in got:
        return got
    for t in TABLES:
        a, b = exp.get(t), got.get(t)
        if a == b:
            continue
        sa, sb = sorted(map(repr, a)), sorted(map(repr, b))
        if sa == sb:
            i = next(i for i in range(len(a)) if a[i] != b[i])
            return {"table": t, "difference": "same rows, different order", "first_at": i, "solitary": a[i], "concurrent": b[i]}
        only_a = [x for x in a if repr(x) not in set(sb)][:2]
        only_b = [x for x in b if repr(x) not in set(sa)][:2]
        return {"table": t, "rows_solitary": len(a), "rows_concurrent": len(b), "only_in_solitary": only_a, "only_in_concurrent": only_b}
    return {"difference": "unknown"}


# ----------------------------------------------------------------------------------------------
# processes
# ----------------------------------------------------------------------------------------------
def _spawn(fn, resfile, *args):
    """fork; the child runs fn(*args) -> json-able dict and writes it to resfile; never returns in the child"""
    sys.stdout.flush()
    sys.stderr.flush()
    pid = os.fork()
    if pid:
        return pid
    code = 0
    try:
        try:
            dn = os.open(os.devnull, os.O_WRONLY)
            os.dup2(dn, 2)
            signal.signal(signal.SIGINT, signal.SIG_DFL)
            signal.signal(signal.SIGTERM, signal.SIG_DFL)
            try:
                res = fn(*args)
            except BaseException:
                tb = traceback.format_exc().strip().splitlines()
                res = {"ok": False, "error": tb[-1][:500], "where": [l.strip() for l in tb[-7:-1]]}
            with open(resfile + ".part", "w") as fh:
                json.dump(res, fh)
            os.rename(resfile + ".part", resfile)
        except BaseException:
            code = 1
    finally:
        os._exit(code)


def _reap(pids, timeout=WAIT):
    """wait for all pids; kill the stragglers.  Returns {pid: exit status or 'timeout'}"""
    deadline = time.time() + timeout
    pending, st = list(pids), {}
    while pending and time.time() < deadline:
        for p in list(pending):
            r, s = os.waitpid(p, os.WNOHANG)
            if r:
                pending.remove(p)
                st[p] = s
        if pending:
            time.sleep(0.001)
    for p in pending:
        try:
            os.kill(p, signal.SIGKILL)
            os.kill(p, signal.SIGCONT)
        except OSError:
            pass
        os.waitpid(p, 0)
        st[p] = "timeout"
    return st


def _result(resfile, status):
    if os.path.exists(resfile):
        with open(resfile) as fh:
            return json.load(fh)
    return {"ok": False, "error": "process produced no result (status %r)" % (status,)}


def _use_tmp(shared):
    os.environ["TMPDIR"] = shared
    tempfile.tempdir = shared


def _import_child(job, shared, barrier):
    _use_tmp(shared)
    try:
        if job.get("cwd"):
            os.chdir(job["cwd"])
        if barrier is not None:
            barrier.wait(WAIT)
    except BaseException:
        if barrier is not None:
            barrier.abort()
        raise
    if job.get("offset"):
        time.sleep(job["offset"])
    data, kwargs = job["data"], dict(job["kwargs"])
    if job.get("from_string"):
        with open(data) as fh:
            data = fh.read()
        kwargs["from_string"] = True
    if job.get("force"):
        kwargs["force"] = True
    t0 = time.time()
    db = gffutils.create_db(data, job["dbfn"], **kwargs)
    res = {"ok": True, "t0": t0, "t1": time.time()}
    if job["dbfn"] == ":memory:":
        res["dump"] = dump_conn(db.conn)
    db.conn.close()
    return res


# ----------------------------------------------------------------------------------------------
# the world: inputs, solitary runs, shared temp dir
# ----------------------------------------------------------------------------------------------
KW = {
    "gff3": [{}],
    "gtf": [{}, {"disable_infer_genes": True}, {"disable_infer_transcripts": True},
            {"disable_infer_genes": True, "disable_infer_transcripts": True}],
}


class World(object):
    def __init__(self, n_genes, variants=(0, 1, 2)):
        self.root = tempfile.mkdtemp(prefix="c20_")
        self.shared = os.path.join(self.root, "shared_tmp")
        os.mkdir(self.shared)
        for k, v in SENTINELS.items():
            with open(os.path.join(self.shared, k), "w") as fh:
                fh.write(v)
        self.ctl = os.path.join(self.root, "ctl")
        os.mkdir(self.ctl)
        self.n_genes = n_genes
        self.models, self.inputs = {}, {}
        for v in variants:
            self.models[v] = make_model(v, n_genes)
            for fmt, text in (("gff3", gff3_text), ("gtf", gtf_text)):
                p = os.path.join(self.root, "in_v%d.%s" % (v, fmt))
                with open(p, "w") as fh:
                    fh.write(text(self.models[v]))
                self.inputs[(fmt, v)] = p
        self.solo = {}      # (fmt, variant, kwargs repr, from_string) -> dump
        self.life = {}      # same key -> (seconds before the intermediate file appears, seconds it exists, total)
        self.seq = 0
        self.selfcheck = []  # problems of the solitary runs (oracle: the gene model)
        self.solo_runs = 0

    def close(self):
        shutil.rmtree(self.root, ignore_errors=True)

    def fresh(self, name):
        self.seq += 1
        d = os.path.join(self.root, "%s_%d" % (name, self.seq))
        os.mkdir(d)
        return d

    def resfile(self):
        self.seq += 1
        return os.path.join(self.ctl, "res_%d.json" % self.seq)

    def rel(self, p):
        return p.replace(self.root, "<root>") if isinstance(p, str) else p

    def extra_entries(self, allowed=()):
        """entries of the shared temp dir that are neither sentinels nor deliberately placed outputs"""
        return sorted(set(os.listdir(self.shared)) - set(SENTINELS) - set(allowed))

    def sentinel_problem(self):
        for k, v in SENTINELS.items():
            p = os.path.join(self.shared, k)
            if not os.path.isfile(p):
                return "foreign file %s was removed from the shared temp dir" % k
            with open(p) as fh:
                if fh.read() != v:
                    return "foreign file %s in the shared temp dir was modified" % k
        return None

    def clean_shared(self, allowed=()):
        for e in self.extra_entries():
            p = os.path.join(self.shared, e)
            if os.path.isdir(p):
                shutil.rmtree(p, ignore_errors=True)
            else:
                try:
                    os.unlink(p)
                except OSError:
                    pass
        for k, v in SENTINELS.items():
            with open(os.path.join(self.shared, k), "w") as fh:
                fh.write(v)

    def key(self, fmt, variant, kwargs, from_string=False):
        return (fmt, variant, json.dumps(kwargs, sort_keys=True), bool(from_string))

    def solitary(self, fmt, variant, kwargs, from_string=False):
        """dump of the database ONE process builds on its own (own temp dir), checked against the model;
        also measures when the intermediate file exists."""
        k = self.key(fmt, variant, kwargs, from_string)
        if k in self.solo:
            return self.solo[k]
        d = self.fresh("solo")
        own_tmp = os.path.join(d, "tmp")
        os.mkdir(own_tmp)
        job = {"data": self.inputs[(fmt, variant)], "dbfn": os.path.join(d, "solo.db"), "kwargs": kwargs, "from_string": from_string}
        rf = self.resfile()
        t_start = time.time()
        pid = _spawn(_import_child, rf, job, own_tmp, None)
        appear = vanish = None
        while True:
            r, s = os.waitpid(pid, os.WNOHANG)
            now = time.time()
            # (the from_string input copy is not the intermediate file whose life time is measured)
            ents = [] if from_string else os.listdir(own_tmp)
            if ents and appear is None:
                appear = now
            if appear is not None and vanish is None and not ents:
                vanish = now
            if r:
                break
            if now - t_start > WAIT:
                os.kill(pid, signal.SIGKILL)
                os.waitpid(pid, 0)
                s = "timeout"
                break
        t_end = time.time()
        res = _result(rf, s)
        self.solo_runs += 1
        if not res.get("ok"):
            self.selfcheck.append({"case": {"solitary": [fmt, variant, kwargs, from_string]}, "expected": "solitary create_db succeeds", "observed": res})
            self.solo[k] = {"missing": "solitary run failed"}
            return self.solo[k]
        dump = dump_file(job["dbfn"])
        mm = model_mismatch(dump, fmt, self.models[variant], kwargs)
        if mm:
            self.selfcheck.append({"case": {"solitary": [fmt, variant, kwargs, from_string], "n_genes": self.n_genes},
                                   "expected": "content derived from the gene model", "observed": mm})
        left = sorted(os.listdir(own_tmp))
        if left and not from_string:
            self.selfcheck.append({"case": {"solitary": [fmt, variant, kwargs, from_string]}, "expected": "private temp dir empty after the run", "observed": left})
        self.solo[k] = dump
        if appear is not None:
            self.life[k] = (appear - t_start, (vanish or t_end) - appear, t_end - t_start)
        else:
            self.life[k] = (None, 0.0, t_end - t_start)
        return dump


def place_outputs(W, scheme, n):
    """-> list of (dbfn, cwd, final absolute path or None) and the set of names deliberately put in the shared dir"""
    allowed = set()
    out = []
    if scheme == "onedir":
        d = W.fresh("out")
        for i in range(n):
            p = os.path.join(d, "out%d.db" % i)
            out.append((p, None, p))
    elif scheme == "samebase":
        d = W.fresh("out")
        for i in range(n):
            os.mkdir(os.path.join(d, "job%d" % i))
            p = os.path.join(d, "job%d" % i, "annotation.db")
            out.append((p, None, p))
    elif scheme == "relcwd":
        d = W.fresh("out")
        for i in range(n):
            os.mkdir(os.path.join(d, "job%d" % i))
            out.append(("annotation.db", os.path.join(d, "job%d" % i), os.path.join(d, "job%d" % i, "annotation.db")))
    elif scheme == "intemp":
        W.seq += 1
        for i in range(n):
            name = "result_%d_%d.db" % (W.seq, i)
            allowed.add(name)
            p = os.path.join(W.shared, name)
            out.append((p, None, p))
    elif scheme == "memory":
        for i in range(n):
            out.append((":memory:", None, None))
    else:
        raise ValueError(scheme)
    return out, allowed


SCHEMES = ("onedir", "samebase", "relcwd", "intemp", "memory")


def job_case(W, j):
    return {"format": j["fmt"], "variant": j["variant"], "kwargs": j["kwargs"], "dbfn": W.rel(j["dbfn"]), "cwd": W.rel(j.get("cwd")),
            "offset_s": round(j.get("offset", 0.0), 4), "from_string": bool(j.get("from_string"))}


def check_jobs(W, jobs, results, case, fails):
    """database of every job == the solitary one"""
    for i, (j, res) in enumerate(zip(jobs, results)):
        c = dict(case, job=i, check="db_equals_solitary")
        if not res.get("ok"):
            fails.append({"case": c, "expected": "create_db succeeds like the solitary run", "observed": {k: res.get(k) for k in ("error", "where")}})
            continue
        got = res["dump"] if j["dbfn"] == ":memory:" else dump_file(j["final"])
        exp = W.solitary(j["fmt"], j["variant"], j["kwargs"], j.get("from_string"))
        d = describe_diff(exp, got)
        if d:
            fails.append({"case": c, "expected": "every table equal to the solitary run's (%d features, %d relations)" % (
                len(exp.get("features", ())), len(exp.get("relations", ()))), "observed": d})


def check_tmp(W, allowed, case, fails):
    left = W.extra_entries(allowed)
    if left:
        fails.append({"case": dict(case, check="tempdir_clean"), "expected": "shared temp dir holds only the foreign files it held before" + (
            " and the outputs placed there" if allowed else ""), "observed": {"left_behind": left[:10], "count": len(left)}})
    sp = W.sentinel_problem()
    if sp:
        fails.append({"case": dict(case, check="tempdir_foreign_files"), "expected": "files of others in the shared temp dir untouched", "observed": sp})
    W.clean_shared()


def make_jobs(W, picks, scheme, offsets, from_string=False):
    outs, allowed = place_outputs(W, scheme, len(picks))
    jobs = []
    for (fmt, v, kw), (dbfn, cwd, final), off in zip(picks, outs, offsets):
        jobs.append({"fmt": fmt, "variant": v, "kwargs": kw, "data": W.inputs[(fmt, v)], "dbfn": dbfn, "cwd": cwd, "final": final,
                     "offset": off, "from_string": from_string})
    return jobs, allowed


def run_round(W, jobs):
    barrier = _MP.Barrier(len(jobs))
    rfs, pids = [], []
    for j in jobs:
        rf = W.resfile()
        rfs.append(rf)
        pids.append(_spawn(_import_child, rf, j, W.shared, barrier))
    st = _reap(pids, WAIT + max(j.get("offset", 0) for j in jobs))
    return [_result(rf, st[p]) for rf, p in zip(rfs, pids)]


def concurrency(results):
    iv = [(r["t0"], r["t1"]) for r in results if r.get("ok")]
    pairs = sum(1 for a, b in itertools.combinations(iv, 2) if a[0] < b[1] and b[0] < a[1])
    ev = sorted([(a, 1) for a, _ in iv] + [(b, -1) for _, b in iv])
    cur = peak = 0
    for _, d in ev:
        cur += d
        peak = max(peak, cur)
    return pairs, peak


# ----------------------------------------------------------------------------------------------
# mixes and offset patterns
# ----------------------------------------------------------------------------------------------
def all_kinds(variants=(0, 1, 2)):
    return [(fmt, v, kw) for fmt in ("gff3", "gtf") for v in variants for kw in KW[fmt]]


def mix(name, n, rng):
    kinds = all_kinds()
    if name == "gff3-same":
        return [("gff3", 0, {})] * n
    if name == "gtf-same":
        return [("gtf", 0, {})] * n
    if name == "gff3-gtf-same-ids":      # same ids, different content, both formats
        return [(("gtf", "gff3")[i % 2], (0, 2)[(i // 2) % 2], {}) for i in range(n)]
    if name == "alternating":
        return [kinds[(i * 7) % len(kinds)] if i % 2 else kinds[(i * 5 + 3) % len(kinds)] for i in range(n)]
    if name == "random":
        return [rng.choice(kinds) for _ in range(n)]
    raise ValueError(name)


MIXES = ("gff3-same", "gtf-same", "gff3-gtf-same-ids", "alternating", "random")


def offsets(name, n, total, before, rng):
    """start offsets (s) relative to the common barrier; `total` = duration of a solitary run, `before` =
    time a solitary run needs before its intermediate file appears"""
    if name == "zero":
        return [0.0] * n
    if name == "stagger":            # starts spread evenly over one solitary duration
        return [total * i / float(n) for i in range(n)]
    if name == "into-phase":         # every later run starts when its predecessor is expected to hold its intermediate file
        return [before * (i % 4) for i in range(n)]
    if name == "random":
        return [rng.uniform(0.0, total) for _ in range(n)]
    raise ValueError(name)


OFFSETS = ("zero", "stagger", "into-phase", "random")


def process_counts(thorough):
    if not thorough:
        return [2, 3, 6]
    ncpu = os.cpu_count() or 4
    c = {2, 3, 5, 8, min(32, max(2, ncpu - 1)), min(32, ncpu), min(32, ncpu + 1), min(32, 2 * ncpu), 32}
    return sorted(c)


# ----------------------------------------------------------------------------------------------
# unit 1: barrier-synchronised concurrent imports
# ----------------------------------------------------------------------------------------------
def unit_bounded_imports(U):
    W = World(60 if U.thorough else 30)
    fails, cases, distinct = [], 0, set()
    pairs_total, peak_max = 0, 0
    try:
        W.solitary("gff3", 0, {})
        W.solitary("gtf", 0, {})
        counts = process_counts(U.thorough)
        combos = list(itertools.product(SCHEMES, MIXES))
        rounds = []
        if U.thorough:
            # full product for small counts, rotating for the large ones
            for n in counts:
                for oi, off in enumerate(OFFSETS):
                    for ci, (scheme, mx) in enumerate(combos):
                        if n <= 8 or (ci + oi + n) % 5 == 0:
                            rounds.append((n, off, scheme, mx))
        else:
            # every (scheme, mix) pair once; counts and offset patterns rotate (every pair of values of any
            # two parameters among count/offset/scheme occurs)
            for ci, (scheme, mx) in enumerate(combos):
                rounds.append((counts[(ci + ci // 5) % len(counts)], OFFSETS[(ci + ci // 4) % len(OFFSETS)], scheme, mx))
        for n, off, scheme, mx in rounds:
            if len(fails) >= MAX_FAILS:
                break
            picks = mix(mx, n, U.rng)
            for p in picks:
                W.solitary(*p)
            k0 = W.key("gtf", 0, {})
            total = W.life[k0][2]
            before = W.life[k0][0] or total / 2
            offs = offsets(off, n, total, before, U.rng)
            jobs, allowed = make_jobs(W, picks, scheme, offs)
            case = {"processes": n, "offsets": off, "outputs": scheme, "mix": mx, "n_genes": W.n_genes, "jobs": [job_case(W, j) for j in jobs]}
            results = run_round(W, jobs)
            cases += 1
            distinct.add((n, off, scheme, mx))
            check_jobs(W, jobs, results, case, fails)
            check_tmp(W, allowed, case, fails)
            p, pk = concurrency(results)
            pairs_total += p
            peak_max = max(peak_max, pk)
        fails.extend(W.selfcheck)
        cases += W.solo_runs
    finally:
        W.close()
    U.bounded_result(
        "C20.bounded.concurrent_imports",
        "every table of the sqlite file written by each of n concurrent create_db processes sharing one temp dir == the solitary run's "
        "(itself == the content derived from the gene model); afterwards the shared temp dir lists exactly what it listed before",
        "process counts %s x start-offset patterns %s x output placements %s x input mixes %s over 3 generated gene models (%d genes) in GFF3 "
        "and GTF (4 inference settings); %s" % (process_counts(U.thorough), list(OFFSETS), list(SCHEMES), list(MIXES), W.n_genes,
                                                "full product for <= 8 processes, every 5th combination above" if U.thorough else
                                                "every (placement, mix) pair once with rotating count and offset pattern"),
        cases, fails, distinct=len(distinct) + W.solo_runs,
        sample={"rounds": len(distinct), "solitary_runs": W.solo_runs, "pairs_of_runs_overlapping_in_time": pairs_total, "peak_simultaneous_runs": peak_max})


# ----------------------------------------------------------------------------------------------
# unit 2: forced interleavings (freeze a run while its intermediate file exists)
# ----------------------------------------------------------------------------------------------
def _stopped(pid):
    """wait until pid is stopped or gone -> 'stopped' | ('exited', status)"""
    t = time.time()
    while time.time() - t < WAIT:
        r, s = os.waitpid(pid, os.WNOHANG | os.WUNTRACED)
        if r:
            if os.WIFSTOPPED(s):
                return "stopped"
            return ("exited", s)
        time.sleep(0.0005)
    return "stopped"


def run_nested(W, jobs, fracs, resume, allowed=()):
    """Start jobs[0]; freeze it `fracs[0]` of the way through the life time of its intermediate file; start
    jobs[1]; freeze it likewise; ...; the last job runs to completion; then the frozen ones are resumed
    (LIFO or FIFO), each running to completion before the next is resumed.
    -> results, list of booleans 'was frozen while an intermediate file of its own existed'"""
    n = len(jobs)
    rfs, pids, status, frozen = [], [], {}, [False] * n

    def entries():      # outputs placed in the shared dir (and their sqlite journals) are not intermediate files
        return {e for e in os.listdir(W.shared) if not any(e.startswith(a) for a in allowed)}
    for i, j in enumerate(jobs):
        rf = W.resfile()
        rfs.append(rf)
        before = entries()
        pid = _spawn(_import_child, rf, j, W.shared, None)
        pids.append(pid)
        if i == n - 1:
            status.update(_reap([pid]))
            break
        life = W.life[W.key(j["fmt"], j["variant"], j["kwargs"])]
        t0 = time.time()
        while True:      # wait for an entry that was not there before this process started
            r, s = os.waitpid(pid, os.WNOHANG)
            if r:
                status[pid] = s
                break
            if entries() - before:
                if fracs[i]:
                    time.sleep(fracs[i] * life[1])
                os.kill(pid, signal.SIGSTOP)
                st = _stopped(pid)
                if st == "stopped":
                    frozen[i] = bool(entries() - before)
                else:
                    status[pid] = st[1]
                break
            if time.time() - t0 > WAIT:
                os.kill(pid, signal.SIGKILL)
                os.waitpid(pid, 0)
                status[pid] = "timeout"
                break
    order = [i for i in range(n - 1) if pids[i] not in status]
    if resume == "lifo":
        order.reverse()
    for i in order:
        os.kill(pids[i], signal.SIGCONT)
        status.update(_reap([pids[i]]))
    return [_result(rf, status.get(p)) for rf, p in zip(rfs, pids)], frozen


def unit_bounded_interleave(U):
    W = World(120 if U.thorough else 60)
    fails, cases, distinct = [], 0, set()
    frozen_cases = 0
    try:
        firsts = [("gff3", 0, {}), ("gtf", 0, {}), ("gtf", 0, {"disable_infer_genes": True})]
        seconds = [("gff3", 0, {}), ("gff3", 2, {}), ("gtf", 0, {}), ("gtf", 2, {}), ("gtf", 1, {"disable_infer_transcripts": True}), ("gff3", 1, {})]
        for p in firsts + seconds:
            W.solitary(*p)
        schemes = ("samebase", "onedir", "relcwd", "memory", "intemp")
        fr = (0.0, 0.2, 0.5, 0.8) if U.thorough else (0.0, 0.5)
        plans = []
        for a in firsts:
            for bi, b in enumerate(seconds):
                for si, scheme in enumerate(schemes):
                    for fi, f in enumerate(fr):
                        if U.thorough or (bi + si + fi + firsts.index(a)) % 4 == 0 or (scheme == "samebase" and f == 0.0 and bi < 4):
                            plans.append(([a, b], [f], scheme, "lifo"))
        # deeper nestings: A frozen, B frozen, (C frozen,) last runs through; LIFO and FIFO resumption
        depth = (3, 4) if U.thorough else (3,)
        for d in depth:
            for k in range(12 if U.thorough else 3):
                picks = [firsts[(k + i) % len(firsts)] if i < d - 1 else seconds[(k * 5 + i) % len(seconds)] for i in range(d)]
                plans.append((picks, [fr[(k + i) % len(fr)] for i in range(d - 1)], schemes[k % len(schemes)], ("lifo", "fifo")[k % 2]))
        for picks, fracs, scheme, resume in plans:
            if len(fails) >= MAX_FAILS:
                break
            jobs, allowed = make_jobs(W, picks, scheme, [0.0] * len(picks))
            case = {"schedule": "freeze each run but the last while its intermediate file exists (after the given fraction of that file's "
                                "solitary life time), run the last to completion, resume %s" % resume,
                    "freeze_fractions": fracs, "outputs": scheme, "n_genes": W.n_genes, "jobs": [job_case(W, j) for j in jobs]}
            results, frozen = run_nested(W, jobs, fracs, resume, allowed)
            cases += 1
            frozen_cases += 1 if any(frozen) else 0
            distinct.add(json.dumps([picks, fracs, scheme, resume], sort_keys=True))
            case["frozen_in_phase"] = frozen
            check_jobs(W, jobs, results, case, fails)
            check_tmp(W, allowed, case, fails)
        fails.extend(W.selfcheck)
    finally:
        W.close()
    U.bounded_result(
        "C20.bounded.forced_interleaving",
        "a create_db process frozen (SIGSTOP) while its intermediate file exists, other create_db processes sharing the temp dir run to "
        "completion meanwhile, then it is resumed: every database == the solitary run's, shared temp dir as before",
        "first run in {GFF3, GTF, GTF without gene inference} x second run in 6 (format, model, setting) choices incl. the same input and the "
        "same ids with other content x 5 output placements x freeze points %s of the intermediate file's life time%s; nestings of depth %s "
        "with LIFO/FIFO resumption; gene models of %d genes" % (list(fr), "" if U.thorough else " (every 4th combination + all same-basename pairs)",
                                                               list(depth), W.n_genes),
        cases, fails, distinct=len(distinct), sample={"schedules": cases, "schedules_with_a_run_frozen_while_its_file_existed": frozen_cases})


# ----------------------------------------------------------------------------------------------
# unit 3: concurrent readers
# ----------------------------------------------------------------------------------------------
def _reader_child(dbfn, shared, mode, offset, b1, b2):
    try:
        return _reader(dbfn, shared, mode, offset, b1, b2)
    except BaseException:      # do not keep the other readers waiting for this one
        b1.abort()
        b2.abort()
        raise


def _reader(dbfn, shared, mode, offset, b1, b2):
    """what ONE reader observes through the gffutils API"""
    _use_tmp(shared)
    if mode == "open-then-barrier":
        db = gffutils.FeatureDB(dbfn)
        b1.wait(WAIT)
    else:
        b1.wait(WAIT)
        if offset:
            time.sleep(offset)
        db = gffutils.FeatureDB(dbfn)
    t0 = time.time()
    obs = {"ids": [], "lines": hashlib.sha1()}
    it = db.all_features()
    first = next(it)
    if mode == "all-mid-iteration":
        b2.wait(WAIT)        # every reader now holds an open cursor on the file
    for f in itertools.chain([first], it):
        obs["ids"].append(f.id)
        obs["lines"].update((str(f) + "\n").encode())
    obs["lines"] = obs["lines"].hexdigest()
    obs["relations"] = sorted([r[0], r[1], r[2]] for r in db.execute("SELECT parent, child, level FROM relations"))
    obs["count"] = db.count_features_of_type()
    obs["types"] = sorted(db.featuretypes())
    top = [i for i in obs["ids"][:40]]
    obs["children"] = {i: sorted(c.id for c in db.children(i)) for i in top}
    obs["parents"] = {i: sorted(c.id for c in db.parents(i)) for i in top}
    obs["directives"] = list(db.directives)
    obs["by_id"] = [db[i].start for i in top]
    db.conn.close()
    return {"ok": True, "t0": t0, "t1": time.time(), "obs": obs}


def reader_expect(dump):
    """what a reader must observe, from the plain sqlite3 dump of the finished file"""
    ids = [r[0] for r in dump["features"]]
    rel = sorted([r[0], r[1], r[2]] for r in dump["relations"])
    top = ids[:40]
    ch = {i: sorted(c for p, c, l in rel if p == i) for i in top}
    pa = {i: sorted(p for p, c, l in rel if c == i) for i in top}
    start = {r[0]: r[4] for r in dump["features"]}
    return {"ids_sorted": sorted(ids), "relations": rel, "count": len(ids), "types": sorted({r[3] for r in dump["features"]}),
            "children": ch, "parents": pa, "directives": [r[0] for r in dump["directives"]], "by_id": [start[i] for i in top]}


def reader_problem(obs, exp, solo_obs):
    if sorted(obs["ids"]) != exp["ids_sorted"]:
        return "all_features() gave %d ids, the file holds %d" % (len(obs["ids"]), exp["count"])
    for k in ("relations", "count", "types", "children", "parents", "directives", "by_id"):
        if obs[k] != exp[k]:
            return "%s differs from the content of the file: %r..." % (k, str(obs[k])[:200])
    if solo_obs is not None and (obs["ids"] != solo_obs["ids"] or obs["lines"] != solo_obs["lines"]):
        return "order or rendering of all_features() differs from what a solitary reader sees"
    return None


def unit_bounded_readers(U):
    W = World(60 if U.thorough else 30, variants=(0, 1))
    fails, cases, distinct = [], 0, set()
    pairs_total = peak_max = 0
    try:
        counts = [2, 3, 6] if not U.thorough else process_counts(True)
        modes = ("barrier-then-open", "open-then-barrier", "all-mid-iteration", "staggered")
        for fmt, v in (("gff3", 0), ("gtf", 1)):
            W.solitary(fmt, v, {})
            d = W.fresh("finished")
            dbfn = os.path.join(d, "finished.db")
            rf = W.resfile()
            st = _reap([_spawn(_import_child, rf, {"data": W.inputs[(fmt, v)], "dbfn": dbfn, "kwargs": {}}, W.shared, None)])
            W.clean_shared()
            dump = dump_file(dbfn)
            exp = reader_expect(dump) if "features" in dump else None
            if exp is None or describe_diff(W.solitary(fmt, v, {}), dump):
                fails.append({"case": {"build": [fmt, v]}, "expected": "finished database", "observed": str(dump)[:300]})
                continue
            with open(dbfn, "rb") as fh:
                digest = hashlib.sha1(fh.read()).hexdigest()
            # one solitary reader
            b1 = _MP.Barrier(1)
            rf = W.resfile()
            st = _reap([_spawn(_reader_child, rf, dbfn, W.shared, "barrier-then-open", 0.0, b1, b1)])
            solo = _result(rf, list(st.values())[0])
            cases += 1
            distinct.add((fmt, 1, "solitary"))
            if not solo.get("ok") or reader_problem(solo["obs"], exp, None):
                fails.append({"case": {"db": [fmt, v], "readers": 1}, "expected": "full content",
                              "observed": solo.get("error") or reader_problem(solo["obs"], exp, None)})
                continue
            read_time = solo["t1"] - solo["t0"]
            for n in counts:
                for mode in modes:
                    if len(fails) >= MAX_FAILS:
                        break
                    b1, b2 = _MP.Barrier(n), _MP.Barrier(n)
                    offs = [0.0] * n if mode != "staggered" else [U.rng.uniform(0, read_time) for _ in range(n)]
                    rfs, pids = [], []
                    for i in range(n):
                        rf = W.resfile()
                        rfs.append(rf)
                        pids.append(_spawn(_reader_child, rf, dbfn, W.shared, mode if mode != "staggered" else "barrier-then-open", offs[i], b1, b2))
                    st = _reap(pids, 2 * WAIT)
                    results = [_result(rf, st[p]) for rf, p in zip(rfs, pids)]
                    cases += 1
                    distinct.add((fmt, n, mode))
                    case = {"db": {"format": fmt, "variant": v, "n_genes": W.n_genes}, "readers": n, "mode": mode, "offsets": [round(o, 4) for o in offs]}
                    probs = []
                    for i, r in enumerate(results):
                        prob = (r.get("error") or "failed") if not r.get("ok") else reader_problem(r["obs"], exp, solo["obs"])
                        if prob:
                            probs.append({"case": dict(case, reader=i), "expected": "%d features, %d relations, same children/parents/directives" % (
                                exp["count"], len(exp["relations"])), "observed": prob})
                    # readers that merely gave up waiting for a failed one are reported after the failed one
                    fails.extend(sorted(probs, key=lambda f: "BrokenBarrier" in f["observed"]))
                    with open(dbfn, "rb") as fh:
                        if hashlib.sha1(fh.read()).hexdigest() != digest:
                            fails.append({"case": dict(case, check="file_unchanged"), "expected": "finished file unchanged by readers", "observed": "bytes changed"})
                            with open(dbfn, "rb") as fh2:
                                digest = hashlib.sha1(fh2.read()).hexdigest()
                    check_tmp(W, (), dict(case, check="tempdir_clean"), fails)
                    p, pk = concurrency(results)
                    pairs_total += p
                    peak_max = max(peak_max, pk)
        fails.extend(W.selfcheck)
    finally:
        W.close()
    U.bounded_result(
        "C20.bounded.concurrent_readers",
        "what each of n concurrent FeatureDB readers of one finished file observes (all_features ids/order/rendering, relations, counts, "
        "featuretypes, children/parents of 40 ids, directives, lookup by id) == the content of the file read with plain sqlite3 and what a solitary reader sees",
        "reader counts %s x modes %s x a GFF3-built and a GTF-built database (%d genes)" % (counts, list(modes), W.n_genes),
        cases, fails, distinct=len(distinct), sample={"pairs_of_readers_overlapping_in_time": pairs_total, "peak_simultaneous_readers": peak_max})


# ----------------------------------------------------------------------------------------------
# unit 4: from_string inputs (known defect F13: the DataIterator temp file is left behind)
# ----------------------------------------------------------------------------------------------
def unit_bounded_from_string(U):
    W = World(20 if not U.thorough else 40, variants=(0, 1))
    fails, cases, distinct = [], 0, set()
    counts = [1, 2, 6] if not U.thorough else [1, 2, 6, 17, 32]
    try:
        for n in counts:
            for scheme in ("onedir", "samebase", "memory"):
                if n > 6 and scheme != "samebase":
                    continue
                picks = [(("gff3", "gtf")[i % 2], (i // 2) % 2, {}) for i in range(n)]
                jobs, allowed = make_jobs(W, picks, scheme, [0.0] * n, from_string=True)
                case = {"processes": n, "outputs": scheme, "from_string": True, "n_genes": W.n_genes, "jobs": [job_case(W, j) for j in jobs]}
                results = run_round(W, jobs)
                cases += 1
                distinct.add((n, scheme))
                check_jobs(W, jobs, results, case, fails)
                check_tmp(W, allowed, case, fails)
        fails.extend(W.selfcheck)
    finally:
        W.close()
    U.bounded_result(
        "C20.bounded.from_string_tempfile",
        "n concurrent create_db(text, from_string=True) processes sharing one temp dir: every database == the solitary run's and the shared "
        "temp dir lists exactly what it listed before (case['check'] tells which of the two failed)",
        "process counts %s x output placements {onedir, samebase, memory} (samebase only above 6 processes), alternating GFF3/GTF text of "
        "2 gene models (%d genes)" % (counts, W.n_genes),
        cases, fails, distinct=len(distinct))


def unit_bounded_warm_parent(U):
    """The processes that import at the same time may be forked by a process that has itself imported before (a worker pool
    started by a script that already built a database): whatever that first import left behind in the parent - open handles,
    cached objects - the children inherit it, and each of them must still build the solitary run's database"""
    W = World(20 if not U.thorough else 40, variants=(0, 1))
    fails, cases, distinct = [], 0, set()
    counts = [2, 6] if not U.thorough else [2, 6, 17, 32]
    try:
        own = W.fresh("parent")
        saved = (os.environ.get("TMPDIR"), tempfile.tempdir)
        _use_tmp(W.shared)
        sys.stderr.flush()
        keep2 = os.dup(2)                        # the GTF importer writes a progress line to stderr unconditionally
        devnull = os.open(os.devnull, os.O_WRONLY)
        os.dup2(devnull, 2)
        try:
            for fmt in ("gff3", "gtf"):
                for target in (":memory:", os.path.join(own, "first_%s.db" % fmt)):
                    db = gffutils.create_db(W.inputs[(fmt, 1)], target)
                    db.update(W.inputs[(fmt, 0)], merge_strategy="replace", make_backup=False)
                    db.conn.close()
        finally:
            os.dup2(keep2, 2)
            os.close(keep2)
            os.close(devnull)
            if saved[0] is None:
                os.environ.pop("TMPDIR", None)
            else:
                os.environ["TMPDIR"] = saved[0]
            tempfile.tempdir = saved[1]
        check_tmp(W, (), {"step": "imports of the parent process before forking"}, fails)
        for n in counts:
            for scheme in ("onedir", "memory"):
                for offs_name in ("together", "staggered"):
                    picks = [(("gff3", "gff3", "gtf")[i % 3], (i // 3) % 2, {}) for i in range(n)]
                    offs = [0.0] * n if offs_name == "together" else [0.02 * i for i in range(n)]
                    jobs, allowed = make_jobs(W, picks, scheme, offs)
                    case = {"processes": n, "outputs": scheme, "offsets": offs_name, "history": "the forking process ran GFF3 and GTF imports and updates before forking",
                            "n_genes": W.n_genes, "jobs": [job_case(W, j) for j in jobs]}
                    results = run_round(W, jobs)
                    cases += 1
                    distinct.add((n, scheme, offs_name))
                    check_jobs(W, jobs, results, case, fails)
                    check_tmp(W, allowed, case, fails)
        fails.extend(W.selfcheck)
    finally:
        W.close()
    U.bounded_result(
        "C20.bounded.forked_after_parent_import",
        "n concurrent create_db processes forked by a process that imported before: every database == the solitary run's; shared temp dir as before",
        "process counts %s x {onedir, memory} x {together, staggered}, 2 GFF3 : 1 GTF inputs of 2 gene models (%d genes)" % (counts, W.n_genes),
        cases, fails, distinct=len(distinct))


def unit_bounded_prefix_outputs(U):
    """Separate output files are separate whatever their NAMES: runs that overwrite old outputs (force=True) in one folder,
    where one output's name is a prefix of the others' (anno.db, anno.db.1, anno.db.2 - numbered copies next to each other),
    started so that the prefix-named run begins while / after the others wrote theirs"""
    W = World(20 if not U.thorough else 40, variants=(0, 1))
    fails, cases, distinct = [], 0, set()
    try:
        W.solitary("gff3", 0, {})
        total = W.life[W.key("gff3", 0, {})][2]
        for n in ((3, 6) if not U.thorough else (3, 6, 12)):
            for late in (0.5, 1.5, 3.0):
                d = W.fresh("out")
                names = ["anno.db"] + ["anno.db.%d" % i for i in range(1, n)]
                picks = [(("gff3", "gtf")[i % 2], (i // 2) % 2, {}) for i in range(n)]
                jobs = []
                for i, ((fmt, v, kw), name) in enumerate(zip(picks, names)):
                    pth = os.path.join(d, name)
                    with open(pth, "w") as fh:
                        fh.write("an old output that force=True is to replace")
                    jobs.append({"fmt": fmt, "variant": v, "kwargs": kw, "data": W.inputs[(fmt, v)], "dbfn": pth, "cwd": None, "final": pth,
                                 "offset": (late * total if i == 0 else 0.0), "from_string": False, "force": True})
                case = {"processes": n, "outputs": names, "force": True, "the run writing 'anno.db' starts after": "%.1f x the duration of a solitary run" % late,
                        "n_genes": W.n_genes, "jobs": [job_case(W, j) for j in jobs]}
                results = run_round(W, jobs)
                cases += 1
                distinct.add((n, late))
                for j in jobs:
                    if not os.path.isfile(j["final"]):
                        fails.append({"case": dict(case, check="output_exists"), "expected": "%s exists after its run finished" % os.path.basename(j["final"]), "observed": sorted(os.listdir(d))})
                check_jobs(W, [j for j in jobs if os.path.isfile(j["final"])], [r for j, r in zip(jobs, results) if os.path.isfile(j["final"])], case, fails)
                check_tmp(W, (), case, fails)
        fails.extend(W.selfcheck)
    finally:
        W.close()
    U.bounded_result(
        "C20.bounded.prefix_named_outputs",
        "n concurrent create_db(force=True) runs whose output names extend one another's: every output exists afterwards and == the solitary run's",
        "3 / 6 processes x the prefix-named run starting 0.5 / 1.5 / 3 solitary durations after the others (2 gene models, %d genes)" % W.n_genes,
        cases, fails, distinct=len(distinct))


UNITS = [
    ("bounded.prefix_named_outputs", unit_bounded_prefix_outputs),
    ("bounded.forked_after_parent_import", unit_bounded_warm_parent),
    ("bounded.concurrent_imports", unit_bounded_imports),
    ("bounded.forced_interleaving", unit_bounded_interleave),
    ("bounded.concurrent_readers", unit_bounded_readers),
    ("bounded.from_string_tempfile", unit_bounded_from_string),
]
