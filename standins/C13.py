"""Bounded run-time stand-in for C13: all input forms are equivalent, dialect peeking never
consumes data, a transform is applied exactly once, inspect() counts exactly what was iterated.

Everything here runs the REAL gffutils code natively.  The oracle is written from the statement:
the expected feature sequence is an independent parse of the annotation's lines (split on tabs,
';', '=' and ','), the expected effect of a transform is computed by a model of the transform on
those parsed records, the expected GFF3 database is "one row per kept line, keyed by ID or
<featuretype>_<k>, relations = paths over the Parent attribute", and the expected inspect() result
is a multiset count over a prefix of the expected sequence.

Units
  bounded.sequence   DataIterator(form) item sequence, transform call log, peek window
                     (+ the separately reported known-defect result C13.bounded.transform_truthiness)
  bounded.create_db  create_db(form) database (GFF3 against the oracle, GTF across forms)
  bounded.update     FeatureDB.update(form) database
  bounded.inspect    inspect(form, look_for, limit)
"""
import collections
import contextlib
import gzip
import io
import itertools
import os
import shutil
import tempfile

import gffutils
from gffutils import constants
from gffutils.feature import feature_from_line
from gffutils.inspect import inspect as gff_inspect

MAXFAIL = 60          # failures kept per result (the count of cases is unaffected)
COLS = ("seqid", "source", "featuretype", "start", "end", "score", "strand", "frame")


# ======================================================================================= oracle
def parse_line(line, fmt="gff3"):
    """Independent parse of one canonical annotation line -> record dict."""
    cols = line.split("\t")
    assert len(cols) == 9, line
    num = lambda x: None if x == "." else int(x)
    attrs = collections.OrderedDict()
    a = cols[8]
    if fmt == "gff3":
        for item in a.split(";"):
            if item:
                k, v = item.split("=", 1)
                attrs[k] = v.split(",")
    else:
        for item in a.split(";"):
            item = item.strip()
            if item:
                k, v = item.split(" ", 1)
                attrs.setdefault(k, []).append(v.strip('"'))
    return {"seqid": cols[0], "source": cols[1], "featuretype": cols[2], "start": num(cols[3]), "end": num(cols[4]),
            "score": cols[5], "strand": cols[6], "frame": cols[7], "attrs": attrs}


def rec_key(r):
    return tuple(r[c] for c in COLS) + (tuple(sorted((k, tuple(v)) for k, v in r["attrs"].items())), ())


def feat_key(f):
    return tuple(getattr(f, c) for c in COLS) + (tuple(sorted((k, tuple(v)) for k, v in f.attributes.items())), tuple(f.extra))


def copy_rec(r):
    d = dict(r)
    d["attrs"] = collections.OrderedDict((k, list(v)) for k, v in r["attrs"].items())
    return d


# ----------------------------------------------------------------------------------- transforms
FALSY = (None, False, 0, "", [], {}, 0.0, ())


class Transform(object):
    """A transform given twice: `model` on oracle records (returns a record or None = skipped) and
    `real(log)` a callable for gffutils that appends the key of every feature it is handed to log."""
    name = "none"

    def model(self, r):
        return r

    def real(self, log):
        return None


def _slot(start):
    return (start or 0) // 100


class TDrop(Transform):
    """returns a false value (cycling through None/False/0/''/[]/{}/0.0/()) for CDS lines and for every
    third position slot, the unchanged feature otherwise"""
    name = "drop"

    def dropped(self, ft, start):
        return ft == "CDS" or _slot(start) % 3 == 2

    def model(self, r):
        return None if self.dropped(r["featuretype"], r["start"]) else r

    def real(self, log):
        def tf(f):
            log.append(feat_key(f))
            if self.dropped(f.featuretype, f.start):
                v = FALSY[_slot(f.start) % len(FALSY)]
                return type(v)() if isinstance(v, (list, dict)) else v
            return f
        return tf


class TModify(Transform):
    """in place and NOT idempotent: source += '+', end += 1, attribute tag=t; returns the same object"""
    name = "modify"

    def model(self, r):
        r = copy_rec(r)
        r["source"] += "+"
        r["end"] += 1
        r["attrs"]["tag"] = ["t"]
        return r

    def real(self, log):
        def tf(f):
            log.append(feat_key(f))
            f.source = f.source + "+"
            f.end = f.end + 1
            f.attributes["tag"] = ["t"]
            return f
        return tf


class TFresh(Transform):
    """returns a NEW Feature object (score 7, attribute n incremented) for non-mRNA lines, None for mRNA"""
    name = "fresh"

    def model(self, r):
        if r["featuretype"] == "mRNA":
            return None
        r = copy_rec(r)
        r["score"] = "7"
        r["attrs"]["n"] = [str(int(r["attrs"].get("n", ["0"])[0]) + 1)]
        return r

    def real(self, log):
        def tf(f):
            log.append(feat_key(f))
            if f.featuretype == "mRNA":
                return None
            attrs = {k: list(v) for k, v in f.attributes.items()}
            attrs["n"] = [str(int(attrs.get("n", ["0"])[0]) + 1)]
            return gffutils.Feature(seqid=f.seqid, source=f.source, featuretype=f.featuretype, start=f.start, end=f.end,
                                    score="7", strand=f.strand, frame=f.frame, attributes=attrs, extra=list(f.extra),
                                    dialect=f.dialect)
        return tf


class TDropAll(Transform):
    """returns None for everything"""
    name = "dropall"

    def model(self, r):
        return None

    def real(self, log):
        def tf(f):
            log.append(feat_key(f))
            return None
        return tf


class TIdentity(Transform):
    name = "identity"

    def real(self, log):
        def tf(f):
            log.append(feat_key(f))
            return f
        return tf


# ======================================================================================= input forms
class OneShot(object):
    """one-shot iterator that is not a generator; counts successful pulls"""

    def __init__(self, items):
        self._it = iter(items)
        self.pulled = 0

    def __iter__(self):
        return self

    def __next__(self):
        x = next(self._it)
        self.pulled += 1
        return x


class ReIterable(object):
    """iterable without __next__ (a fresh iterator per pass)"""

    def __init__(self, items):
        self.items = items

    def __iter__(self):
        return iter(self.items)


def _counting_gen(items, box):
    for x in items:
        box[0] += 1
        yield x


class Ann(object):
    """One annotation rendered in all the concrete shapes; files live in a private directory."""
    DECOR = True

    def __init__(self, lines, fmt, workdir, with_db=True):
        self.lines, self.fmt = list(lines), fmt
        self.recs = [parse_line(l, fmt) for l in self.lines]
        self.dir = tempfile.mkdtemp(prefix="ann_", dir=workdir)
        body = []
        if fmt == "gff3":
            body.append("##gff-version 3")
        for i, l in enumerate(self.lines):
            if i == 1:
                body.append("# a comment between features")
            if i == 2:
                body.append("")
            body.append(l)
        self.body = body
        self.text = "".join(l + "\n" for l in body)
        self.path = os.path.join(self.dir, "a.gff")
        with open(self.path, "w", newline="") as fh:
            fh.write(self.text)
        self.gzpath = os.path.join(self.dir, "a.gff.gz")
        with gzip.open(self.gzpath, "wb") as fh:
            fh.write(self.text.encode("utf-8"))
        self.crlfpath = os.path.join(self.dir, "b.gff")
        with open(self.crlfpath, "w", newline="") as fh:       # CRLF line ends, no final newline
            fh.write("\r\n".join(body))
        self.crlfgzpath = os.path.join(self.dir, "b.gff.gz")
        with gzip.open(self.crlfgzpath, "wb") as fh:
            fh.write("\r\n".join(body).encode("utf-8"))
        self.indented = "\n" + "".join(("        " + l if l else "") + "\n" for l in body) + "    "
        self._db = None
        self.with_db = with_db

    def feats(self):
        return [feature_from_line(l) for l in self.lines]

    def db(self):
        """A FeatureDB holding exactly this annotation (built once, never modified)."""
        if self._db is None:
            fs = self.feats()
            if self.fmt == "gff3":
                from contracts.qharness import native_db
                ids = oracle_ids(self.recs)
                for f, i in zip(fs, ids):
                    f.id = i
                self._db = native_db(fs)
            else:
                with quiet():
                    self._db = gffutils.create_db(fs, ":memory:", disable_infer_genes=True, disable_infer_transcripts=True)
        return self._db

    def close(self):
        if self._db is not None:
            try:
                self._db.conn.close()
            except Exception:
                pass
        shutil.rmtree(self.dir, ignore_errors=True)


@contextlib.contextmanager
def quiet():
    """the GTF importer writes progress to stderr"""
    buf = io.StringIO()
    with contextlib.redirect_stderr(buf):
        yield


# name -> (family, builder(ann, mk) -> (data, kwargs, pulled_fn))
#   mk(inner, **kw) builds a ready-made DataIterator with the case's checklines / transform / mode
def _f_path(a, mk):
    return a.path, {}, None


def _f_gz(a, mk):
    return a.gzpath, {}, None


def _f_crlf(a, mk):
    return a.crlfpath, {}, None


def _f_crlfgz(a, mk):
    return a.crlfgzpath, {}, None


def _f_string(a, mk):
    return a.text, {"from_string": True}, None


def _f_indented(a, mk):
    return a.indented, {"from_string": True}, None


def _f_list(a, mk):
    return a.feats(), {}, None


def _f_tuple(a, mk):
    return tuple(a.feats()), {}, None


def _f_reiter(a, mk):
    return ReIterable(a.feats()), {}, None


def _f_genfunc(a, mk):
    box = [0]
    return _counting_gen(a.feats(), box), {}, (lambda: box[0])


def _f_genexpr(a, mk):
    return (f for f in a.feats()), {}, None


def _f_iterlist(a, mk):
    return iter(a.feats()), {}, None


def _f_map(a, mk):
    return map(lambda f: f, a.feats()), {}, None


def _f_chain(a, mk):
    fs = a.feats()
    h = len(fs) // 2
    return itertools.chain(fs[:h], iter(fs[h:])), {}, None


def _f_oneshot(a, mk):
    o = OneShot(a.feats())
    return o, {}, (lambda: o.pulled)


def _f_di_path(a, mk):
    return mk(a.path), {}, None


def _f_di_gz(a, mk):
    return mk(a.gzpath), {}, None


def _f_di_string(a, mk):
    return mk(a.text, from_string=True), {}, None


def _f_di_list(a, mk):
    return mk(a.feats()), {}, None


def _f_di_oneshot(a, mk):
    o = OneShot(a.feats())
    return mk(o), {}, (lambda: o.pulled)


def _f_db(a, mk):
    return a.db(), {}, None


FORMS = collections.OrderedDict([
    ("path", ("file", _f_path)),
    ("gzip path", ("file", _f_gz)),
    ("path (CRLF, no final newline)", ("file", _f_crlf)),
    ("gzip path (CRLF, no final newline)", ("file", _f_crlfgz)),
    ("string", ("file", _f_string)),
    ("string (indented, dedent)", ("file", _f_indented)),
    ("list", ("feature", _f_list)),
    ("tuple", ("feature", _f_tuple)),
    ("re-iterable object", ("feature", _f_reiter)),
    ("generator function", ("oneshot", _f_genfunc)),
    ("generator expression", ("oneshot", _f_genexpr)),
    ("iter(list)", ("oneshot", _f_iterlist)),
    ("map object", ("oneshot", _f_map)),
    ("itertools.chain", ("oneshot", _f_chain)),
    ("custom __next__ object", ("oneshot", _f_oneshot)),
    ("DataIterator(path)", ("iterator", _f_di_path)),
    ("DataIterator(gzip path)", ("iterator", _f_di_gz)),
    ("DataIterator(string)", ("iterator", _f_di_string)),
    ("DataIterator(list)", ("iterator", _f_di_list)),
    ("DataIterator(custom __next__ object)", ("iterator", _f_di_oneshot)),
    ("FeatureDB", ("db", _f_db)),
])
STR_COMPARABLE = ("file", "feature", "oneshot", "iterator")      # features of a FeatureDB carry the db's dialect


@contextlib.contextmanager
def scratch():
    """private scratch dir under tempfile.gettempdir(); while active it is also tempfile.tempdir so that
    files gffutils itself leaves behind (from_string, GTF import) land in it and are removed with it."""
    old = tempfile.tempdir
    base = tempfile.gettempdir()
    work = tempfile.mkdtemp(prefix="c13_", dir=base)
    leak = os.path.join(work, "lib")
    os.mkdir(leak)
    tempfile.tempdir = leak
    try:
        yield work, leak
    finally:
        tempfile.tempdir = old
        shutil.rmtree(work, ignore_errors=True)


def sweep(leak):
    for n in os.listdir(leak):
        p = os.path.join(leak, n)
        try:
            if os.path.isdir(p):
                shutil.rmtree(p, ignore_errors=True)
            else:
                os.unlink(p)
        except OSError:
            pass


# ======================================================================================= annotations
def seq_line(kind, i):
    """line `kind` at position i; every line of an annotation is distinct (start = 100*(i+1))"""
    s = 100 * (i + 1)
    if kind == "g":
        return "chr1\tsrc\tgene\t%d\t%d\t.\t+\t.\tID=g%d;Name=n%d" % (s, s + 50, i, i)
    if kind == "t":
        return "chr1\tsrc\tmRNA\t%d\t%d\t0.5\t-\t.\tID=t%d;Parent=g0" % (s, s + 40, i)
    if kind == "e":
        return "chr2\tsrc2\texon\t%d\t%d\t.\t+\t.\tParent=t0;Note=a,b" % (s, s + 10)
    if kind == "c":
        return "chr1\tsrc\tCDS\t%d\t%d\t.\t+\t2\tID=c%d;Parent=t0,t1" % (s, s + 5, i)
    if kind == "r":
        return "chrX\tsrc\tregion\t%d\t%d\t.\t.\t.\tID=r%d" % (s, s, i)
    raise ValueError(kind)


def gtf_line(kind, i, g="g1", t="t1"):
    s = 100 * (i + 1)
    ft = {"e": "exon", "c": "CDS", "s": "start_codon"}[kind]
    return 'chr1\tsrc\t%s\t%d\t%d\t.\t+\t%s\tgene_id "%s"; transcript_id "%s";' % (ft, s, s + 30, "0" if kind == "c" else ".", g, t)


KINDS = "gtecr"


def sequence_annotations(U):
    """(fmt, lines): every sequence over 5 line kinds up to length 2 (3 thorough), then seeded random
    longer ones, then a few GTF ones"""
    L = 3 if U.thorough else 2
    for n in range(0, L + 1):
        for seq in itertools.product(KINDS, repeat=n):
            yield "gff3", [seq_line(k, i) for i, k in enumerate(seq)]
    for _ in range(80 if U.thorough else 10):
        n = U.rng.randint(L + 1, 13 if U.thorough else 7)
        yield "gff3", [seq_line(U.rng.choice(KINDS), i) for i in range(n)]
    for n in ((1, 2, 3, 5) if U.thorough else (1, 3)):
        yield "gtf", [gtf_line("ecs"[i % 3], i, t="t%d" % (1 + i // 3)) for i in range(n)]


def hierarchy(ng, nt, ne, cds, shared=False):
    """gene -> mRNA -> exon (no ID) [+ CDS (no ID)]; `shared`: the first exon of a gene belongs to all its mRNAs"""
    out = []
    for g in range(ng):
        out.append(("g", "chr1\tsrc\tgene\t{s}\t{e}\t.\t+\t.\tID=g%d;Name=n%d" % (g, g)))
        for t in range(nt):
            tid = "t%d_%d" % (g, t)
            out.append(("t", "chr1\tsrc\tmRNA\t{s}\t{e}\t.\t+\t.\tID=%s;Parent=g%d" % (tid, g)))
            for e in range(ne):
                par = tid
                if shared and e == 0:
                    if t > 0:
                        continue
                    par = ",".join("t%d_%d" % (g, x) for x in range(nt))
                out.append(("e", "chr1\tsrc\texon\t{s}\t{e}\t.\t+\t.\tParent=%s" % par))
            if cds:
                out.append(("c", "chr1\tsrc\tCDS\t{s}\t{e}\t.\t+\t0\tParent=%s;Note=x,y" % tid))
    return out


def place(templates):
    return [t.format(s=100 * (i + 1), e=100 * (i + 1) + 60) for i, (_, t) in enumerate(templates)]


def db_annotations(U, quick_shapes, thorough_shapes):
    shapes = thorough_shapes if U.thorough else quick_shapes
    for (ng, nt, ne, cds, shared, order) in shapes:
        h = hierarchy(ng, nt, ne, cds, shared)
        if order == "rev":
            h = h[::-1]
        elif order == "shuf":
            U.rng.shuffle(h)
        yield "gff3", place(h), order


# ======================================================================================= database oracle
def oracle_ids(recs):
    """ID attribute if present, otherwise <featuretype>_<k> counting from 1 per featuretype in arrival order"""
    cnt = collections.Counter()
    out = []
    for r in recs:
        if "ID" in r["attrs"]:
            out.append(r["attrs"]["ID"][0])
        else:
            cnt[r["featuretype"]] += 1
            out.append("%s_%d" % (r["featuretype"], cnt[r["featuretype"]]))
    return out


def oracle_db(recs, ids):
    """GFF3: rows in arrival order; relations: (p, c, 1) for every Parent value p of a stored line c (p need not be
    stored), (g, c, 2) for every stored g with g -> m -> c (the hierarchies used here have three ranks)"""
    rows = [(i, rec_key(r)) for i, r in zip(ids, recs)]
    l1 = set()
    for i, r in zip(ids, recs):
        for p in r["attrs"].get("Parent", []):
            l1.add((p, i))
    rel = set((p, c, 1) for p, c in l1)
    stored = set(ids)
    rel |= set((g, c, 2) for (g, m) in l1 for (m2, c) in l1 if m == m2 and g in stored)
    return rows, sorted(rel)


def real_db(db):
    rows = [(f.id, feat_key(f)) for f in db.all_features()]
    rel = sorted(tuple(r) for r in db.conn.execute("SELECT parent, child, level FROM relations"))
    return rows, rel


def jrows(rows):
    return [[i, "\t".join(map(str, k[:8])), ";".join("%s=%s" % (a, ",".join(v)) for a, v in k[8])] for i, k in rows]


def jkeys(keys):
    return [["\t".join(map(str, k[:8])), ";".join("%s=%s" % (a, ",".join(v)) for a, v in k[8])] for k in keys]


# ======================================================================================= unit 1: sequence
def unit_sequence(U):
    fails, cases, distinct = [], 0, set()
    pfails, pcases = [], 0
    transforms = [Transform(), TDrop(), TModify(), TFresh(), TDropAll()]

    def fail(lst, case, expected, observed):
        if len(lst) < MAXFAIL:
            lst.append({"case": case, "expected": expected, "observed": observed})

    with scratch() as (work, leak):
        nann = 0
        for fmt, lines in sequence_annotations(U):
            nann += 1
            ann = Ann(lines, fmt, work)
            n = len(lines)
            raw = [rec_key(r) for r in ann.recs]
            gff3_dialect = dict(constants.dialect)
            for T in transforms:
                if fmt == "gtf" and T.name in ("fresh", "dropall"):
                    continue
                kept = [T.model(copy_rec(r)) for r in ann.recs]
                exp = [rec_key(r) for r in kept if r is not None]
                for c in range(0, n + 3):
                    modes = [("auto", {})]
                    if fmt == "gff3" and c in (0, n + 2):
                        modes += [("force_dialect_check", {"force_dialect_check": True}), ("dialect", {"dialect": gff3_dialect})]
                    for mode, mkw in modes:
                        ref_strs = None
                        for fname, (family, build) in FORMS.items():
                            if family == "db" and n == 0 and fmt == "gtf":
                                continue
                            log = []
                            tf = T.real(log)
                            case = {"lines": lines, "form": fname, "checklines": c, "transform": T.name, "mode": mode}
                            cases += 1
                            distinct.add((nann, T.name, c, mode, fname))

                            def mk(inner, **kw):
                                kw.update(mkw)
                                return gffutils.DataIterator(inner, checklines=c, transform=tf, **kw)
                            try:
                                data, kw, pulled = build(ann, mk)
                                kw = dict(kw)
                                kw.update(mkw)
                                it = gffutils.DataIterator(data, checklines=c, transform=tf, **kw)
                                if family == "iterator" and it is not data:
                                    fail(fails, case, "DataIterator(iterator) is iterator", "a different object")
                                # -- the look-ahead window
                                if mode == "auto":
                                    pcases += 1
                                    w = min(c + 1, n)
                                    pk = [feat_key(f) for f in it._peek]
                                    if pk != raw[:w]:
                                        fail(pfails, case, {"peek": jkeys(raw[:w])}, {"peek": jkeys(pk)})
                                    elif pulled is not None and pulled() != w:
                                        fail(pfails, case, {"items pulled from the one-shot source by peeking": w}, {"pulled": pulled()})
                                got_f = list(it)
                                got = [feat_key(f) for f in got_f]
                                strs = [str(f) for f in got_f] if mode == "auto" else None
                            except Exception as e:
                                fail(fails, case, {"sequence": jkeys(exp)}, "exception %r" % (e,))
                                continue
                            if got != exp:
                                fail(fails, case, {"sequence": jkeys(exp)}, {"sequence": jkeys(got)})
                                continue
                            if tf is not None and log != raw:
                                fail(fails, case, {"transform called once per input item, in order": jkeys(raw)}, {"calls": jkeys(log)})
                                continue
                            if mode == "auto" and family in STR_COMPARABLE:
                                if ref_strs is None:
                                    ref_strs = (fname, strs)
                                elif strs != ref_strs[1]:
                                    fail(fails, case, {"str() of the items as for form %s" % ref_strs[0]: ref_strs[1]}, {"str": strs})
                    sweep(leak)
            ann.close()

        # ---- known defect F11, reported separately
        tfails, tcases = [], 0
        specials = [("dot coordinates", "chr1\tsrc\tregion\t.\t.\t.\t+\t.\tID=d1;Name=x"),
                    ("zero-length feature (end == start-1)", "chr1\tsrc\tregion\t250\t249\t.\t+\t.\tID=z1;Name=x"),
                    ("negative-length feature (end < start-1)", "chr1\tsrc\tregion\t250\t240\t.\t+\t.\tID=n1;Name=x")]
        for label, special in specials:
            for pos in (0, 1, 2):
                lines = [seq_line("g", 0), seq_line("r", 3)]
                lines.insert(pos, special)
                ann = Ann(lines, "gff3", work)
                raw = [rec_key(r) for r in ann.recs]
                for fname in ("path", "string", "list", "generator function", "custom __next__ object", "DataIterator(path)", "FeatureDB"):
                    if fname == "FeatureDB" and label.startswith("dot"):
                        continue    # a stored '.' coordinate is C01's business
                    family, build = FORMS[fname]
                    for c in (0, 1, 5):
                        log = []
                        tf = TIdentity().real(log)
                        tcases += 1
                        case = {"input": label, "lines": lines, "form": fname, "checklines": c, "transform": "identity (returns the feature it is given)"}

                        def mk(inner, **kw):
                            return gffutils.DataIterator(inner, checklines=c, transform=tf, **kw)
                        try:
                            data, kw, _ = build(ann, mk)
                            got = [feat_key(f) for f in gffutils.DataIterator(data, checklines=c, transform=tf, **kw)]
                        except Exception as e:
                            fail(tfails, case, {"sequence": jkeys(raw)}, "exception %r" % (e,))
                            continue
                        if got != raw:
                            fail(tfails, case, {"sequence": jkeys(raw)}, {"sequence": jkeys(got)})
                sweep(leak)
                ann.close()

    L = 3 if U.thorough else 2
    scope = ("GFF3: all sequences of length 0..%d over 5 line kinds (gene, mRNA, exon without ID, CDS with two parents, "
             "single-attribute region) + %d seeded random ones of length %d..%d, GTF: %d exon/CDS/start_codon files; files carry a "
             "directive, a comment and a blank line; x %d input forms (path, gzip, CRLF/no final newline plain and gzip, string, indented string, "
             "list, tuple, re-iterable, generator function/expression, iter(list), map, chain, custom __next__ object, "
             "ready-made DataIterator over path/gzip/string/list/one-shot, FeatureDB) x checklines 0..n+2 x transform in "
             "{none, drop (8 false values), modify in place, fresh object, drop all}; force_dialect_check / explicit dialect at "
             "checklines 0 and n+2" % (L, 80 if U.thorough else 10, L + 1, 13 if U.thorough else 7, 4 if U.thorough else 2, len(FORMS)))
    U.bounded_result("C13.bounded.sequence",
                     "items of DataIterator(form, checklines, transform) == independent parse of the lines with the transform model applied "
                     "(skipped iff false value); transform call log == the input items once each, in order; str() of the items equal across non-database forms",
                     scope, cases, fails, distinct=len(distinct),
                     sample={"lines": [seq_line("g", 0), seq_line("t", 1)], "form": "iter(list)", "checklines": 0, "transform": "drop"})
    U.bounded_result("C13.bounded.peek",
                     "the look-ahead window (_peek) == the first min(checklines+1, n) untransformed items, and exactly that many items were pulled from a counting one-shot source",
                     "same cases as C13.bounded.sequence, automatic dialect mode", pcases, pfails, distinct=pcases)
    U.bounded_result("C13.bounded.transform_truthiness",
                     "a transform returning the (true) Feature object it was given keeps the feature also when the feature has '.' coordinates, zero or negative length (defect F11)",
                     "3 special lines x 3 positions in a 3-line file x 7 forms x checklines {0, 1, 5}, identity transform",
                     tcases, tfails, distinct=tcases)


# ======================================================================================= units 2 and 3: databases
CREATE_Q = [(1, 0, 0, False, False, "top"), (1, 1, 1, True, False, "top"), (1, 2, 2, False, True, "rev"), (2, 1, 1, True, False, "shuf")]
CREATE_T = CREATE_Q + [(1, 1, 0, False, False, "top"), (1, 1, 2, True, False, "rev"), (1, 2, 1, True, False, "shuf"), (2, 2, 1, False, True, "top"),
                       (2, 1, 2, True, False, "shuf"), (3, 1, 1, False, False, "rev"), (1, 3, 2, True, True, "shuf")]
UPDATE_Q = [(1, 1, 1, True, False, "top"), (1, 2, 1, False, True, "shuf")]
UPDATE_T = UPDATE_Q + [(1, 1, 2, False, False, "rev"), (2, 1, 1, True, False, "top"), (2, 2, 1, False, False, "shuf"), (1, 2, 2, True, True, "top")]


def _db_case(ann, fname, c, T, how, split=0):
    """run the real code; returns (rows, relations, directives)"""
    family, build = FORMS[fname]
    log = []
    tf = T.real(log)

    def mk(inner, **kw):
        return gffutils.DataIterator(inner, checklines=c, transform=tf, **kw)
    data, kw, _ = build(ann, mk)
    kw = dict(kw)
    with quiet():
        if how == "create":
            db = gffutils.create_db(data, ":memory:", checklines=c, transform=tf, **kw)
        else:
            db = gffutils.create_db([feature_from_line(l) for l in ann.base_lines], ":memory:")
            db.update(data, make_backup=False, checklines=c, transform=tf, **kw)
    rows, rel = real_db(db)
    d = list(db.directives)
    db.conn.close()
    return rows, rel, d, log


def unit_create_db(U):
    fails, cases, distinct = [], 0, set()
    gfails, gcases = [], 0
    transforms = [Transform(), TDrop(), TModify(), TFresh()]

    def fail(lst, case, expected, observed):
        if len(lst) < MAXFAIL:
            lst.append({"case": case, "expected": expected, "observed": observed})

    maxn = 0
    with scratch() as (work, leak):
        nann = 0
        for fmt, lines, _order in db_annotations(U, CREATE_Q, CREATE_T):
            nann += 1
            ann = Ann(lines, fmt, work)
            n = len(lines)
            maxn = max(maxn, n)
            for T in transforms:
                kept = [r for r in (T.model(copy_rec(r)) for r in ann.recs) if r is not None]
                if not kept:
                    continue
                erows, erel = oracle_db(kept, oracle_ids(kept))
                raw = [rec_key(r) for r in ann.recs]
                for c in range(0, n + 3):
                    for fname, (family, _) in FORMS.items():
                        if not U.thorough and n > 4 and c not in (0, 1, n - 2, n - 1, n, n + 2) and family not in ("oneshot",):
                            continue
                        cases += 1
                        distinct.add((nann, T.name, c, fname))
                        case = {"lines": lines, "form": fname, "checklines": c, "transform": T.name, "call": "create_db"}
                        exp = {"features": jrows(erows), "relations": erel}
                        try:
                            rows, rel, d, log = _db_case(ann, fname, c, T, "create")
                        except Exception as e:
                            fail(fails, case, exp, "exception %r" % (e,))
                            continue
                        if rows != erows or rel != erel:
                            fail(fails, case, exp, {"features": jrows(rows), "relations": rel})
                        elif T.name != "none" and log != raw:
                            fail(fails, case, {"transform called once per input item, in order": jkeys(raw)}, {"calls": jkeys(log)})
                        elif d != (["gff-version 3"] if family == "file" or fname in ("DataIterator(path)", "DataIterator(gzip path)", "DataIterator(string)") else []):
                            fail(fails, case, {"directives": "['gff-version 3'] for file forms, [] otherwise"}, {"directives": d})
                sweep(leak)
            ann.close()

        # ---- GTF: the stored lines against the oracle, the whole database (inferred transcripts / genes) across forms and checklines
        gtf_sets = [[gtf_line("e", 0), gtf_line("c", 1), gtf_line("e", 2)],
                    [gtf_line("e", 0, t="t1"), gtf_line("e", 1, t="t2"), gtf_line("c", 2, t="t2"), gtf_line("s", 3, t="t1"), gtf_line("e", 4, g="g2", t="t3")]]
        if U.thorough:
            gtf_sets.append([gtf_line("ecs"[U.rng.randrange(3)], i, g="g%d" % U.rng.randint(1, 2), t="t%d" % U.rng.randint(1, 3)) for i in range(7)])
            gtf_sets.append([gtf_line("e", 0)])
        for lines in gtf_sets:
            # a transcript id must not be shared by two genes in these files
            seen = {}
            lines = [l for l in lines if seen.setdefault(parse_line(l, "gtf")["attrs"]["transcript_id"][0], parse_line(l, "gtf")["attrs"]["gene_id"][0]) == parse_line(l, "gtf")["attrs"]["gene_id"][0]]
            ann = Ann(lines, "gtf", work)
            n = len(lines)
            for T in [Transform(), TDrop(), TModify()]:
                kept = [r for r in (T.model(copy_rec(r)) for r in ann.recs) if r is not None]
                if not kept:
                    continue
                elines = list(zip(oracle_ids(kept), [rec_key(r) for r in kept]))
                ref = None
                for c in (range(0, n + 3) if U.thorough else (0, 1, n - 1, n, n + 2)):
                    for fname, (family, _) in FORMS.items():
                        gcases += 1
                        case = {"lines": lines, "form": fname, "checklines": c, "transform": T.name, "call": "create_db (GTF)"}
                        try:
                            rows, rel, d, log = _db_case(ann, fname, c, T, "create")
                        except Exception as e:
                            fail(gfails, case, {"stored lines": jrows(elines)}, "exception %r" % (e,))
                            continue
                        stored = [(i, k) for i, k in rows if k[2] not in ("gene", "transcript")]
                        if stored != elines:
                            fail(gfails, case, {"stored lines": jrows(elines)}, {"stored lines": jrows(stored)})
                        elif ref is None:
                            ref = (fname, c, sorted(rows), rel)
                        elif (sorted(rows), rel) != ref[2:]:
                            fail(gfails, case, {"same database as form %s checklines %d" % ref[:2]: {"features": jrows(ref[2]), "relations": ref[3]}},
                                 {"features": jrows(sorted(rows)), "relations": rel})
                    sweep(leak)
            ann.close()

    U.bounded_result("C13.bounded.create_db",
                     "create_db(form, checklines, transform) == one row per kept line in arrival order (id = ID or <featuretype>_<k>), relations = paths over Parent; "
                     "transform called once per line; leading directive kept for file forms",
                     "GFF3 gene/mRNA/exon(/CDS) hierarchies: %d shapes (1-3 genes, 0-3 mRNAs, 0-2 exons without ID, shared exons, top-down / reversed / shuffled order, n <= %d lines) "
                     "x %d input forms x checklines 0..n+2%s x transform {none, drop, modify, fresh}"
                     % (len(CREATE_T if U.thorough else CREATE_Q), maxn, len(FORMS), "" if U.thorough else " (thinned to {0,1,n-2,n-1,n,n+2} for re-readable forms when n > 4)"),
                     cases, fails, distinct=len(distinct))
    U.bounded_result("C13.bounded.create_db_gtf",
                     "GTF create_db(form, checklines, transform): stored lines == kept lines in order with ids <featuretype>_<k>; whole database (with inferred transcripts and genes) identical for all forms and checklines",
                     "%d GTF files (1-7 exon/CDS/start_codon lines, 1-3 transcripts, 1-2 genes) x %d forms x checklines %s x transform {none, drop, modify}"
                     % (len(gtf_sets), len(FORMS), "0..n+2" if U.thorough else "{0,1,n-1,n,n+2}"),
                     gcases, gfails, distinct=gcases)


# Before /repo 285ec29 update() missed the level-2 row of a stored child whose parent and grandparent arrive later
# (C10's business); with False the relation oracle is used for top-down files only and the relations of other files
# are compared across forms and checklines.
ORACLE_ALL_ORDERS = True


def unit_update(U):
    fails, cases, distinct = [], 0, set()
    transforms = [Transform(), TDrop(), TModify()]

    def fail(case, expected, observed):
        if len(fails) < MAXFAIL:
            fails.append({"case": case, "expected": expected, "observed": observed})

    with scratch() as (work, leak):
        nann = 0
        for fmt, lines, order in db_annotations(U, UPDATE_Q, UPDATE_T):
            nann += 1
            n = len(lines)
            splits = sorted(set([1, n // 2, n - 1, n] if U.thorough else [1, n - 2, n]))
            for k in splits:
                if k < 1:
                    continue
                base, rest = lines[:k], lines[k:]
                ann = Ann(rest, fmt, work)
                ann.base_lines = base
                brecs = [parse_line(l) for l in base]
                m = len(rest)
                for T in transforms:
                    kept = [r for r in (T.model(copy_rec(r)) for r in ann.recs) if r is not None]
                    if rest and not kept:
                        continue
                    allrecs = brecs + kept
                    erows, erel = oracle_db(allrecs, oracle_ids(allrecs))
                    refrel = None
                    for c in range(0, m + 3):
                        for fname, (family, _) in FORMS.items():
                            if not U.thorough and m > 3 and c not in (0, 1, m - 1, m, m + 2) and family != "oneshot":
                                continue
                            cases += 1
                            distinct.add((nann, k, T.name, c, fname))
                            case = {"base lines (create_db)": base, "lines": rest, "form": fname, "checklines": c, "transform": T.name, "call": "FeatureDB.update"}
                            exp = {"features": jrows(erows), "relations": erel}
                            try:
                                rows, rel, d, log = _db_case(ann, fname, c, T, "update")
                            except Exception as e:
                                fail(case, exp, "exception %r" % (e,))
                                continue
                            if order != "top" and not ORACLE_ALL_ORDERS:
                                if refrel is None:
                                    refrel = (fname, c, rel)
                                exp = {"features": jrows(erows), "relations (as for form %s, checklines %d)" % refrel[:2]: refrel[2]}
                            if rows != erows or rel != (erel if (order == "top" or ORACLE_ALL_ORDERS) else refrel[2]):
                                fail(case, exp, {"features": jrows(rows), "relations": rel})
                            elif T.name != "none" and m and log != [rec_key(r) for r in ann.recs]:
                                fail(case, {"transform called once per input item, in order": jkeys([rec_key(r) for r in ann.recs])}, {"calls": jkeys(log)})
                    sweep(leak)
                ann.close()
    U.bounded_result("C13.bounded.update",
                     "create_db(first k lines) then update(form(remaining lines), checklines, transform) == the database of the oracle for base + kept lines (ids continue the autoincrement counters)",
                     "GFF3 hierarchies: %d shapes x split points %s x %d input forms x checklines 0..m+2 x transform {none, drop, modify}; m = 0 (nothing to add) included"
                     % (len(UPDATE_T if U.thorough else UPDATE_Q), "{1, n/2, n-1, n}" if U.thorough else "{1, n-2, n}", len(FORMS)),
                     cases, fails, distinct=len(distinct))


# ======================================================================================= unit 4: inspect
LOOK = ("featuretype", "chrom", "attribute_keys", "feature_count", "strand", "source", "start", "stop")
INSPECT_FORMS = ("path", "gzip path", "path (CRLF, no final newline)", "gzip path (CRLF, no final newline)", "list", "tuple", "re-iterable object", "generator function", "generator expression",
                 "iter(list)", "map object", "itertools.chain", "custom __next__ object", "DataIterator(path)", "DataIterator(list)",
                 "DataIterator(custom __next__ object)", "FeatureDB")


def oracle_inspect(keys, look_for, limit):
    """keys: expected item keys in order"""
    cnt = min(limit, len(keys)) if limit else len(keys)
    out = {}
    for what in look_for:
        if what == "feature_count":
            continue
        c = collections.Counter()
        for k in keys[:cnt]:
            if what == "attribute_keys":
                c.update(a for a, _ in k[8])
            else:
                c[k[{"chrom": 0, "seqid": 0, "source": 1, "featuretype": 2, "start": 3, "end": 4, "stop": 4, "score": 5, "strand": 6, "frame": 7}[what]]] += 1
        out[what] = dict(c)
    out["feature_count"] = cnt
    return out


def unit_inspect(U):
    fails, cases, distinct = [], 0, set()

    def fail(case, expected, observed):
        if len(fails) < MAXFAIL:
            fails.append({"case": case, "expected": expected, "observed": observed})

    sizes = (0, 1, 2, 3, 4, 6, 9, 10, 11, 12, 13, 15) if U.thorough else (0, 1, 3, 10, 11, 12)
    main = LOOK[:4]
    subsets = [list(s) for r in range(0, 5) for s in itertools.combinations(main, r)]
    if U.thorough:
        subsets = [list(s) for r in range(0, 7) for s in itertools.combinations(LOOK[:6], r)]
    subsets += [["start", "stop"], list(LOOK), ["feature_count", "attribute_keys", "featuretype"]]
    DEFAULT = "<default>"
    with scratch() as (work, leak):
        for n in sizes:
            lines = [seq_line(KINDS[(i * 7 + i // 3) % 5], i) for i in range(n)]
            ann = Ann(lines, "gff3", work)
            raw = [rec_key(r) for r in ann.recs]
            limits = sorted(set([0, 1, 2, 3, n - 1, n, n + 1, n + 2, 10, 11, 12]) & set(range(0, n + 3))) if not U.thorough else list(range(0, n + 3))
            for fname in INSPECT_FORMS:
                family, build = FORMS[fname]
                variants = [("none", None, 10)]
                if family == "iterator":
                    variants = [("none", None, 10), ("drop", TDrop(), 0), ("modify", TModify(), 2), ("none", None, n + 2)]
                for tname, T, c in variants:
                    if T is None:
                        exp_keys = raw
                    else:
                        exp_keys = [rec_key(r) for r in (T.model(copy_rec(r)) for r in ann.recs) if r is not None]
                    for limit in [None] + limits:
                        these = subsets + [DEFAULT]
                        if not U.thorough and limit not in (None, 0, 1, n, 11) and family not in ("oneshot",):
                            these = [subsets[-1], subsets[5], DEFAULT]
                        for look in these:
                            cases += 1
                            distinct.add((n, fname, tname, c, limit, tuple(look) if look is not DEFAULT else look))
                            case = {"lines": lines, "form": fname, "look_for": look, "limit": limit}
                            if family == "iterator":
                                case["ready-made iterator built with"] = {"checklines": c, "transform": tname}
                            log = []
                            tf = T.real(log) if T else None

                            def mk(inner, **kw):
                                return gffutils.DataIterator(inner, checklines=c, transform=tf, **kw)
                            elook = ["featuretype", "chrom", "attribute_keys", "feature_count"] if look is DEFAULT else look
                            exp = oracle_inspect(exp_keys, elook, limit)
                            try:
                                data, kw, _ = build(ann, mk)
                                if look is DEFAULT:
                                    got = gff_inspect(data, limit=limit, verbose=False)
                                else:
                                    got = gff_inspect(data, look_for=list(look), limit=limit, verbose=False)
                            except Exception as e:
                                fail(case, exp, "exception %r" % (e,))
                                continue
                            if got != exp or type(got.get("feature_count")) is not int:
                                fail(case, exp, got)
                            elif T is not None and log != raw[:len(log)]:
                                fail(case, {"transform calls are a prefix of the input": jkeys(raw)}, {"calls": jkeys(log)})
                sweep(leak)
            ann.close()
    U.bounded_result("C13.bounded.inspect",
                     "inspect(form, look_for, limit) == {feature_count: min(limit, n) (n when limit is None/0), each requested counter: multiset count over exactly that prefix of the (transformed) item sequence}",
                     "files of n in %s lines (default checklines 10 is crossed at n = 11) x %d input forms (ready-made iterators also with drop / modify transforms and checklines 0, 2, n+2) x limit in None, %s x %d look_for lists "
                     "(%s, all eight names, the default)" % (list(sizes), len(INSPECT_FORMS), "0..n+2" if U.thorough else "{0,1,2,3,n-1..n+2,10,11,12} (thinned look_for for interior limits of re-readable forms)",
                                                                         len(subsets) + 1, "all subsets of six names" if U.thorough else "all subsets of featuretype/chrom/attribute_keys/feature_count"),
                     cases, fails, distinct=len(distinct))


def unit_gzip_members(U):
    """Bounded: the gzip-path form for .gz files that hold SEVERAL gzip members (written in several append sessions, made by
    `cat a.gz b.gz`, one member per line as block-gzip writers do): the same feature sequence, database and inspect() counts
    as the plain path / string forms, for checklines 0, 1, 10 and beyond the input"""
    fails, cases = [], 0
    lines = ["##gff-version 3"] + ["chr%d\tsrc\t%s\t%d\t%d\t.\t+\t.\tID=f%d;Note=n%d" % (1 + i % 2, ("gene", "exon", "CDS")[i % 3], 10 * i + 1, 10 * i + 9, i, i) for i in range(12)]
    text = "\n".join(lines) + "\n"
    d = tempfile.mkdtemp(prefix="c13gz_")
    try:
        layouts = {"one member": [text], "two sessions": ["\n".join(lines[:7]) + "\n", "\n".join(lines[7:]) + "\n"], "a member per line": [l + "\n" for l in lines],
                   "three members, the first only a directive": [lines[0] + "\n", "\n".join(lines[1:5]) + "\n", "\n".join(lines[5:]) + "\n"]}
        plain = os.path.join(d, "plain.gff")
        open(plain, "w").write(text)
        for name, chunks in layouts.items():
            gz = os.path.join(d, "m%d.gff.gz" % len(chunks))
            with open(gz, "wb") as out:
                for c in chunks:
                    out.write(gzip.compress(c.encode()))
            for cl in ((0, 1, 10, 50) if U.thorough else (1, 10, 50)):
                cases += 1
                try:
                    want = [str(f) for f in gffutils.DataIterator(plain, checklines=cl)]
                    got = [str(f) for f in gffutils.DataIterator(gz, checklines=cl)]
                    dbw = gffutils.create_db(plain, ":memory:", checklines=cl)
                    dbg = gffutils.create_db(gz, ":memory:", checklines=cl)
                    gw, gg = [str(f) for f in dbw.all_features()], [str(f) for f in dbg.all_features()]
                    iw = gff_inspect(plain, verbose=False)["feature_count"]
                    ig = gff_inspect(gz, verbose=False)["feature_count"]
                except Exception as e:
                    fails.append({"case": {"layout": name, "checklines": cl}, "expected": "12 features", "observed": "raised %r" % (e,)})
                    continue
                if got != want or gg != gw or ig != iw or list(dbg.directives) != list(dbw.directives):
                    fails.append({"case": {"layout": name, "checklines": cl}, "expected": "%d features through every route" % len(want),
                                  "observed": {"DataIterator": len(got), "create_db": len(gg), "inspect": ig, "directives": list(dbg.directives)}})
    finally:
        shutil.rmtree(d, ignore_errors=True)
    U.bounded_result("C13.bounded.gzip_members", "a .gz path holding several gzip members gives the same features, database, directives and inspect() counts as the plain file",
                     "12 features + 1 directive in 4 member layouts x checklines {1, 10, 50} (thorough also 0) x DataIterator / create_db / inspect", cases, fails)


UNITS = [
    ("bounded.gzip_members", unit_gzip_members),
    ("bounded.sequence", unit_sequence),
    ("bounded.create_db", unit_create_db),
    ("bounded.update", unit_update),
    ("bounded.inspect", unit_inspect),
]
