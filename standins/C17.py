"""Bounded run-time stand-ins for C17: attribute container, JSON storage form, merge_attributes and
Feature equality / hash, evaluated on the REAL gffutils code with oracles written from the statement.

Units
  bounded.container   set/get/view rule of the attribute mapping on parsed and database features
  bounded.json        attributes -> stored JSON text -> attributes is the identity (Unicode, key order)
  bounded.merge       helpers.merge_attributes == per-key sorted duplicate-free union, arguments unchanged
  bounded.equality    Feature ==, != and hash against the printed line, also after editing hashed features
"""
import copy
import itertools
import json as std_json          # independent decoder (gffutils itself uses simplejson)
import os
import shutil
import tempfile
import traceback

import gffutils
from gffutils import constants, helpers
from gffutils.attributes import Attributes
from gffutils.feature import Feature, feature_from_line

from contracts.qharness import native_db

MAXFAIL = 25


class view_switch(object):
    """constants.always_return_list = value for the duration of the block"""

    def __init__(self, value):
        self.value = value

    def __enter__(self):
        self.old = constants.always_return_list
        constants.always_return_list = self.value

    def __exit__(self, *a):
        constants.always_return_list = self.old
        return False


def jd(x):
    """json-able, ASCII-safe description of a test value (tuples stay visible)"""
    if isinstance(x, tuple):
        return {"tuple": [jd(i) for i in x]}
    if isinstance(x, list):
        return [jd(i) for i in x]
    if isinstance(x, dict):
        return [[jd(k), jd(v)] for k, v in x.items()]
    if isinstance(x, str):
        return x if x.isascii() and x.isprintable() else {"str_repr": ascii(x)}
    return x


def add_fail(fails, case, expected, observed):
    if len(fails) < MAXFAIL:
        fails.append({"case": case, "expected": jd(expected), "observed": jd(observed)})
    else:
        fails[-1].setdefault("truncated_after", MAXFAIL)


GFF_LINE = "chr1\tsrc\tgene\t1\t10\t.\t+\t.\tID=g1;Name=n1,n2;Note=x"
GTF_LINE = 'chr1\tsrc\texon\t1\t10\t.\t+\t.\tgene_id "g1"; transcript_id "t1"; Name "n1";'


def store_and_fetch(db, f, fid="g1"):
    """write f into the (reused) real database as the only row and read it back"""
    f.id = fid
    c = db.conn.cursor()
    c.execute("DELETE FROM features")
    db._insert(f, c)
    return db[fid]


# =============================================================================================
# unit 1: container
# =============================================================================================
def wrap_rule(v):
    """the statement: a scalar is wrapped into a one-item list, sequences are kept"""
    return v if isinstance(v, (list, tuple)) else [v]


def view_rule(stored, always_list):
    """the statement: the switch only changes how single-item LISTS are viewed"""
    if not always_list and isinstance(stored, list) and len(stored) == 1:
        return stored[0]
    return stored


SET_VALUES = [
    "v", "", "é\U0001F600", "a,b",
    [], ["a"], [""], ["a", "b"], ["b", "a", "a"], ["é"],
    (), ("a",), ("a", "b"),
]
SET_KEYS = ["Name", "zz", "ID", "gene_id"]


def _p_feat(f, k, v):
    f[k] = v


def _p_attr(f, k, v):
    f.attributes[k] = v


def _p_update_map(f, k, v):
    f.attributes.update({k: v})


def _p_update_kw(f, k, v):
    f.attributes.update(**{k: v})


def _p_update_pairs(f, k, v):
    f.attributes.update([(k, v)])


def _p_setdefault(f, k, v):
    # MutableMapping.setdefault: sets only when the key is absent
    f.attributes.setdefault(k, v)


def _p_rebuild(f, k, v):
    with view_switch(True):
        items = list(f.attributes.items())
    f.attributes = Attributes(items + [(k, v)])


SET_PATHS = [("Feature[k]=v", _p_feat), ("attributes[k]=v", _p_attr), ("attributes.update({k:v})", _p_update_map),
             ("attributes.update(k=v)", _p_update_kw), ("attributes.update([(k,v)])", _p_update_pairs),
             ("attributes.setdefault(k,v)", _p_setdefault), ("attributes=Attributes(items+[(k,v)])", _p_rebuild)]


def container_sources(tmpdir, fails):
    """name -> (thunk returning a FRESH feature, model of its attributes); a source that cannot be
    built on the tree under test is recorded as a failure and left out"""
    gff_model = {"ID": ["g1"], "Name": ["n1", "n2"], "Note": ["x"]}
    gtf_model = {"gene_id": ["g1"], "transcript_id": ["t1"], "Name": ["n1"]}
    srcs, dbs = {}, []
    srcs["parsed gff3"] = (lambda: feature_from_line(GFF_LINE), gff_model)
    srcs["parsed gtf"] = (lambda: feature_from_line(GTF_LINE), gtf_model)

    def mem():
        f = feature_from_line(GFF_LINE)
        f.id = "g1"
        memdb = native_db([f])
        dbs.append(memdb)
        return (lambda: memdb["g1"], gff_model)

    def filedb():
        # a database file written by the real importer from a real file, re-opened
        fn = os.path.join(tmpdir, "in.gff")
        with open(fn, "w") as fh:
            fh.write(GFF_LINE + "\n")
        dbfn = os.path.join(tmpdir, "in.db")
        gffutils.create_db(fn, dbfn).conn.close()
        db = gffutils.FeatureDB(dbfn)
        dbs.append(db)
        return (lambda: db["g1"], gff_model)

    def rawrow():
        # a row whose JSON text carries scalars and an empty list (written by SQL, not by gffutils)
        g = feature_from_line(GFF_LINE)
        g.id = "raw"
        rawdb = native_db([g])
        dbs.append(rawdb)
        rawdb.conn.execute("UPDATE features SET attributes = ? WHERE id = 'raw'",
                           ('{"ID":"raw","Name":["n1","n2"],"Note":"x","Empty":[],"U":"\\u00e9"}',))
        rawdb.conn.commit()
        raw_model = {"ID": ["raw"], "Name": ["n1", "n2"], "Note": ["x"], "Empty": [], "U": [chr(0xe9)]}
        return (lambda: rawdb["raw"], raw_model)

    for name, build in (("database (memory)", mem), ("database (file, create_db)", filedb), ("database (scalar JSON row)", rawrow)):
        try:
            srcs[name] = build()
        except Exception:
            add_fail(fails, {"stage": "building the feature source %r" % name}, "no exception", traceback.format_exc()[-1200:])
    return srcs, dbs


def check_container_state(f, model, note):
    """compare every public view of f's attributes with the model under both settings of the switch.
    Returns None or (expected, observed, what)."""
    shown_as_list = {}
    for always_list in (True, False, True):       # the last pass re-reads after the unwrapped views
        with view_switch(always_list):
            A = f.attributes
            keys = list(A.keys())
            if sorted(keys) != sorted(model.keys()) or len(A) != len(model):
                return (sorted(model.keys()), keys, "key set (%s)" % note)
            items = dict(A.items())
            vals = dict(zip(keys, A.values()))
            for k, stored in model.items():
                if always_list:
                    # whether a tuple is kept or stored as a list is not fixed by the statement: the
                    # unwrapped view below follows the sequence type actually shown with the switch on
                    shown_as_list[k] = isinstance(A[k], list)
                exp = view_rule(list(stored) if shown_as_list.get(k) else stored, always_list)
                for how, obs in (("Feature[k]", f[k]), ("attributes[k]", A[k]), ("attributes.items()", items.get(k)),
                                 ("attributes.values()", vals.get(k)), ("attributes.get(k)", A.get(k))):
                    ok = obs == exp if isinstance(exp, str) else (isinstance(obs, (list, tuple)) and list(obs) == list(exp))
                    if isinstance(exp, str) and not isinstance(obs, str):
                        ok = False
                    if ok and always_list:
                        # stored form: a sequence of strings; a wrapped scalar is a list
                        ok = isinstance(obs, (list, tuple)) and all(isinstance(i, str) for i in obs)
                        if ok and isinstance(stored, list):
                            ok = isinstance(obs, list)
                    if not ok:
                        return (exp, obs, "%s of key %r with always_return_list=%s (%s)" % (how, k, always_list, note))
            for how, fn in (("Feature[k]", lambda: f["no such key"]), ("attributes[k]", lambda: A["no such key"])):
                try:
                    fn()
                    return ("KeyError", "a value", "%s of an absent key" % how)
                except KeyError:
                    pass
    return None


def unit_bounded_container(U):
    fails, cases, distinct = [], 0, set()
    tmpdir = tempfile.mkdtemp(prefix="c17_container_", dir=tempfile.gettempdir())
    dbs = []
    try:
        srcs, dbs = container_sources(tmpdir, fails)
        scratch = None
        try:
            scratch_seed = feature_from_line(GFF_LINE)
            scratch_seed.id = "g1"
            scratch = native_db([scratch_seed])
            dbs.append(scratch)
        except Exception:
            add_fail(fails, {"stage": "building the scratch database"}, "no exception", traceback.format_exc()[-1200:])
        single = [(p, k, v) for p in range(len(SET_PATHS)) for k in SET_KEYS for v in range(len(SET_VALUES))]

        def run(srcname, ops, set_switch, through_db):
            nonlocal cases
            thunk, base = srcs[srcname]
            f = thunk()
            model = dict((k, list(v)) for k, v in base.items())
            case = {"source": srcname, "always_return_list while setting": set_switch,
                    "ops": [[SET_PATHS[p][0], k, jd(SET_VALUES[v])] for (p, k, v) in ops]}
            cases += 1
            distinct.add((srcname, tuple(ops), set_switch))
            try:
                bad = check_container_state(f, model, "before any set")
                if bad is None:
                    with view_switch(set_switch):
                        for (p, k, v) in ops:
                            val = copy.deepcopy(SET_VALUES[v])
                            if SET_PATHS[p][1] is _p_setdefault and k in model:
                                pass
                            else:
                                model[k] = wrap_rule(copy.deepcopy(SET_VALUES[v]))
                            SET_PATHS[p][1](f, k, val)
                    bad = check_container_state(f, model, "after the sets")
                if bad is None and through_db and scratch is not None:
                    for fetch_switch in (True, False):
                        with view_switch(fetch_switch):
                            g = store_and_fetch(scratch, f, f.id or "g1")
                        dbmodel = dict((k, list(v)) for k, v in model.items())
                        bad = check_container_state(g, dbmodel, "stored in a database and fetched with always_return_list=%s" % fetch_switch)
                        if bad:
                            break
            except Exception as e:
                bad = ("no exception", repr(e), "exception")
            if bad:
                case["what"] = bad[2]
                add_fail(fails, case, bad[0], bad[1])

        # every single set, every source, both settings while setting, also through the database
        for srcname in srcs:
            for op in single:
                for set_switch in (True, False):
                    run(srcname, [op], set_switch, through_db=True)
        # two sets in a row (overwrites, path interactions)
        pairs = list(itertools.product(single, repeat=2))
        if U.thorough:
            chosen = pairs
        else:
            chosen = U.rng.sample(pairs, 4000)
        for i, ops in enumerate(chosen):
            srcname = "parsed gff3" if U.thorough and i % 2 else U.rng.choice(list(srcs))
            run(srcname, list(ops), U.rng.random() < 0.5, through_db=(i % 8 == 0))
        if U.thorough:
            for i in range(40000):
                ops = [U.rng.choice(single) for _ in range(U.rng.choice((3, 4)))]
                run(U.rng.choice(list(srcs)), ops, U.rng.random() < 0.5, through_db=(i % 8 == 0))
    except Exception:
        add_fail(fails, {"stage": "stand-in set-up or enumeration aborted by an exception of the code under test"}, "no exception", traceback.format_exc()[-1500:])
    finally:
        constants.always_return_list = True
        for d in dbs:
            try:
                d.conn.close()
            except Exception:
                pass
        shutil.rmtree(tmpdir, ignore_errors=True)
    U.bounded_result(
        "C17.bounded.container",
        "after any sequence of sets, every view of a parsed / database feature's attributes (Feature[k], attributes[k], items, values, get; again after a database "
        "round trip) equals the model: stored value = v if list/tuple else [v], a sequence of str; with always_return_list off only one-item lists are shown as their item",
        "5 feature sources (parsed GFF3, parsed GTF, memory db, create_db file db re-opened, db row with scalar JSON) x 7 set paths x 4 keys x 13 values "
        "(scalars incl. empty / non-ASCII, lists of 0-3, tuples of 0-2) x switch on/off while setting x switch on/off/on while reading: all single sets; "
        + ("all pairs of sets; 40000 random sequences of 3-4 sets" if U.thorough else "4000 random pairs of sets"),
        cases, fails, exhaustive=False, distinct=len(distinct))


# =============================================================================================
# unit 2: JSON storage form
# =============================================================================================
def adversarial_strings():
    c = chr
    return [
        "", "a", " ", "  ", c(0), c(1), c(0x1f), c(0x7f), c(0x80), c(0x85), c(0xa0), '"', "'", "\\", "\\\\", '\\"', "\\u0041", "\\n", "\\ud83d\\ude00",
        "\n", "\t", "\r", "\r\n", "\b", "\f", "/", "</script>", c(0x2028), c(0x2029), c(0xe9), "e" + c(0x301), c(0xfeff), c(0xfffd), c(0xfffe), c(0xffff),
        c(0x1F600), c(0x10FFFF), c(0x10000), c(0xd800), c(0xdbff), c(0xdc00), c(0xdfff), c(0xdc00) + c(0xd800), c(0xd800) + "a" + c(0xdc00),
        "%2C", "%", ";", "=", ",", "a,b", "a;b=c", "{}", "[]", "null", "true", "false", "1", "1.0", "-0", "1e400", "NaN", "Infinity",
        '{"a":["b"]}', '["x"]', "[1,2]", "中文", "مرحبا", "x" * 300, c(0x1F468) + c(0x200d) + c(0x1F469),
    ]


def random_string(rng):
    n = rng.choice((0, 1, 1, 2, 3, 5, 9))
    out = []
    for _ in range(n):
        r = rng.random()
        if r < 0.25:
            cp = rng.randrange(0x20, 0x7f)
        elif r < 0.35:
            cp = rng.randrange(0, 0x20)
        elif r < 0.45:
            cp = ord(rng.choice('"\\/{}[]:,\'\n\t\r;=%'))
        elif r < 0.55:
            cp = rng.randrange(0x7f, 0x100)
        elif r < 0.70:
            cp = rng.randrange(0x100, 0xd800)
        elif r < 0.78:
            cp = rng.randrange(0xe000, 0x10000)
        elif r < 0.90:
            cp = rng.randrange(0x10000, 0x110000)
        elif r < 0.95:
            cp = rng.choice((0x2028, 0x2029, 0xfeff, 0xfffe, 0xffff, 0x85, 0x7f, 0))
        else:
            cp = rng.randrange(0xd800, 0xe000)        # a lone surrogate code point
        # a high surrogate directly followed by a low one is not Unicode content but the UTF-16
        # spelling of one astral character; keep such accidents out of the enumeration
        if out and 0xd800 <= ord(out[-1]) < 0xdc00 and 0xdc00 <= cp < 0xe000:
            out.append("-")
        out.append(chr(cp))
    return "".join(out)


def json_mappings(U):
    """(label, ordered list of (key, list of str))"""
    S = adversarial_strings()
    for s in S:
        yield "value", [("k", [s])]
        yield "key", [(s, ["v"])]
        yield "key=value", [(s, [s])]
    yield "empty mapping", []
    yield "empty lists", [("a", []), ("b", []), ("c", ["x"])]
    for s, t in itertools.product(S, repeat=2):
        yield "two values", [("k", [s, t])]
    K = ["ID", "Name", "10", "9", "a", "A", "", chr(0xe9), chr(0x1F600), chr(0xd800), "parent", "b", "\\", '"']
    L = 4 if U.thorough else 3
    for n in range(1, L + 1):
        for ks in itertools.permutations(K, n):
            yield "key order", [(k, ["v%d" % i] * (i % 3)) for i, k in enumerate(ks)]
    for _ in range(50000 if U.thorough else 3000):
        n = U.rng.choice((0, 1, 2, 3, 4, 6, 9))
        m = {}
        for _i in range(n):
            key = random_string(U.rng) if U.rng.random() < 0.7 else U.rng.choice(S)
            m[key] = [random_string(U.rng) if U.rng.random() < 0.7 else U.rng.choice(S) for _j in range(U.rng.choice((0, 1, 1, 2, 4)))]
        yield "random", list(m.items())


def pairs_of(attrs):
    """ordered (key, list value) pairs of a real Attributes object, through its public interface"""
    with view_switch(True):
        return [(k, v) for k, v in attrs.items()]


def same_pairs(obs, exp):
    if len(obs) != len(exp):
        return False
    for (ko, vo), (ke, ve) in zip(obs, exp):
        if ko != ke or not isinstance(vo, list) or vo != ve or not all(isinstance(i, str) for i in vo):
            return False
    return True


def unit_bounded_json(U):
    fails, cases, distinct = [], 0, set()
    tmpdir = tempfile.mkdtemp(prefix="c17_json_", dir=tempfile.gettempdir())
    seed = feature_from_line(GFF_LINE)
    seed.id = "g1"
    memdb = native_db([seed])
    filebatch = []
    pipebatch = []
    try:
        for idx, (label, pairs) in enumerate(json_mappings(U)):
            cases += 1
            distinct.add(repr(pairs))
            case = {"kind": label, "mapping (ordered)": jd([[k, v] for k, v in pairs])}
            exp = [(k, list(v)) for k, v in pairs]
            try:
                for sw in (True, False):
                    with view_switch(sw):
                        a = Attributes()
                        for k, v in pairs:
                            a[k] = list(v)
                        text = helpers._jsonify(a)
                        back = helpers._unjsonify(text, isattributes=True)
                    if not isinstance(text, str):
                        add_fail(fails, dict(case, path="_jsonify, switch=%s" % sw), "a str", type(text).__name__)
                        break
                    if not isinstance(back, Attributes) or not same_pairs(pairs_of(back), exp):
                        add_fail(fails, dict(case, path="_unjsonify(_jsonify(a)), switch=%s" % sw, text=text), exp,
                                 pairs_of(back) if isinstance(back, Attributes) else repr(back))
                        break
                    # the stored text is JSON that an independent decoder reads as the same ordered content
                    ind = std_json.loads(text, object_pairs_hook=list)
                    ind = [(k, v if isinstance(v, list) else [v]) for k, v in ind]
                    if not same_pairs(ind, exp):
                        add_fail(fails, dict(case, path="stdlib json.loads(_jsonify(a)), switch=%s" % sw, text=text), exp, ind)
                        break
                    if same_pairs(pairs_of(a), exp) is False:
                        add_fail(fails, dict(case, path="argument of _jsonify modified"), exp, pairs_of(a))
                        break
                # Feature: astuple() JSON slot -> Feature(attributes=<text>)
                f = Feature(seqid="chr1", source="s", featuretype="gene", start=1, end=10, attributes=a, id="f%d" % idx)
                tup = f.astuple()
                g = Feature(seqid="chr1", source="s", featuretype="gene", start=1, end=10, attributes=tup[9], id="g")
                if not same_pairs(pairs_of(g.attributes), exp):
                    add_fail(fails, dict(case, path="Feature(attributes=Feature.astuple()[9])", text=tup[9]), exp, pairs_of(g.attributes))
                # a real sqlite row
                h = store_and_fetch(memdb, f, f.id)
                if not same_pairs(pairs_of(h.attributes), exp):
                    add_fail(fails, dict(case, path="FeatureDB._insert -> FeatureDB[id] (memory)"), exp, pairs_of(h.attributes))
                if not same_pairs(pairs_of(f.attributes), exp):
                    add_fail(fails, dict(case, path="feature modified by storing it"), exp, pairs_of(f.attributes))
                if label != "two values" or idx % 7 == 0:
                    if len(filebatch) < (20000 if U.thorough else 3000):
                        filebatch.append((f, exp, case))
                    if len(pipebatch) < (5000 if U.thorough else 1500) and idx % 3 == 0:
                        pipebatch.append((f, exp, case))
            except Exception as e:
                add_fail(fails, case, "no exception", repr(e))

        # database FILE, closed and re-opened
        dbfn = os.path.join(tmpdir, "batch.db")
        dummy = feature_from_line(GFF_LINE)
        dummy.id = "zz_dummy"
        db = gffutils.create_db([dummy], dbfn, id_spec="ID")
        c = db.conn.cursor()
        for f, exp, case in filebatch:
            db._insert(f, c)
        db.conn.commit()
        db.conn.close()
        db = gffutils.FeatureDB(dbfn)
        for f, exp, case in filebatch:
            cases += 1
            try:
                h = db[f.id]
                if not same_pairs(pairs_of(h.attributes), exp):
                    add_fail(fails, dict(case, path="database file closed and re-opened"), exp, pairs_of(h.attributes))
            except Exception as e:
                add_fail(fails, dict(case, path="database file closed and re-opened"), "no exception", repr(e))
        db.conn.close()
        # the real importer (create_db over Feature objects) into a file, re-opened
        pipefn = os.path.join(tmpdir, "pipe.db")
        try:
            gffutils.create_db([copy.deepcopy(f) for f, _e, _c in pipebatch], pipefn, id_spec=lambda x: x.id, merge_strategy="error").conn.close()
            db = gffutils.FeatureDB(pipefn)
            for f, exp, case in pipebatch:
                cases += 1
                h = db[f.id]
                if not same_pairs(pairs_of(h.attributes), exp):
                    add_fail(fails, dict(case, path="create_db(features) -> file -> FeatureDB[id]"), exp, pairs_of(h.attributes))
            db.conn.close()
        except Exception as e:
            add_fail(fails, {"path": "create_db over %d features with the enumerated attribute mappings" % len(pipebatch)}, "no exception", repr(e))
    except Exception:
        add_fail(fails, {"stage": "stand-in set-up or enumeration aborted by an exception of the code under test"}, "no exception", traceback.format_exc()[-1500:])
    finally:
        constants.always_return_list = True
        try:
            memdb.conn.close()
        except Exception:
            pass
        shutil.rmtree(tmpdir, ignore_errors=True)
    U.bounded_result(
        "C17.bounded.json",
        "attributes -> stored JSON text -> attributes gives the same keys in the same order with the same lists of str: helpers._unjsonify(_jsonify(a)) under both "
        "switch settings, stdlib json reading of the text, Feature(attributes=astuple()[9]), a real sqlite row (memory; file closed and re-opened; through create_db)",
        "%d adversarial strings (controls, NUL, DEL, quotes, backslashes, escape look-alikes, U+2028/9, BOM, noncharacters, astral, lone surrogates, JSON look-alikes, 300 chars) "
        "as key, as value, as both, all ordered pairs as a 2-item list; empty mapping / empty lists; all ordered selections of <= %d of 14 keys (numeric-looking, case, empty, "
        "non-ASCII); %d random mappings of 0-9 keys x lists of 0-4 random code-point strings (adjacent high+low surrogate code points excluded: not Unicode content)"
        % (len(adversarial_strings()), 4 if U.thorough else 3, 50000 if U.thorough else 3000),
        cases, fails, exhaustive=False, distinct=len(distinct))


# =============================================================================================
# unit 3: merge_attributes
# =============================================================================================
def as_seq(m, k):
    if k not in m:
        return []
    v = m[k]
    return [v] if isinstance(v, str) else list(v)


def is_number(s):
    try:
        x = float(s)
    except ValueError:
        return False
    return x == x          # "nan" parses but is not a number with an order


def merge_verdict(a1, a2, numeric_sort, res):
    """None when res is what the statement demands, else (expected description, observed)"""
    keys = list(a1) + [k for k in a2 if k not in a1]
    if not hasattr(res, "keys") or sorted(res.keys()) != sorted(keys):
        return ("keys %r" % sorted(keys), "keys %r" % (sorted(res.keys()) if hasattr(res, "keys") else res))
    for k in keys:
        union = set(as_seq(a1, k)) | set(as_seq(a2, k))
        got = res[k]
        if not isinstance(got, list) or len(got) != len(union) or set(got) != union:
            return ({k: sorted(union)}, {k: got})
        if numeric_sort and union and all(is_number(v) for v in union):
            fl = [float(v) for v in got]
            if any(fl[i] > fl[i + 1] for i in range(len(fl) - 1)):
                return ({k: "numeric order of %r" % sorted(union, key=float)}, {k: got})
        elif got != sorted(union):
            return ({k: sorted(union)}, {k: got})
    return None


def merge_case(a1, a2, numeric_sort, container, fails, switch=True, label=None):
    """run the real function on fresh containers, check value and frame; returns True if it held"""
    case = {"attr1": jd(a1), "attr2": jd(a2), "numeric_sort": numeric_sort, "container": container, "always_return_list": switch}
    if label:
        case["kind"] = label
    cls = dict if container == "dict" else Attributes
    with view_switch(True):
        # every value its own object (one list shared by two keys is not in the scope)
        x1 = cls((k, copy.deepcopy(v)) for k, v in a1.items())
        x2 = cls((k, copy.deepcopy(v)) for k, v in a2.items())
    try:
        with view_switch(switch):
            res = helpers.merge_attributes(x1, x2, numeric_sort=numeric_sort)
            if not isinstance(res, dict):
                res = dict(res.items())
    except Exception as e:
        add_fail(fails, case, "the per-key union", repr(e))
        return False
    bad = merge_verdict(a1, a2, numeric_sort, res)
    if bad:
        add_fail(fails, case, bad[0], bad[1])
        return False
    with view_switch(True):
        after1, after2 = list(x1.items()), list(x2.items())
    before1 = [(k, wrap_rule(v) if cls is Attributes else v) for k, v in a1.items()]
    before2 = [(k, wrap_rule(v) if cls is Attributes else v) for k, v in a2.items()]
    if after1 != before1 or after2 != before2:
        add_fail(fails, dict(case, what="arguments modified"), [before1, before2], [after1, after2])
        return False
    # the result must not share its lists with the arguments (mutating it would modify them)
    for k in res:
        for src in (x1, x2):
            with view_switch(True):
                if k in src and res[k] is src[k]:
                    add_fail(fails, dict(case, what="result list for %r is the argument's own list" % k), "a new list", "shared")
                    return False
    return True


def value_shapes(alphabet, maxlen, scalars=True):
    out = [None]
    if scalars:
        out += list(alphabet)
    for n in range(0, maxlen + 1):
        out += [list(t) for t in itertools.product(alphabet, repeat=n)]
    return out


MERGE_POOL = ["1", "2", "10", "1.5", "-3", "1e2", "01", "1.0", "+1", "inf", "-inf", " 5", "1_0", ".5", "5.", "0x10", "a", "B", "", " ",
              "é", "１", "٣", "1,2", "-", "e", "1e", "--1", "\U0001F600", "10 ", "\t2"]


def unit_bounded_merge(U):
    fails, cases, distinct = [], 0, set()
    try:
        # exhaustive, one shared key: (absent | scalar | list of <= L) ^ 2 over {"1","2","10","a"} -- the design's fallback scope
        L = 3 if U.thorough else 2
        shapes = value_shapes(["1", "2", "10", "a"], L)
        for v1, v2 in itertools.product(shapes, repeat=2):
            a1 = {} if v1 is None else {"k": v1}
            a2 = {} if v2 is None else {"k": v2}
            for ns in (False, True):
                for container in ("dict", "Attributes"):
                    cases += 1
                    distinct.add((repr(a1), repr(a2), ns, container))
                    merge_case(a1, a2, ns, container, fails, label="one key, exhaustive")
        # plain dicts do not depend on the switch: same space for lists <= 1 with the switch off
        for v1, v2 in itertools.product(value_shapes(["1", "2", "10", "a"], 1), repeat=2):
            a1 = {} if v1 is None else {"k": v1}
            a2 = {} if v2 is None else {"k": v2}
            for ns in (False, True):
                cases += 1
                distinct.add((repr(a1), repr(a2), ns, "dict/off"))
                merge_case(a1, a2, ns, "dict", fails, switch=False, label="plain dicts with the switch off")
        # all-numeric lists of 3 in every order (duplicates, ties 1 / 1.0 / 01): numeric vs text order
        nums = ["1", "2", "10", "1.0", "-3", "1e2"]
        for t in itertools.product(nums, repeat=3):
            for split in range(4):
                a1, a2 = {"k": list(t[:split])}, {"k": list(t[split:])}
                for ns in (False, True):
                    cases += 1
                    distinct.add((repr(a1), repr(a2), ns, "num"))
                    merge_case(a1, a2, ns, "dict" if split % 2 else "Attributes", fails, label="numeric lists")
        # two keys: presence pattern x small values
        small = [None, "b", [], ["a"], ["b", "a"], ["a", "a"]]
        for v in itertools.product(small, repeat=4):
            a1 = dict((k, x) for k, x in (("k", v[0]), ("j", v[1])) if x is not None)
            a2 = dict((k, x) for k, x in (("j", v[2]), ("k", v[3])) if x is not None)
            for ns in (False, True):
                for container in ("dict", "Attributes"):
                    cases += 1
                    distinct.add((repr(a1), repr(a2), ns, container, "2k"))
                    merge_case(a1, a2, ns, container, fails, label="two keys")
        # random over a wide value pool
        keys = ["ID", "Name", "k", "", "é"]
        for _ in range(60000 if U.thorough else 6000):
            def rnd_map():
                m = {}
                for k in U.rng.sample(keys, U.rng.randrange(0, 4)):
                    pool = U.rng.choice((MERGE_POOL, MERGE_POOL[:16], MERGE_POOL[:4]))
                    if U.rng.random() < 0.2:
                        m[k] = U.rng.choice(pool)
                    else:
                        m[k] = [U.rng.choice(pool) for _i in range(U.rng.choice((0, 1, 2, 3, 5)))]
                return m
            a1, a2 = rnd_map(), rnd_map()
            ns = U.rng.random() < 0.5
            container = U.rng.choice(("dict", "Attributes"))
            cases += 1
            distinct.add((repr(a1), repr(a2), ns, container))
            merge_case(a1, a2, ns, container, fails, label="random")
        # attributes of real parsed features
        lines = ["chr1\ts\tgene\t1\t9\t.\t+\t.\tID=a;Name=x,y;n=10,9", "chr1\ts\tgene\t1\t9\t.\t+\t.\tID=a;Name=y,z;n=9,100;Note=q",
                 'chr1\ts\texon\t1\t9\t.\t+\t.\tgene_id "a"; Name "x";', "chr1\ts\tgene\t1\t9\t.\t+\t.\t"]
        for l1, l2 in itertools.product(lines, repeat=2):
            for ns in (False, True):
                f1, f2 = feature_from_line(l1), feature_from_line(l2)
                with view_switch(True):
                    m1, m2 = dict(f1.attributes.items()), dict(f2.attributes.items())
                cases += 1
                distinct.add((l1, l2, ns))
                case = {"line1": l1, "line2": l2, "numeric_sort": ns}
                try:
                    res = helpers.merge_attributes(f1.attributes, f2.attributes, numeric_sort=ns)
                    bad = merge_verdict(m1, m2, ns, dict(res.items()))
                    if bad:
                        add_fail(fails, case, bad[0], bad[1])
                    elif str(f1) != str(feature_from_line(l1)) or str(f2) != str(feature_from_line(l2)):
                        add_fail(fails, dict(case, what="features modified"), [l1, l2], [str(f1), str(f2)])
                except Exception as e:
                    add_fail(fails, case, "the per-key union", repr(e))
    except Exception:
        add_fail(fails, {"stage": "stand-in set-up or enumeration aborted by an exception of the code under test"}, "no exception", traceback.format_exc()[-1500:])
    finally:
        constants.always_return_list = True
    U.bounded_result(
        "C17.bounded.merge_attributes",
        "helpers.merge_attributes(a1, a2, numeric_sort) has exactly the keys of both; per key a new duplicate-free list holding the union of both value sequences (scalar = "
        "one value), in sorted order, or in non-decreasing float order when numeric_sort and every value parses as a number; a1, a2 and their lists are unchanged",
        "plain dicts and Attributes objects (switch on), numeric_sort on/off: all pairs over (absent | scalar | list of <= %d) of {1,2,10,a} on one key; plain dicts with the switch "
        "off (lists <= 1); all splits of all triples over 6 numeric spellings (ties 1/1.0); all presence/value patterns over 2 keys x 6 values; %d random pairs over 5 keys x a "
        "31-string pool (signs, exponents, inf, padded, underscore, non-ASCII digits, non-numbers, empty); attributes of 4x4 parsed lines"
        % (L, 60000 if U.thorough else 6000),
        cases, fails, exhaustive=False, distinct=len(distinct))

    # ---- genuine deviations of the current tree, kept apart (expected to fail) -------------------
    dev1, n1, bad1 = [], 0, 0
    try:
        for v1, v2 in itertools.product(value_shapes(["a", "b"], 2), repeat=2):
            a1 = {} if v1 is None else {"k": v1}
            a2 = {} if v2 is None else {"k": v2}
            for ns in (False, True):
                n1 += 1
                bad1 += not merge_case(a1, a2, ns, "Attributes", dev1, switch=False)
    finally:
        constants.always_return_list = True
    U.bounded_result(
        "C17.bounded.merge_attributes_switch_off",
        "same clause as C17.bounded.merge_attributes, for Attributes arguments (what Feature.attributes is) while constants.always_return_list is False",
        "all pairs over (absent | scalar | list of <= 2) of {a,b} on one key, numeric_sort on/off, Attributes objects, switch off", n1, dev1,
        exhaustive=True, sample={"failing cases": bad1, "of": n1})
    dev2, n2, bad2 = [], 0, 0
    try:
        tshapes = [None, "a", ["a"], ("a",), ("a", "b"), ("b", "a", "a"), ()]
        for v1, v2 in itertools.product(tshapes, repeat=2):
            if not isinstance(v1, tuple) and not isinstance(v2, tuple):
                continue
            a1 = {} if v1 is None else {"k": v1}
            a2 = {} if v2 is None else {"k": v2}
            for ns in (False, True):
                for container in ("dict", "Attributes"):
                    n2 += 1
                    bad2 += not merge_case(a1, a2, ns, container, dev2)
    finally:
        constants.always_return_list = True
    U.bounded_result(
        "C17.bounded.merge_attributes_tuple_values",
        "same clause as C17.bounded.merge_attributes when a value sequence is a tuple (a form the attribute container accepts and keeps)",
        "all pairs over (absent | scalar | 1-list | tuples of 0-3) on one key with at least one tuple, numeric_sort on/off, dicts and Attributes, switch on", n2, dev2,
        exhaustive=True, sample={"failing cases": bad2, "of": n2})
    # one list object stored under two keys of the same mapping
    dev3, n3, bad3 = [], 0, 0
    try:
        for shared in ([], ["a"], ["b", "a"]):
            for other in ("b", ["c"], []):
                for ns in (False, True):
                    for container in ("dict", "Attributes"):
                        for side in (1, 2):
                            n3 += 1
                            cls = dict if container == "dict" else Attributes
                            lst = list(shared)
                            m_shared, m_other = cls([("j", lst), ("k", lst)]), cls([("j", other)])
                            x1, x2 = (m_shared, m_other) if side == 1 else (m_other, m_shared)
                            case = {"attr%d" % side: {"j": "L", "k": "L", "L (one list object)": shared}, "attr%d" % (3 - side): {"j": jd(other)},
                                    "numeric_sort": ns, "container": container}
                            try:
                                res = helpers.merge_attributes(x1, x2, numeric_sort=ns)
                                bad = merge_verdict({"j": shared, "k": shared} if side == 1 else {"j": other},
                                                    {"j": other} if side == 1 else {"j": shared, "k": shared}, ns, dict(res.items()))
                                if bad is None and lst != shared:
                                    bad = (shared, lst)
                            except Exception as e:
                                bad = ("the per-key union", repr(e))
                            if bad:
                                bad3 += 1
                                add_fail(dev3, case, bad[0], bad[1])
    finally:
        constants.always_return_list = True
    U.bounded_result(
        "C17.bounded.merge_attributes_shared_list",
        "same clause as C17.bounded.merge_attributes when one argument stores the SAME list object under two keys",
        "3 shared lists x 3 values of the other argument x which argument shares x numeric_sort on/off x dicts and Attributes", n3, dev3,
        exhaustive=True, sample={"failing cases": bad3, "of": n3})


# =============================================================================================
# unit 4: equality and hash
# =============================================================================================
BASE = ["chr1", "src", "gene", "100", "200", ".", "+", ".", "ID=a;Name=b,c"]
FIELD_VARIANTS = {
    0: ["chr2", "Chr1", "chr1 "],
    1: ["src2", "."],
    2: ["mRNA"],
    3: ["101", ".", "0100"],
    4: ["201", ".", "0200"],
    5: ["0.5", "0"],
    6: ["-", "."],
    7: ["0", "1"],
    8: ["ID=a;Name=c,b", "Name=b,c;ID=a", "ID=a;Name=b", "ID=a;Name=b;Name=c", "ID=a", "", "ID=a;Name=b,c;", "ID=a;Name=b%2Cc", "ID=a; Name=b,c",
        'gene_id "a"; Name "b";', 'gene_id "a"; Name "b"', "ID=a;Name=B,c", "ID=a;Name=b,c;Note=", "ID=a;Name", "ID=a;Name=é"],
}


def equality_pool(tmpdir):
    """(description, feature) -- built along different routes, some printing identically"""
    lines = ["\t".join(BASE)]
    for i, alts in FIELD_VARIANTS.items():
        for a in alts:
            x = list(BASE)
            x[i] = a
            lines.append("\t".join(x))
    lines.append("\t".join(BASE + ["extra1"]))
    lines.append("\t".join(BASE + ["extra1", "extra2"]))
    lines.append("\t".join(BASE + ["extra1\textra2"]))
    lines.append("\t".join(BASE[:8]))
    # printed lines that differ only in white space at the END of the line are different lines
    lines.append("\t".join(BASE) + " ")
    lines.append("\t".join(BASE) + "\u00a0")
    lines.append("\t".join(BASE + ["extra1 "]))
    lines.append("\t".join(BASE + ["extra1", ""]))
    lines.append("\t".join(BASE + [""]))
    lines.append("\t".join(BASE[:8] + [""]))
    lines.append("\t".join(BASE[:8] + ["", ""]))
    lines = list(dict.fromkeys(lines))
    pool = []
    for l in lines:
        pool.append(("parsed %r" % l, feature_from_line(l)))
    base = "\t".join(BASE)
    pool.append(("parsed again", feature_from_line(base)))
    pool.append(("parsed with trailing newline", feature_from_line(base + "\n")))
    pool.append(("parsed non-strict, spaces", feature_from_line(" ".join(BASE), strict=False)))
    pool.append(("parsed keep_order", feature_from_line(base, keep_order=True)))
    f = feature_from_line(base)
    f.id, f.bin, f.file_order = "other-id", 9999, 77
    pool.append(("parsed, different id/bin/file_order", f))
    f = feature_from_line(base)
    f.sort_attribute_values = True
    pool.append(("parsed, sort_attribute_values", f))
    f = feature_from_line("\t".join(BASE[:8] + ["ID=a;Name=c,b"]))
    f.sort_attribute_values = True
    pool.append(("parsed Name=c,b, sort_attribute_values", f))
    f = feature_from_line(base)
    f.dialect = dict(f.dialect)
    f.dialect["trailing semicolon"] = True
    pool.append(("parsed, dialect with trailing semicolon", f))
    f = feature_from_line("\t".join(BASE[:8] + ["ID=a;Name=b,c;"]))
    pool.append(("parsed with trailing semicolon", f))
    f = feature_from_line(base)
    f.attributes["Name"] = ("b", "c")
    pool.append(("parsed, Name set to a tuple", f))
    f = feature_from_line("\t".join(BASE[:8] + ["ID=a;Name=b"]))
    f["Name"] = "b"
    pool.append(("parsed Name=b, Name set to scalar", f))
    f = feature_from_line("\t".join(BASE[:8] + ["ID=a"]))
    f["Name"] = ["b", "c"]
    pool.append(("parsed ID=a, Name added", f))
    f = feature_from_line("\t".join(BASE[:8] + ["Name=b,c"]))
    f["ID"] = "a"
    pool.append(("parsed Name=b,c, ID added afterwards (other key order)", f))
    pool.append(("constructed from a dict", Feature("chr1", "src", "gene", 100, 200, ".", "+", ".", attributes={"ID": ["a"], "Name": ["b", "c"]})))
    pool.append(("constructed from JSON", Feature("chr1", "src", "gene", "100", "200", ".", "+", ".", attributes='{"ID":["a"],"Name":["b","c"]}')))
    pool.append(("constructed from an attribute string", Feature("chr1", "src", "gene", 100, 200, ".", "+", ".", attributes="ID=a;Name=b,c")))
    pool.append(("constructed, defaults", Feature()))
    pool.append(("constructed, defaults again", Feature(attributes={})))
    # database features
    dbfeats = []
    for i, l in enumerate(lines[:len(lines)]):
        g = feature_from_line(l)
        g.id = "f%d" % i
        dbfeats.append(g)
    db = native_db(dbfeats)
    for g in dbfeats:
        pool.append(("from database row of %r" % str(g), db[g.id]))
    db.conn.close()
    fn = os.path.join(tmpdir, "pool.gff")
    with open(fn, "w", encoding="utf-8") as fh:
        fh.write("\n".join(lines[:12]) + "\n")
    db2 = gffutils.create_db(fn, ":memory:", merge_strategy="create_unique", keep_order=True)
    for g in db2.all_features():
        pool.append(("from create_db(file, keep_order) id %s" % g.id, g))
    db2.conn.close()
    return pool


def pair_verdict(f, g):
    """None or (expected, observed) for one ordered pair, oracle = the printed lines"""
    sf, sg = str(f), str(g)
    same = sf == sg
    eq, ne = (f == g), (f != g)
    if not isinstance(eq, bool) or eq != same:
        return ({"==": same}, {"==": eq})
    if not isinstance(ne, bool) or ne != (not same):
        return ({"!=": not same}, {"!=": ne})
    if same:
        if hash(f) != hash(g):
            return ("equal hashes", [hash(f), hash(g)])
        if len({f, g}) != 1 or {f: "found"}.get(g) != "found" or g not in {f} or [f].count(g) != 1:
            return ("one set member / dict hit", "set size %d, dict %r" % (len({f, g}), {f: "found"}.get(g)))
    else:
        if len({f, g}) != 2 or {f: "found"}.get(g) is not None:
            return ("two set members / dict miss", "set size %d, dict %r" % (len({f, g}), {f: "found"}.get(g)))
    return None


# ---- edits: (name, function applied to a feature).  Each changes (or may change) the printed line.
def _e(name, fn):
    return (name, fn)


def _set_dialect(f, key, val):
    d = copy.deepcopy(f.dialect)
    d[key] = val
    f.dialect = d


EDITS = [
    _e("f['Name']='z'", lambda f: f.__setitem__("Name", "z")),
    _e("f['Name']=['b','c']", lambda f: f.__setitem__("Name", ["b", "c"])),
    _e("f['New']=['n']", lambda f: f.__setitem__("New", ["n"])),
    _e("f[0]='chr9'", lambda f: f.__setitem__(0, "chr9")),
    _e("f[3]=150", lambda f: f.__setitem__(3, 150)),
    _e("f[4]=250", lambda f: f.__setitem__(4, 250)),
    _e("f[6]='-'", lambda f: f.__setitem__(6, "-")),
    _e("f[8]=Attributes(ID=['q'])", lambda f: f.__setitem__(8, Attributes(ID=["q"]))),
    _e("f.attributes['Name']='z'", lambda f: f.attributes.__setitem__("Name", "z")),
    _e("f.attributes['Name']=['b','c']", lambda f: f.attributes.__setitem__("Name", ["b", "c"])),
    _e("f.attributes['New']=['n']", lambda f: f.attributes.__setitem__("New", ["n"])),
    _e("del f.attributes['Name']", lambda f: f.attributes.pop("Name", None)),
    _e("f.attributes.update(Name=['u','v'])", lambda f: f.attributes.update(Name=["u", "v"])),
    _e("f.attributes.setdefault('Other','o')", lambda f: f.attributes.setdefault("Other", "o")),
    _e("f.attributes.clear()", lambda f: f.attributes.clear()),
    _e("f.attributes = Attributes(ID=['r'])", lambda f: setattr(f, "attributes", Attributes(ID=["r"]))),
    _e("f.attributes[<first key>].append('more') (in place)", lambda f: _append_id(f)),
    _e("f.seqid='chr9'", lambda f: setattr(f, "seqid", "chr9")),
    _e("f.chrom='chr8'", lambda f: setattr(f, "chrom", "chr8")),
    _e("f.source='other'", lambda f: setattr(f, "source", "other")),
    _e("f.featuretype='mRNA'", lambda f: setattr(f, "featuretype", "mRNA")),
    _e("f.start=150", lambda f: setattr(f, "start", 150)),
    _e("f.start=None", lambda f: setattr(f, "start", None)),
    _e("f.end=250", lambda f: setattr(f, "end", 250)),
    _e("f.stop=260", lambda f: setattr(f, "stop", 260)),
    _e("f.score='0.9'", lambda f: setattr(f, "score", "0.9")),
    _e("f.strand='-'", lambda f: setattr(f, "strand", "-")),
    _e("f.frame='2'", lambda f: setattr(f, "frame", "2")),
    _e("f.extra.append('x')", lambda f: f.extra.append("x")),
    _e("f.extra=['y','z']", lambda f: setattr(f, "extra", ["y", "z"])),
    _e("f.dialect: trailing semicolon=True", lambda f: _set_dialect(f, "trailing semicolon", True)),
    _e("f.dialect: fmt gtf-like separators", lambda f: _set_dialect(f, "keyval separator", " ")),
    _e("f.keep_order=True", lambda f: setattr(f, "keep_order", True)),
    _e("f.sort_attribute_values=True", lambda f: setattr(f, "sort_attribute_values", True)),
    _e("vars(f).update(end=270)", lambda f: vars(f).update(end=270)),
]


def _append_id(f):
    """mutate the stored list of the first attribute in place (no __setitem__ anywhere)"""
    with view_switch(True):
        keys = list(f.attributes.keys())
        if keys:
            f.attributes[keys[0]].append("more")
        else:
            f.attributes["ID"] = ["more"]


HASH_USES = [
    ("hash(f)", lambda f, keep: keep.append(hash(f))),
    ("{f}", lambda f, keep: keep.append({f})),
    ("{f: 1}", lambda f, keep: keep.append({f: 1})),
    ("f in {f}", lambda f, keep: keep.append(f in {f})),
    ("f == f", lambda f, keep: keep.append(f == f)),
]

EDIT_LINES = ["chr1\tsrc\tgene\t100\t200\t.\t+\t.\tID=a;Name=c,b;Note=n",
              'chr1\tsrc\texon\t100\t200\t.\t+\t.\tgene_id "a"; Name "c"; Note "n";']


def unit_bounded_equality(U):
    # ---- all ordered pairs of a pool ---------------------------------------------------------
    fails, cases = [], 0
    tmpdir = tempfile.mkdtemp(prefix="c17_eq_", dir=tempfile.gettempdir())
    pool = []
    try:
        pool = equality_pool(tmpdir)
    except Exception:
        add_fail(fails, {"stage": "building the pool of features aborted by an exception of the code under test"}, "no exception", traceback.format_exc()[-1500:])
    finally:
        shutil.rmtree(tmpdir, ignore_errors=True)
    nsame = 0
    for (df, f), (dg, g) in itertools.product(pool, repeat=2):
        cases += 1
        try:
            bad = pair_verdict(f, g)
            nsame += str(f) == str(g)
        except Exception as e:
            bad = ("no exception", repr(e))
        if bad:
            add_fail(fails, {"f": df, "g": dg, "str(f)": str(f), "str(g)": str(g)}, bad[0], bad[1])
    U.bounded_result(
        "C17.bounded.equality",
        "for every ordered pair of Features: (f == g) == (str(f) == str(g)), (f != g) is its negation, and printed-equal features have equal hashes, share one set slot and "
        "find each other as dict keys (printed-different ones do not)",
        "all ordered pairs of %d features: one-field variants of a base line in each of the 9 columns (+ extra columns, 8 columns), the same content reached by parsing, "
        "non-strict parsing, construction from dict / JSON / attribute string, edits, tuples, different id/bin/file_order, keep_order, sort_attribute_values, dialect changes, "
        "rows of a native database and of create_db(file, keep_order=True); %d pairs print identically" % (len(pool), nsame),
        cases, fails, exhaustive=True, distinct=cases)

    # ---- features edited after they have been hashed ---------------------------------------------
    fails, cases, distinct = [], 0, set()
    dbs = []

    def sources():
        out = []
        for li, line in enumerate(EDIT_LINES):
            out.append(("parsed line %d" % li, (lambda line=line: feature_from_line(line))))
            g = feature_from_line(line)
            g.id = "k"
            db = native_db([g])
            dbs.append(db)
            out.append(("database row of line %d" % li, (lambda db=db: db["k"])))
        return out

    def run(srcname, thunk, steps):
        """steps: list of ('H', i) / ('E', i).  f performs all steps; g performs only the edits, and is
        never hashed before the comparison."""
        nonlocal cases
        cases += 1
        distinct.add((srcname, tuple(steps)))
        case = {"source": srcname, "steps on f": [HASH_USES[i][0] if k == "H" else EDITS[i][0] for k, i in steps],
                "g": "fresh feature from the same source with the same edits, never hashed before"}
        try:
            f, g, o = thunk(), thunk(), thunk()
            keep = []
            for k, i in steps:
                if k == "H":
                    HASH_USES[i][1](f, keep)
                else:
                    EDITS[i][1](f)
                    EDITS[i][1](g)
            case["str(f)"] = str(f)
            if str(f) != str(g):
                add_fail(fails, dict(case, what="harness: twin does not print identically"), str(f), str(g))
                return
            hf_first = hash(f)
            bad = pair_verdict(f, g) or pair_verdict(g, f) or pair_verdict(f, o) or pair_verdict(o, f)
            if bad is None:
                # a third feature built from the printed line, when it prints identically
                h = None
                try:
                    h = feature_from_line(str(f), dialect=copy.deepcopy(f.dialect), keep_order=f.keep_order)
                    h.sort_attribute_values = f.sort_attribute_values
                    if str(h) != str(f):
                        h = None
                except Exception:
                    h = None          # re-parsing is not this property's business
                if h is not None:
                    bad = pair_verdict(f, h) or pair_verdict(h, f)
            if bad is None and hf_first != hash(g):
                bad = ("hash(f) == hash(g)", [hf_first, hash(g)])
            if bad is None and any(k == "E" for k, _ in steps):
                # members hashed earlier must not make the edited feature findable under a stale slot
                # in a FRESH container
                if (g in {f}) is not True or (f in {g}) is not True:
                    bad = ("f and g interchangeable as members of a fresh set", [(g in {f}), (f in {g})])
        except Exception as e:
            bad = ("no exception", repr(e))
        if bad:
            add_fail(fails, case, bad[0], bad[1])

    try:
        srcs = sources()
        nE, nH = len(EDITS), len(HASH_USES)
        for srcname, thunk in srcs:
            # hash, edit
            for h in range(nH):
                for e in range(nE):
                    run(srcname, thunk, [("H", h), ("E", e)])
            # edit only / hash only (controls)
            for e in range(nE):
                run(srcname, thunk, [("E", e)])
            for h in range(nH):
                run(srcname, thunk, [("H", h)])
        # two edits with a hash before, between, or both
        combos = []
        for e1, e2 in itertools.product(range(nE), repeat=2):
            combos.append([("H", 0), ("E", e1), ("E", e2)])
            combos.append([("E", e1), ("H", 0), ("E", e2)])
            combos.append([("H", 1), ("E", e1), ("H", 2), ("E", e2)])
        if not U.thorough:
            combos = U.rng.sample(combos, 1500)
        for i, steps in enumerate(combos):
            srcname, thunk = srcs[i % len(srcs)] if not U.thorough else srcs[0]
            run(srcname, thunk, steps)
            if U.thorough:
                srcname, thunk = srcs[1 + i % (len(srcs) - 1)]
                run(srcname, thunk, steps)
        if U.thorough:
            for _ in range(20000):
                n = U.rng.choice((3, 4, 5))
                steps = []
                for _j in range(n):
                    steps.append(("H", U.rng.randrange(nH)) if U.rng.random() < 0.4 else ("E", U.rng.randrange(nE)))
                srcname, thunk = U.rng.choice(srcs)
                run(srcname, thunk, steps)
        # edit and edit back: equal to the untouched original again, with the original's hash
        for srcname, thunk in srcs:
            for h in range(nH):
                for field, tmpval in (("end", 999), ("strand", "-"), ("seqid", "zz"), ("score", "7"), ("start", None)):
                    cases += 1
                    distinct.add((srcname, h, field, "back"))
                    f, o = thunk(), thunk()
                    keep = []
                    HASH_USES[h][1](f, keep)
                    old = getattr(f, field)
                    setattr(f, field, tmpval)
                    HASH_USES[h][1](f, keep)
                    mid = pair_verdict(f, o)
                    setattr(f, field, old)
                    bad = mid or pair_verdict(f, o) or pair_verdict(o, f)
                    if bad:
                        add_fail(fails, {"source": srcname, "steps on f": [HASH_USES[h][0], "f.%s=%r" % (field, tmpval), HASH_USES[h][0], "f.%s=%r (restored)" % (field, old)],
                                         "g": "untouched fresh feature"}, bad[0], bad[1])
                for key, tmpval in (("Name", "tmp"), ("Note", ["n", "m"])):
                    cases += 1
                    distinct.add((srcname, h, key, "back"))
                    f, o = thunk(), thunk()
                    keep = []
                    HASH_USES[h][1](f, keep)
                    with view_switch(True):
                        old = list(f.attributes[key])
                    f.attributes[key] = tmpval
                    HASH_USES[h][1](f, keep)
                    mid = pair_verdict(f, o)
                    f.attributes[key] = old
                    bad = mid or pair_verdict(f, o) or pair_verdict(o, f)
                    if bad:
                        add_fail(fails, {"source": srcname, "steps on f": [HASH_USES[h][0], "f.attributes[%r]=%r" % (key, tmpval), HASH_USES[h][0], "f.attributes[%r]=%r (restored)" % (key, old)],
                                         "g": "untouched fresh feature"}, bad[0], bad[1])
    except Exception:
        add_fail(fails, {"stage": "stand-in set-up or enumeration aborted by an exception of the code under test"}, "no exception", traceback.format_exc()[-1500:])
    finally:
        constants.always_return_list = True
        for d in dbs:
            try:
                d.conn.close()
            except Exception:
                pass
    U.bounded_result(
        "C17.bounded.hash_after_edit",
        "a Feature that was hashed (hash(), set member, dict key, membership test) and then edited still satisfies: == / != follow the printed line and printed-equal features "
        "hash alike -- against a never-hashed twin carrying the same edits, a re-parse of its printed line and the unedited original",
        "4 sources (GFF3 and GTF line, parsed and fetched from a database) x 5 ways of hashing x %d edits (Feature[key], Feature[int], attributes mapping set/del/update/"
        "setdefault/clear/replace/in-place list append, every column attribute and alias, extra, dialect, keep_order, sort_attribute_values, vars()): all hash-then-edit "
        "sequences, controls, edit-and-restore sequences; %s"
        % (len(EDITS), "all two-edit sequences with hashes before / between / both on all sources; 20000 random sequences of 3-5 steps" if U.thorough
           else "1500 random two-edit sequences with hashes before / between / both"),
        cases, fails, exhaustive=False, distinct=len(distinct))


UNITS = [
    ("bounded.container", unit_bounded_container),
    ("bounded.json", unit_bounded_json),
    ("bounded.merge", unit_bounded_merge),
    ("bounded.equality", unit_bounded_equality),
]
