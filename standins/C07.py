"""Bounded run-time stand-ins for C07: parsing a line and printing it reproduces the line in every
consistent dialect.

The oracle is written from the statement and DESIGN.md A.3, not from gffutils/parser.py:

  * a line is *built* from (eight columns, ordered attribute items with DECODED values, a dialect,
    extra columns) by the writer `enc` below;
  * the real `feature_from_line(line, keep_order=True)` must give back exactly those columns
    ('.' coordinate -> None, otherwise int), those items in that order with those decoded values, and
    those extra columns; `str()` of it must be `line` byte for byte;
  * for a nine-column line without blanks in columns 1-8, `feature_from_line(rendering, strict=False)` of
    a rendering that uses blanks instead of tabs must compare equal to the strictly parsed Feature (and
    agree with it field by field).

Dialect = (field separator in {';', '; ', ' ; '}) x (trailing ';') x (style in k=v, k="v", k "v", k v)
x (multi-valued keys as comma list | as adjacent repeated keys) = 48 dialects.  Percent-escapes are part
of the format for every style except k "v" (GTF), where the text between the quotes is the value.
"""
import itertools
import re

import gffutils  # noqa: F401  (the tree under test is selected by sys.path of the harness)
from gffutils.feature import feature_from_line

# ----------------------------------------------------------------------------------------------
# the writer (specification side)
# ----------------------------------------------------------------------------------------------

RESERVED = [chr(i) for i in range(32)] + [chr(127)] + list("%;=&,")
_RESERVED_SET = frozenset(RESERVED)
# characters at which str.splitlines() breaks a string although they are not line terminators of a
# GFF file and need no escape (the C0 ones among them are reserved and always escaped in gff3 text)
LINEBREAKISH = "\x0b\x0c\x1c\x1d\x1e\x85\u2028\u2029"

SEPS = (";", "; ", " ; ")
STYLES = ("k=v", 'k="v"', 'k "v"', "k v")


class Dialect(object):
    __slots__ = ("sep", "trailing", "style", "repeated", "kv", "quoted", "gtf")

    def __init__(self, sep, trailing, style, repeated):
        self.sep, self.trailing, self.style, self.repeated = sep, trailing, style, repeated
        self.kv = "=" if style in ("k=v", 'k="v"') else " "
        self.quoted = style in ('k="v"', 'k "v"')
        self.gtf = style == 'k "v"'

    def describe(self):
        return {"field separator": self.sep, "trailing semicolon": self.trailing, "style": self.style,
                "repeated keys": self.repeated}


DIALECTS = [Dialect(s, t, st, r) for st in STYLES for s in SEPS for t in (False, True) for r in (False, True)]
assert len(DIALECTS) == 48


def pct(v):
    """upper-case percent-escape of exactly the reserved characters"""
    return "".join("%%%02X" % ord(c) if c in _RESERVED_SET else c for c in v)


def wire(v, D):
    return v if D.gtf else pct(v)


def enc(items, D):
    parts = []
    for k, vs in items:
        if not vs:
            parts.append(k + ' ""' if D.gtf else k)
            continue
        groups = [[v] for v in vs] if (D.repeated and len(vs) > 1) else [vs]
        for g in groups:
            s = ",".join(wire(v, D) for v in g)
            if D.quoted:
                s = '"' + s + '"'
            parts.append(k + D.kv + s)
    return D.sep.join(parts) + (";" if D.trailing else "")


def make_line(cols, attr, extra):
    return "\t".join(list(cols) + [attr] + list(extra))


_WORD = re.compile(r"^\w+$")


def value_ok(v, D):
    """the grammar's requirements on one decoded value under dialect D"""
    if not v:
        return False
    w = wire(v, D)
    if w != w.strip():
        return False
    if D.gtf:
        # no escape mechanism: structural characters cannot occur at all
        if any(c in w for c in ";,\t\r\n"):
            return False
    if not D.quoted and w.startswith('"'):
        return False
    return True


def in_grammar(items, D):
    keys = [k for k, _ in items]
    if len(set(keys)) != len(keys):
        return False
    for k in keys:
        if not k or k != k.strip() or any(c in k for c in ";=,\t\r\n\"") or (D.kv == " " and " " in k):
            return False
    if D.kv == "=":
        if not items or not items[0][1] or not _WORD.match(items[0][0]):
            return False
    return all(value_ok(v, D) for _, vs in items for v in vs)


# ----------------------------------------------------------------------------------------------
# the check
# ----------------------------------------------------------------------------------------------

def _coord(c):
    return None if c == "." else int(c)


def loose_applicable(cols, attr, extra):
    if extra:
        return False
    if any((not c) or any(ch.isspace() for ch in c) for c in cols):
        return False
    if attr != attr.strip():
        return False
    return True


def spaced_renderings(cols, attr, full):
    base = " ".join(list(cols) + [attr])
    yield "single", base
    if full:
        yield "double", "  ".join(list(cols) + [attr])
        yield "docstring", "\n    " + base + "\n    "


class Checker(object):
    def __init__(self, max_fail=25):
        self.cases = 0
        self.fails = []
        self.lb_cases = 0          # loose renderings whose attribute column holds a splitlines() character
        self.lb_fails = []
        self.seen = set()
        self.max_fail = max_fail
        self.sample = None

    def _fail(self, lst, case, what, expected, observed):
        if len(lst) < self.max_fail:
            c = dict(case)
            c["check"] = what
            lst.append({"case": c, "expected": expected, "observed": observed})

    def run(self, cols, items, D, extra, full_loose=False):
        """one case; returns False if the line was already checked"""
        attr = enc(items, D)
        line = make_line(cols, attr, extra)
        if line in self.seen:
            return False
        self.seen.add(line)
        self.cases += 1
        case = {"line": line, "dialect": D.describe(), "items": [[k, list(vs)] for k, vs in items],
                "extra": list(extra)}
        if self.sample is None:
            self.sample = case
        try:
            f = feature_from_line(line, keep_order=True)
            printed = str(f)
        except Exception as e:  # noqa
            self._fail(self.fails, case, "strict parse/print", "no exception", repr(e))
            return True
        exp_cols = [cols[0], cols[1], cols[2], _coord(cols[3]), _coord(cols[4]), cols[5], cols[6], cols[7]]
        got_cols = [f.seqid, f.source, f.featuretype, f.start, f.end, f.score, f.strand, f.frame]
        if got_cols != exp_cols or [type(x) for x in got_cols] != [type(x) for x in exp_cols]:
            self._fail(self.fails, case, "columns", exp_cols, got_cols)
        got_items = [[k, v] for k, v in f.attributes.items()]
        exp_items = [[k, list(vs)] for k, vs in items]
        if got_items != exp_items or not all(isinstance(v, list) and all(type(x) is str for x in v) for _, v in got_items):
            self._fail(self.fails, case, "decoded attribute items in order", exp_items, got_items)
        if f.extra != list(extra) or not isinstance(f.extra, list):
            self._fail(self.fails, case, "extra columns", list(extra), f.extra)
        if printed != line:
            self._fail(self.fails, case, "str(feature) == line", line, printed)
        if loose_applicable(cols, attr, extra):
            lb = any(c in attr for c in LINEBREAKISH)
            for rname, sp in spaced_renderings(cols, attr, full_loose):
                tgt = self.lb_fails if lb else self.fails
                if lb:
                    self.lb_cases += 1
                c2 = dict(case)
                c2["rendering"] = sp
                try:
                    g = feature_from_line(sp, strict=False, keep_order=True)
                    ok = (g == f) and not (g != f)
                    same = ([g.seqid, g.source, g.featuretype, g.start, g.end, g.score, g.strand, g.frame] == got_cols
                            and list(g.attributes.items()) == list(f.attributes.items())
                            and g.extra == f.extra and g.dialect == f.dialect)
                    if not ok or not same:
                        self._fail(tgt, c2, "strict=False rendering (%s) equal to strict parse" % rname, printed, str(g))
                except Exception as e:  # noqa
                    self._fail(tgt, c2, "strict=False rendering (%s) equal to strict parse" % rname, "equal Feature", repr(e))
        return True


# ----------------------------------------------------------------------------------------------
# pools
# ----------------------------------------------------------------------------------------------

COLS_A = ("chr2L", "FlyBase", "exon", "7529", "8116", "0.5", "+", ".")
COLS_DOT = ("chr2L", ".", "region", ".", ".", ".", ".", ".")
COL_POOLS = (
    ("chr1", "chrüñ", "scaffold_12|x", ".", "chr 1", ""),                      # seqid
    (".", "FlyBase", "a:b", "two words", ""),                                           # source
    ("gene", "five_prime_UTR", ".", ""),                                                # type
    (".", "1", "0", "-5", "7529", "536870912", "536870913", "99999999999999999999"),    # start
    (".", "1", "0", "8116", "536870911", "536870912", "536870913", "100000000000000000000"),  # end
    (".", "0.5", "1e-10", "-3", ""),                                                    # score
    ("+", "-", ".", "?", ""),                                                           # strand
    (".", "0", "1", "2", ""),                                                           # frame
)
EXTRAS = ([], ["extra1"], ["e1", "e2", "e3"], [""], ["", ""], ["x", "", "y"], ["with blank", "ID=a;b=c", "%2Cé"],
          ["[1, 2]"], ['{"a": 1}'], ["."])

KEYS_WORD = ("ID", "Name", "Parent", "gene_id", "transcript_id", "k5", "_x", "ключ", "Dbxref", "Note")
KEYS_ANY = ("a.b-c", "tag", "Ontology_term", "5utr", "k:1", "x|y", "été")
PLAIN = ("a", "gene1", "B0273.1", "AT1G01010", "x-y_z", "1", "0", "é", "中文", "GO:0005575", "+", "a\"b", "it's",
         "a/b", "(x)", "[y]", "#1", "a:b|c", "\U0001f9ec", "p.q", "~", "A", "ßα", "-", ".", "..", "*", "@home", "a\\tb", "a+b")
SPACED = ("three words here", "a  b", "x y", "marker name(s): T0028", "a \"q\" b", "é è", "a\xa0b c")


def rot(pool, i):
    return pool[i % len(pool)]


def esc_values():
    """decoded values that need escapes in gff3 text: every reserved character in several positions"""
    out = []
    for c in RESERVED:
        out += [c, "x" + c + "y", c + "z", "z" + c, c + c, "a" + c + "b" + c + "c"]
    out += ["%41", "%2C", "%2c", "100%", "%%", "%25", "%;=&,", "a=b;c=d,e&f", "\t\n\r", "a%zz", "\x00\x7f", "%e9", "%E4%B8%AD",
            "50% of x, y; z=1 & more", "é,中", "a,☃;b"]
    return out


ESC = esc_values()
GTF_RAW = ("x%2Cy", "50%", "p&q", "a=b", "%", "&", "=", "%41", "k=v&w=%3B", "\x01", "a\x7fb", "%2c", "a%zz")


def all_shapes(max_attrs, max_vals):
    for n in range(1, max_attrs + 1):
        for sh in itertools.product(range(0, max_vals + 1), repeat=n):
            yield sh


def keys_for(n, D, i):
    """n distinct keys; the first is word-like"""
    ks = [rot(KEYS_WORD, i)]
    pool = KEYS_WORD + KEYS_ANY
    j = i + 1
    while len(ks) < n:
        k = rot(pool, j * 3 + 1)
        j += 1
        if k not in ks:
            ks.append(k)
    return ks


# ----------------------------------------------------------------------------------------------
# unit 1: every shape x every dialect, an escape walked through every value position
# ----------------------------------------------------------------------------------------------

def unit_shapes(U):
    ck = Checker()
    max_attrs, max_vals = (4, 3) if U.thorough else (3, 3)
    shapes = list(all_shapes(max_attrs, max_vals))
    esc_per_pos = 6 if U.thorough else 2
    ctr = 0
    skipped = 0
    for D in DIALECTS:
        esc_pool = GTF_RAW if D.gtf else ESC
        for sh in shapes:
            if U.thorough and len(sh) == 4 and ((sh[0] + 2 * sh[1] + 3 * sh[2] + 5 * sh[3] + DIALECTS.index(D)) % 4):
                continue                       # a quarter of the four-attribute shapes per dialect, all covered across dialects
            positions = [(a, j) for a, nv in enumerate(sh) for j in range(nv)]
            variants = [None] + [(p, e) for p in positions for e in range(esc_per_pos)] + ["spaced", "allesc"]
            for var in variants:
                ctr += 1
                ks = keys_for(len(sh), D, ctr)
                items = []
                vctr = ctr * 7
                for a, nv in enumerate(sh):
                    vs = []
                    for j in range(nv):
                        vctr += 1
                        if var == "allesc":
                            v = rot(esc_pool, vctr)
                        elif var == "spaced" and (a + j) % 2 == 0:
                            v = rot(SPACED, vctr)
                        elif isinstance(var, tuple) and var[0] == (a, j):
                            v = rot(esc_pool, ctr + var[1] * 53)
                        else:
                            v = rot(PLAIN, vctr)
                        if not value_ok(v, D):
                            v = rot(PLAIN, vctr)
                            if not value_ok(v, D):
                                v = "v%d" % vctr
                        vs.append(v)
                    items.append((ks[a], vs))
                if not in_grammar(items, D):
                    skipped += 1
                    continue
                cols = COLS_A if ctr % 3 else COLS_DOT
                extra = EXTRAS[0] if ctr % 4 else rot(EXTRAS, ctr // 4)
                ck.run(cols, items, D, extra)
    U.bounded_result(
        "C07.bounded.shapes",
        "feature_from_line(line(c, items, D, extra), keep_order=True) has columns c, attribute items == items (decoded, in order), "
        "extra == extra, str() == line; strict=False parse of the blank-separated rendering is an equal Feature",
        "48 dialects (3 separators x trailing ';' x {k=v, k=\"v\", k \"v\", k v} x comma-list/repeated keys) x every shape with "
        "<= %d attributes of 0..%d values (flags included; first attribute valued in '=' styles%s) x {plain, spaced, all-escaped, "
        "one escaped value walked through every value position (%d picks from the %d-entry escape pool)} ; columns/extra rotated"
        % (max_attrs, max_vals, "; 1/4 of the 4-attribute shapes per dialect" if U.thorough else "", esc_per_pos, len(ESC)),
        ck.cases, ck.fails, exhaustive=False, distinct=len(ck.seen), sample=ck.sample)


# ----------------------------------------------------------------------------------------------
# unit 2: every reserved character, every placement, every dialect (the print-side re-escape)
# ----------------------------------------------------------------------------------------------

def placements():
    """(description, builder(v) -> items); other values plain"""
    return [
        ("only", lambda v: [("ID", [v])]),
        ("single-valued first", lambda v: [("ID", [v]), ("Name", ["n"])]),
        ("single-valued later", lambda v: [("ID", ["g"]), ("Note", [v])]),
        ("first of 2 (first key)", lambda v: [("Note", [v, "second"]), ("Name", ["n"])]),
        ("last of 2 (first key)", lambda v: [("Note", ["first", v])]),
        ("first of 2 (later key)", lambda v: [("ID", ["g"]), ("Note", [v, "second"])]),
        ("last of 2 (later key)", lambda v: [("ID", ["g"]), ("Note", ["first", v]), ("Alias", ["al"])]),
        ("middle of 3", lambda v: [("ID", ["g"]), ("Note", ["first", v, "third"])]),
        ("all of 3", lambda v: [("ID", ["g"]), ("Note", [v, v + "2", "3" + v])]),
        ("two multi keys", lambda v: [("ID", ["g"]), ("Note", ["a", v]), ("Alias", [v, "b"])]),
        ("after flag", lambda v: [("ID", ["g"]), ("partial", []), ("Note", ["a", v])]),
        ("before flag", lambda v: [("ID", ["g"]), ("Note", [v, "a"]), ("partial", [])]),
    ]


def unit_escapes(U):
    ck = Checker()
    ctr = 0
    forms = [lambda c: c, lambda c: "x" + c + "y", lambda c: c + "z", lambda c: "z" + c, lambda c: c + c,
             lambda c: "é" + c + "中", lambda c: "a b" + c + "c d", lambda c: c + "41", lambda c: "%" + c]
    if not U.thorough:
        forms = [forms[0], forms[1], forms[4], forms[7]]
    pl = placements()
    for D in DIALECTS:
        chars = list(RESERVED) if not D.gtf else list("%&=") + ["\x01", "\x7f"]
        for c in chars:
            for fi, form in enumerate(forms):
                v = form(c)
                if not value_ok(v, D):
                    continue
                for pname, build in pl:
                    items = build(v)
                    if not in_grammar(items, D):
                        continue
                    ctr += 1
                    cols = COLS_A if ctr % 2 else COLS_DOT
                    extra = EXTRAS[0] if ctr % 5 else rot(EXTRAS, ctr // 5)
                    ck.run(cols, items, D, extra)
        # composite decoded values
        for v in ESC[len(RESERVED) * 6:] if not D.gtf else GTF_RAW:
            if not value_ok(v, D):
                continue
            for pname, build in pl:
                items = build(v)
                if in_grammar(items, D):
                    ck.run(COLS_A, items, D, [])
    U.bounded_result(
        "C07.bounded.escapes",
        "a decoded value holding a reserved character is written as its upper-case percent-escape, parsed back to the decoded "
        "value and printed again as the same escape (line reproduced byte for byte), wherever the value stands",
        "48 dialects x every reserved character (%d: C0 controls, DEL, %% ; = & ,; in k \"v\" lines the raw characters %% & = "
        "\\x01 \\x7f) x %d forms (alone, infix, prefix, suffix, doubled, ...) x 12 placements (only value, single-valued "
        "first/later key, first/last/middle/all values of a multi-valued first/later key, two multi-valued keys, next to a "
        "flag) + composite values" % (len(RESERVED), len(forms)),
        ck.cases, ck.fails, exhaustive=True, distinct=len(ck.seen), sample=ck.sample)


# ----------------------------------------------------------------------------------------------
# unit 3: columns 1-8, '.' coordinates, empty attribute column, extra columns, renderings
# ----------------------------------------------------------------------------------------------

def attr_specimens():
    """one small attribute column per dialect (plus the empty column)"""
    out = [([], DIALECTS[0])]
    for D in DIALECTS:
        items = [("ID", ["g1"]), ("Note", ["x,y" if not D.gtf else "x%2Cy", "two words"]), ("flag", []), ("Alias", ["al"])]
        out.append((items, D))
        out.append(([("gene_id", ["g"])], D))
    return out


def unit_columns(U):
    ck = Checker()
    specimens = attr_specimens()
    # (a) one column varied at a time around two base rows, all extras, all specimens
    rows = []
    for base in (COLS_A, COLS_DOT):
        rows.append(base)
        for ci, pool in enumerate(COL_POOLS):
            for val in pool:
                r = list(base)
                r[ci] = val
                rows.append(tuple(r))
    # (b) all start x end pairs
    for s in COL_POOLS[3]:
        for e in COL_POOLS[4]:
            rows.append(("chr1", "src", "gene", s, e, ".", "-", "0"))
    rows = list(dict.fromkeys(rows))
    n = 0
    for row in rows:
        for si, (items, D) in enumerate(specimens):
            if not U.thorough and si and (si + n) % 4:
                continue
            n += 1
            for extra in EXTRAS:
                ck.run(row, items, D, extra, full_loose=True)
    # (c) full product of a reduced pool for columns, empty and one-attribute column
    red = (("chr1", "."), (".", "src"), ("gene",), (".", "1", "536870913"), (".", "8116", "536870912"), (".", "0.5"),
           ("+", ".", "-"), (".", "2"))
    for row in itertools.product(*red):
        for items, D in (specimens[0], specimens[1], specimens[1 + 2 * 17], specimens[1 + 2 * 30]):
            for extra in (EXTRAS if U.thorough else EXTRAS[:4]):
                ck.run(row, items, D, extra, full_loose=True)
    # (d) many extra columns
    for k in (4, 7, 20):
        for items, D in specimens[:9]:
            ck.run(COLS_A, items, D, ["x%d" % i if i % 3 else "" for i in range(k)])
    U.bounded_result(
        "C07.bounded.columns",
        "columns 1-8 are carried verbatim ('.' coordinate -> None, otherwise int), fields after the ninth become extra, and "
        "str() reproduces the line including '.' coordinates, an empty attribute column and trailing extra columns; "
        "strict=False parse of blank-separated renderings (single blank, double blank, indented between newlines) is an equal Feature",
        "%d rows (each column varied over its pool around two base rows; all %d start x end pairs incl. 0, negative, 2**29 +- 1, "
        "start > end, > 2**64; 2x2x3x3x2x3x2 product of a reduced pool) x {empty attribute column, 2 specimens per dialect (%s)} "
        "x %d extra-column lists (none, 1, 3, empty strings, JSON-looking, blanks) + 4/7/20 extra columns"
        % (len(rows), len(COL_POOLS[3]) * len(COL_POOLS[4]), "all" if U.thorough else "a rotating quarter per row", len(EXTRAS)),
        ck.cases, ck.fails, exhaustive=False, distinct=len(ck.seen), sample=ck.sample)


# ----------------------------------------------------------------------------------------------
# unit 4: seeded-random grammar lines beyond the enumerated shapes
# ----------------------------------------------------------------------------------------------

ALNUM = "abcdefghijklmnopqrstuvwxyzABCDEFGHIJKLMNOPQRSTUVWXYZ0123456789"
PUNCT = "-_.:|/()[]+*#@!?~^'<>{}\\$`"
UNI = "éüñßαβж中文あאع\U0001f9ec☃\xa0\u3000\u200b"
HEXISH = "0123456789ABCDEFabcdef"


def rand_value(rng, D, allow_lb=False):
    for _ in range(50):
        n = rng.choice((1, 1, 2, 3, 5, 8, 13))
        cs = []
        for _i in range(n):
            r = rng.random()
            if r < 0.45:
                cs.append(rng.choice(ALNUM))
            elif r < 0.55:
                cs.append(rng.choice(PUNCT))
            elif r < 0.65:
                cs.append(rng.choice(UNI))
            elif r < 0.73:
                cs.append(" ")
            elif r < 0.77:
                cs.append('"')
            elif r < 0.83:
                cs.append(rng.choice(HEXISH))
            elif allow_lb and r < 0.86:
                cs.append(rng.choice("\x85\u2028\u2029"))
            elif D.gtf:
                cs.append(rng.choice("%&=%"))
            else:
                cs.append(rng.choice(RESERVED) if rng.random() < 0.5 else rng.choice("%;=&,\t\n"))
        v = "".join(cs)
        if value_ok(v, D):
            return v
    return "v"


def rand_key(rng, first):
    n = rng.choice((1, 2, 4, 7))
    alphabet = ALNUM + "_" + ("éж中" if rng.random() < 0.2 else "")
    if not first and rng.random() < 0.3:
        alphabet += ".-:|"
    return "".join(rng.choice(alphabet) for _ in range(n))


def rand_items(rng, D, max_attrs, max_vals, allow_lb=False):
    n = rng.randint(1, max_attrs)
    items, used = [], set()
    for a in range(n):
        for _ in range(20):
            k = rand_key(rng, a == 0)
            if k not in used:
                break
        else:
            k = "key%d" % a
        used.add(k)
        r = rng.random()
        nv = 0 if r < 0.12 else 1 if r < 0.55 else rng.randint(2, max_vals)
        if a == 0 and D.kv == "=" and nv == 0:
            nv = 1
        items.append((k, [rand_value(rng, D, allow_lb) for _ in range(nv)]))
    return items


def rand_cols(rng):
    if rng.random() < 0.5:
        return COLS_A if rng.random() < 0.7 else COLS_DOT
    return tuple(rng.choice(p) for p in COL_POOLS)


def rand_extra(rng):
    r = rng.random()
    if r < 0.6:
        return []
    return [rng.choice(("", "x", "e 1", "%2C", "a=b;c", "é", "[1]", ".")) for _ in range(rng.randint(1, 5))]


def unit_random(U):
    ck = Checker()
    N = 400000 if U.thorough else 30000
    max_attrs, max_vals = (7, 5) if U.thorough else (5, 4)
    rng = U.rng
    for i in range(N):
        D = DIALECTS[i % 48]
        items = rand_items(rng, D, max_attrs, max_vals)
        if not in_grammar(items, D):
            continue
        ck.run(rand_cols(rng), items, D, rand_extra(rng), full_loose=(i % 10 == 0))
    U.bounded_result(
        "C07.bounded.random",
        "same comparison as C07.bounded.shapes on seeded-random lines of the grammar",
        "%d draws cycling through the 48 dialects: 1..%d attributes x 0..%d values, values of 1..13 characters over letters, digits, "
        "punctuation, blanks, quotes, non-ASCII (incl. U+00A0, U+3000, astral) and reserved characters (escaped on the wire; raw "
        "%% & = in k \"v\" lines), random keys, random columns and 0..5 extra columns" % (N, max_attrs, max_vals),
        ck.cases, ck.fails, exhaustive=False, distinct=len(ck.seen), sample=ck.sample)

    # ---- separately reported: attribute column holding a character at which str.splitlines() breaks ----
    lb = Checker()
    n = 0
    for D in DIALECTS:
        for ch in ("\u2028", "\u2029", "\x85") + (("\x0b", "\x0c", "\x1c", "\x1d", "\x1e") if D.gtf else ()):
            for items in ([("ID", ["a" + ch + "b"])], [("ID", ["g"]), ("Note", ["x", "p" + ch + "q"])]):
                if in_grammar(items, D):
                    n += 1
                    lb.run(COLS_A, items, D, [])
    U.bounded_result(
        "C07.bounded.strict_linebreakish",
        "strict parse/print round trip of lines whose attribute values hold U+2028, U+2029, U+0085 (or, in k \"v\" lines, raw "
        "VT FF FS GS RS) - characters that need no escape and do not end a line of a GFF file",
        "48 dialects x the listed characters x 2 placements (strict parsing only)",
        lb.cases, lb.fails, exhaustive=True, distinct=len(lb.seen), sample=lb.sample)
    U.bounded_result(
        "C07.bounded.loose_linebreakish",
        "strict=False parse of the blank-separated rendering of such a nine-column line is an equal Feature",
        "the same lines, single-blank rendering",
        lb.lb_cases, lb.lb_fails, exhaustive=True, distinct=lb.lb_cases, sample=lb.sample)


def unit_semicolons(U):
    """k "v" lines have no escape for ';' - but a ';' that is not part of the line's field separator ('; ' or ' ; ': the
    semicolon there is followed by a blank) is ordinary text between the quotes, in whichever attribute it stands"""
    ck = Checker()
    vals = ("kinase;putative", "a;b;c", "x;", ";x", "p;;q", "EC:1.1;2.2")
    for D in DIALECTS:
        if not D.gtf or D.sep == ";":
            continue
        for v in vals:
            for pos in (0, 1, 2):
                items = [("gene_id", ["g1"]), ("transcript_id", ["t1"])]
                items.insert(pos, ("note", [v]))
                ck.run(COLS_A, items, D, [])
            ck.run(COLS_A, [("note", [v]), ("gene_id", ["g1"]), ("tag", ["u;v"] if D.repeated else ["u;v"])], D, ["extra"])
    U.bounded_result(
        "C07.bounded.semicolon_in_quotes",
        "k \"v\" lines whose values hold a ';' that is not followed by a blank (field separator '; ' or ' ; ') parse to those values and print back byte for byte",
        "16 k \"v\" dialects with a blank in the separator x 6 values x first / middle / last attribute (+ two such values, extra column)",
        ck.cases, ck.fails, exhaustive=True, distinct=len(ck.seen), sample=ck.sample)


UNITS = [
    ("bounded.semicolons", unit_semicolons),
    ("bounded.shapes", unit_shapes),
    ("bounded.escapes", unit_escapes),
    ("bounded.columns", unit_columns),
    ("bounded.random", unit_random),
]
