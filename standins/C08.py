"""Bounded run-time stand-ins for C08: attribute values survive print/parse losslessly; parsing
never fails.

Everything is evaluated natively on the real gffutils (Feature.__str__, feature_from_line,
parser._split_keyvals, Feature.__init__).  The oracle is written from the statement and from
DESIGN.md Appendix A.3 (pct / enc); nothing is read from parser.py (in particular the reserved set
is spelled out here, not taken from parser._to_quote).

Units (parallel processes):
  bounded.roundtrip_gff3   print -> nine columns -> parse with the same dialect == identity, arbitrary
                           Unicode contents, every gff3-style dialect; print == enc (Appendix A.3)
  bounded.roundtrip_gtf    the same for gtf-style dialects (no escaping) on the restricted contents;
                           plus three separately reported deviations of the pinned tree
  bounded.parse_total      every string over the structural alphabet up to a length bound, dialect
                           inferred, through _split_keyvals and feature_from_line; random beyond;
                           plus the Feature(attributes=<raw string>) path (separately reported)
  bounded.parse_supplied   the same strings under every supplied dialect dictionary
"""
import copy
import itertools
import json
import unicodedata

import gffutils  # noqa: F401
from gffutils import constants, parser
from gffutils.attributes import Attributes
from gffutils.feature import Feature, feature_from_line

CAP = 40          # recorded failures per stand-in (cases are still counted)

# ------------------------------------------------------------------------------------------------
# oracle (statement + Appendix A.3)
# ------------------------------------------------------------------------------------------------
RESERVED = frozenset("\t\n\r%;=&,") | frozenset(chr(i) for i in range(32)) | frozenset(chr(127))
NINE_KEYS = ("leading semicolon", "trailing semicolon", "quoted GFF2 values", "field separator",
             "keyval separator", "multival separator", "fmt", "repeated keys", "order")


def pct(v):
    return "".join("%%%02X" % ord(c) if c in RESERVED else c for c in v)


def spec_items(attrs, D, keep_order):
    items = list(attrs.items())
    if keep_order:
        order = list(D["order"])
        items = sorted(items, key=lambda kv: order.index(kv[0]) if kv[0] in order else len(order))  # stable
    return items


def spec_enc(attrs, D, keep_order=False):
    """Appendix A.3 enc(items, D) for non-empty value lists of non-empty strings."""
    if not attrs:
        return ""
    parts = []
    for k, vs in spec_items(attrs, D, keep_order):
        wire = [pct(v) if D["fmt"] == "gff3" else v for v in vs]
        groups = [[w] for w in wire] if (D["repeated keys"] and len(wire) > 1) else [wire]
        for g in groups:
            body = D["multival separator"].join(g)
            if D["quoted GFF2 values"]:
                body = '"' + body + '"'
            parts.append(k + D["keyval separator"] + body)
    return D["field separator"].join(parts) + (";" if D["trailing semicolon"] else "")


def is_control(c):
    return unicodedata.category(c) == "Cc"


def mk_dialect(fmt="gff3", kv="=", quoted=False, sep=";", trailing=False, repeated=False, leading=False, order=None):
    d = {"leading semicolon": leading, "trailing semicolon": trailing, "quoted GFF2 values": quoted,
         "field separator": sep, "keyval separator": kv, "multival separator": ",", "fmt": fmt,
         "repeated keys": repeated,
         "order": list(order) if order is not None else ["ID", "Name", "gene_id", "transcript_id"]}
    return d


def dialect_family(fmts, kvs, leading=(False,)):
    out = []
    for fmt in fmts:
        for kv in kvs:
            for quoted in (False, True):
                for sep in (";", "; ", " ; "):
                    for trailing in (False, True):
                        for repeated in (False, True):
                            for lead in leading:
                                out.append(mk_dialect(fmt, kv, quoted, sep, trailing, repeated, lead))
    return out


def dkey(D):
    return json.dumps(D, sort_keys=True)


PREFIX = "chr1\tsrc\tgene\t10\t20\t.\t+\t.\t"


def inferred_from(dialects):
    """Dialect dictionaries as produced by the library's own inference on a template line written
    by the independent encoder in each style (deduplicated by content)."""
    seen, out = set(), []
    tmpl = {"ID": ["a1"], "Nm": ["b", "c"], "z": ["d"]}
    for D in dialects:
        line = PREFIX + spec_enc(tmpl, D)
        try:
            Di = feature_from_line(line).dialect
        except Exception:
            continue
        if not isinstance(Di, dict) or any(k not in Di for k in NINE_KEYS):
            continue
        k = dkey(Di)
        if k not in seen:
            seen.add(k)
            out.append(copy.deepcopy(Di))
    return out


COLSETS = (
    ("chr1", "src", "gene", 10, 20, ".", "+", "."),
    (".", ".", ".", ".", ".", ".", ".", "."),
    ("2L", "Flybase v1", "mRNA", 1, 1, "0.5", "-", "0"),
    ("chrUn_x|y", "s", "CDS", 536870911, 536870913, "1e-5", ".", "2"),
)
EXTRAS = ((), (), (), ("e1",), ("e1", "e2"), ("",), ("x y", ""), ("a=b;c", "%09", "z"))
KEYS = ("ID", "Name", "_k", "a.b-c", "N.x-1", "Parent", "k", "K9", "gene_id", "x_", "Dbxref", "t.1")


def colvals(f):
    return [f.seqid, f.source, f.featuretype, f.start, f.end, f.score, f.strand, f.frame]


def describe(attrs, D, cols, extra, keep_order, mode):
    return {"attributes": attrs, "dialect": D, "columns": list(cols), "extra": list(extra),
            "keep_order": keep_order, "construct": mode}


def check_case(attrs, D, cols=COLSETS[0], extra=(), keep_order=False, mode="dict", want_enc=True):
    """Returns (roundtrip_failure or None, enc_failure or None) for one (mapping, dialect) case."""
    D1 = copy.deepcopy(D)
    pristine = {k: list(v) for k, v in attrs.items()}
    if mode == "dict":
        given = {k: list(v) for k, v in attrs.items()}
    elif mode == "attrs":
        given = Attributes()
        for k, v in attrs.items():
            given[k] = list(v)
    else:
        given = json.dumps(attrs) if attrs else {}
        if attrs and json.loads(given) != pristine:
            # JSON text cannot carry this mapping (an unpaired high surrogate directly followed by an
            # unpaired low one reads back as one code point): hand the dict over instead
            mode, given = "dict", {k: list(v) for k, v in attrs.items()}
    case = describe(pristine, D, cols, extra, keep_order, mode)
    try:
        f = Feature(*cols, attributes=given, extra=list(extra), dialect=D1, keep_order=keep_order)
        s = str(f)
    except Exception as e:
        return {"case": case, "expected": "prints", "observed": "construct/print raised %r" % (e,)}, None
    if mode == "dict" and given != pristine:
        return {"case": case, "expected": "printing leaves the mapping alone", "observed": {"mapping after print": given}}, None
    if D1 != D:
        return {"case": case, "expected": "printing leaves the dialect alone", "observed": {"dialect after print": D1}}, None
    if "\n" in s or "\r" in s:
        return {"case": case, "expected": "a single line", "observed": s}, None
    fields = s.split("\t")
    want_fields = ["." if c is None else str(c) for c in colvals(f)]
    if len(fields) != 9 + len(extra) or fields[:8] != want_fields or fields[9:] != list(extra):
        return {"case": case, "expected": "%d tab-separated columns: 8 fixed, attributes, extras" % (9 + len(extra)),
                "observed": fields}, None
    encf = None
    if want_enc:
        exp = spec_enc(pristine, D, keep_order)
        if fields[8] != exp:
            encf = {"case": case, "expected": exp, "observed": fields[8]}
    D2 = copy.deepcopy(D)
    try:
        g = feature_from_line(s, dialect=D2)
    except Exception as e:
        return {"case": dict(case, printed=s), "expected": "re-parse does not raise", "observed": repr(e)}, encf
    try:
        got = {}
        typed = True
        for k in g.attributes.keys():
            v = g.attributes[k]
            typed = typed and isinstance(k, str) and isinstance(v, list) and all(isinstance(i, str) for i in v)
            got[k] = list(v) if isinstance(v, (list, tuple)) else v
    except Exception as e:
        return {"case": dict(case, printed=s), "expected": "a mapping", "observed": repr(e)}, encf
    if not typed or got != pristine:
        return {"case": dict(case, printed=fields[8]), "expected": pristine, "observed": got}, encf
    if colvals(g) != colvals(f) or list(g.extra) != list(extra):
        return {"case": dict(case, printed=s), "expected": {"columns": colvals(f), "extra": list(extra)},
                "observed": {"columns": colvals(g), "extra": list(g.extra)}}, encf
    if D2 != D:
        return {"case": dict(case, printed=s), "expected": "parsing leaves the supplied dialect alone", "observed": D2}, encf
    return None, encf


class Acc(object):
    def __init__(self):
        self.cases = 0
        self.rt, self.enc = [], []
        self.nrt = self.nenc = 0
        self.distinct = set()

    def run(self, attrs, D, **kw):
        self.cases += 1
        try:
            self.distinct.add(hash((json.dumps(attrs, sort_keys=False), dkey(D), repr(sorted(kw.items())))))
        except Exception:
            pass
        r, e = check_case(attrs, D, **kw)
        if r is not None:
            self.nrt += 1
            if len(self.rt) < CAP:
                self.rt.append(r)
        if e is not None:
            self.nenc += 1
            if len(self.enc) < CAP:
                self.enc.append(e)
        return r is None


def precheck(U, oid):
    """The statement is about the default configuration of the module switches."""
    bad = []
    if constants.ignore_url_escape_characters:
        bad.append("constants.ignore_url_escape_characters is set")
    if not constants.always_return_list:
        bad.append("constants.always_return_list is unset")
    if bad:
        U.bounded_result(oid + ".config", "module switches at their defaults", "one check", 1,
                         [{"case": "import gffutils", "expected": "defaults", "observed": bad}])
    return not bad


# ------------------------------------------------------------------------------------------------
# content pools
# ------------------------------------------------------------------------------------------------
# adversarial atoms for escaped (gff3-style) dialects: anything goes
ATOMS_G = [
    "a", "A", "0", "x y", " ", "  ", " a", "a ", " a ", "\t", "\n", "\r", "\r\n", "a\tb", "a\nb", "\n\n", "\t\t", "\r\r",
    "%", "%%", "%25", "%2509", "%0", "%0A", "%0a", "%09", "%0D", "%zz", "%C3%A9", "%c3", "a%", "%a", "%2", "%252C", "%20", "%2C", "%3B", "%3D", "%26",
    ";", ";;", "; ", " ; ", " ;", "a;b", "=", "==", "a=b", "k=v;j=w", "&", "&amp;", ",", ",,", "a,b", ",a", "a,", " ,", ", ",
    '"', '""', '"a"', '"a', 'a"', '"a,b"', '" "', "'", "\\", "\\t", "\\n", "+", "a+b", "#", "##", ".", "",
    "\x00", "\x01", "\x08", "\x0b", "\x0c", "\x1b", "\x1c", "\x1d", "\x1e", "\x1f", "\x7f", "\x80", "\x85", "\x9f", "\xa0", "\xad",
    "\u00e9", "e\u0301", "\u4e2d", "\u2028", "\u2029", "\u3000", "\u200b", "\ufeff", "\uffff", "\U0001f600", "\U0010ffff", "\ud800", "\udfff",
    "\u00e9%", "%\u00e9", "\t\u00e9\n", "ID=x", "Parent=p1,p2", "gene_id \"g\"; ", "a" * 40, ";=&,%\t\n\r" * 3,
]
ATOMS_G = [a for a in ATOMS_G if a != ""]
EXH_G = ["a", "2", "5", " ", "\t", "\n", "\r", "%", ";", "=", "&", ",", "\x00", "\x1f", "\x7f", "\u00e9", '"', "+"]

# gtf-style (no escaping): free of ; " , and control characters
ATOMS_T = [
    "a", "A", "0", "x y", "x  y", " a", "  a", "%", "%%", "%25", "%0A", "%09", "%zz", "%C3%A9", "a%", "%20", "%3B",
    "=", "==", "a=b", "a=b=c", "= =", "k=v", "&", "&amp;", "'", "''", "\\", "\\t", "+", "a+b", "#", ".", "-", "_", ":", "|", "/", "(x)", "[x]", "{x}", "<x>",
    "\u00e9", "e\u0301", "\u4e2d", "\u200b", "\ufeff", "\uffff", "\U0001f600", "\U0010ffff", "\ud800", "\xad",
    "a\xa0b", "a\u2028b", "a\u3000b", "\xa0a", "\u2028a", "ID=x", "gene_id g", "a" * 40, "%=&+ a",
]
EXH_T = ["a", "2", " ", "%", "=", "&", ".", "\u00e9", "'", "+"]
WS_NOT_CONTROL = [c for c in map(chr, range(0x110000)) if c.isspace() and not is_control(c)]
ATOMS_T_BLANK_END = ["a" + w for w in WS_NOT_CONTROL] + [w for w in WS_NOT_CONTROL] + ["  ", "a  ", " a ", "a b "]


def gtf_ok(v):
    return v != "" and not any(c in ';",' or is_control(c) for c in v)


def shapes(maxk=3, maxv=3):
    for nk in range(1, maxk + 1):
        for counts in itertools.product(range(1, maxv + 1), repeat=nk):
            yield counts


def rand_string(rng, pool, maxlen):
    n = rng.randint(1, maxlen)
    return "".join(rng.choice(pool) for _ in range(n))


def rand_unicode_char(rng):
    r = rng.random()
    if r < 0.35:
        return chr(rng.randrange(0x20, 0x7f))
    if r < 0.5:
        return chr(rng.randrange(0, 0x20))
    if r < 0.65:
        return rng.choice("\t\n\r%;=&, \"")
    if r < 0.8:
        return chr(rng.randrange(0x7f, 0x800))
    if r < 0.93:
        return chr(rng.randrange(0x800, 0x10000))
    return chr(rng.randrange(0x10000, 0x110000))


def fill(rng, counts, atoms, keys=KEYS):
    ks = rng.sample(keys, len(counts))
    return {k: [rng.choice(atoms) for _ in range(n)] for k, n in zip(ks, counts)}


def variant(i):
    """deterministic rotation over column sets, extras, keep_order, construction mode"""
    return dict(cols=COLSETS[i % len(COLSETS)], extra=EXTRAS[(i // 3) % len(EXTRAS)], keep_order=bool((i // 2) % 2),
                mode=("dict", "attrs", "json")[(i // 5) % 3])


# ------------------------------------------------------------------------------------------------
# unit 1: gff3-style dialects
# ------------------------------------------------------------------------------------------------
def unit_roundtrip_gff3(U):
    if not precheck(U, "C08.bounded.roundtrip_gff3"):
        return
    rng = U.rng
    base = dialect_family(("gff3",), ("=", " "))                        # 48
    lead = [mk_dialect("gff3", kv, q, sep, True, rep, True) for kv in ("=", " ") for q in (False, True)
            for sep in (";", "; ") for rep in (False, True)]             # harmless for fmt gff3: 16
    inf = [d for d in inferred_from(base + dialect_family(("gtf",), (" ",))) if d["fmt"] == "gff3"]
    extra_order = [mk_dialect(order=[]), mk_dialect(order=["Name", "ID", "zzz"], repeated=True),
                   mk_dialect(order=["k", "_k", "a.b-c", "N.x-1"], sep="; ", trailing=True)]
    dialects = base + lead + inf + extra_order
    acc = Acc()
    i = 0

    # (a) empty mapping and single plain value, every dialect x every column set / extra
    for D in dialects:
        for cols in COLSETS:
            for extra in EXTRAS[2:]:
                acc.run({}, D, cols=cols, extra=extra)
                acc.run({"ID": ["g1"]}, D, cols=cols, extra=extra, keep_order=True)

    # (b) every atom in every value position of three small shapes, every dialect
    for D in dialects:
        for v in ATOMS_G:
            for attrs in ({"ID": [v]}, {"ID": [v], "N.x-1": ["x", v]}, {"k": [v, "y", v], "Name": ["n"]}):
                i += 1
                acc.run(attrs, D, **variant(i))

    # (c) exhaustive strings over the structural alphabet: length <= 2 under every base dialect,
    #     length 3 under every base dialect (thorough) or one rotating dialect (quick)
    for n in (1, 2, 3):
        for idx, tup in enumerate(itertools.product(EXH_G, repeat=n)):
            v = "".join(tup)
            ds = base if (n < 3 or U.thorough) else (base[idx % len(base)],)
            for D in ds:
                acc.run({"ID": [v], "Note": ["x", v]}, D)
    if U.thorough:
        for idx, tup in enumerate(itertools.product(EXH_G, repeat=4)):
            v = "".join(tup)
            acc.run({"ID": [v, v]}, base[idx % len(base)])

    # (d) every code point as a one-character value (batched 64 values per key, 2 keys per feature)
    cp_dialects = [base[0], mk_dialect("gff3", "=", True, "; ", True, True), mk_dialect("gff3", " ", False, " ; ", False, True),
                   mk_dialect("gff3", " ", True, ";", True, False)]
    if U.thorough:
        cp_dialects = cp_dialects + [base[5], base[18], base[29], base[40]]
    chunk = 64
    for di, D in enumerate(cp_dialects):
        hi = 0x110000 if (U.thorough or di == 0) else 0x3000
        for lo in range(0, hi, 2 * chunk):
            attrs = {"ID": [chr(c) for c in range(lo, min(lo + chunk, hi))]}
            if lo + chunk < hi:
                attrs["Note"] = [chr(c) for c in range(lo + chunk, min(lo + 2 * chunk, hi))]
            acc.run(attrs, D, want_enc=True)
    #     ... and individually (not batched) for the first 0x300 code points under every base dialect
    for D in base:
        for c in range(0x300 if U.thorough else 0xA0):
            acc.run({"ID": [chr(c)]}, D)

    # (e) all shapes <= 3 keys x 3 values, every dialect, contents drawn from the atoms
    reps = 12 if U.thorough else 2
    for D in dialects:
        for counts in shapes():
            for _ in range(reps):
                i += 1
                acc.run(fill(rng, counts, ATOMS_G), D, **variant(i))

    # (f) random larger shapes with random Unicode contents
    N = 60000 if U.thorough else 5000
    for _ in range(N):
        i += 1
        nk = rng.randint(1, 5)
        attrs = {}
        for k in rng.sample(KEYS, nk):
            vals = []
            for _ in range(rng.randint(1, 4)):
                if rng.random() < 0.3:
                    vals.append(rng.choice(ATOMS_G) + rng.choice(ATOMS_G))
                else:
                    vals.append("".join(rand_unicode_char(rng) for _ in range(rng.randint(1, 12))))
            attrs[k] = vals
        acc.run(attrs, rng.choice(dialects), **variant(i))

    scope = ("%d gff3-style dialect dictionaries (fmt gff3 x keyval separator '='/' ' x quoting x 3 field separators x trailing x repeated, "
             "plus leading-semicolon and library-inferred dictionaries with their 'order'); values: %d adversarial atoms in 3 shapes, all strings of length <= %s over "
             "an 18-letter structural alphabet, every code point as a single value (all 1 114 112 under %d dialects), all shapes <= 3 keys x 3 values x %d fills, "
             "%d random mappings <= 5 keys x 4 values x 12 random code points; 4 column sets, 0-3 extra columns, keep_order on/off, dict/Attributes/JSON construction"
             % (len(dialects), len(ATOMS_G), "4" if U.thorough else "3", len(cp_dialects) if U.thorough else 1, reps, N))
    U.bounded_result("C08.bounded.roundtrip_gff3",
                     "str(Feature(cols, mapping, extra, dialect D)) is one line of exactly 9 + len(extra) tab-separated columns and feature_from_line(it, dialect=D) returns the same columns, extras and mapping (gff3-style D, arbitrary Unicode values); mapping and dialect are not modified",
                     scope, acc.cases, acc.rt, distinct=len(acc.distinct), sample={"failing_cases": acc.nrt})
    U.bounded_result("C08.bounded.print_enc_gff3",
                     "the printed attribute column equals enc(mapping, D) of DESIGN Appendix A.3 (upper-case %XX for exactly the reserved characters, nothing else touched)",
                     scope, acc.cases, acc.enc, distinct=len(acc.distinct), sample={"failing_cases": acc.nenc})


# ------------------------------------------------------------------------------------------------
# unit 2: gtf-style dialects (+ the deviations of the pinned tree, reported separately)
# ------------------------------------------------------------------------------------------------
def unit_roundtrip_gtf(U):
    if not precheck(U, "C08.bounded.roundtrip_gtf"):
        return
    rng = U.rng
    blank = dialect_family(("gtf",), (" ",))          # 24: the GTF / GFF2 shapes  k "v"  and  k v
    eq = dialect_family(("gtf",), ("=",))             # 24: fmt gtf with '=' between key and value
    inf = [d for d in inferred_from(blank + dialect_family(("gff3",), (" ",))) if d["fmt"] == "gtf" and not d["leading semicolon"]]
    dialects = blank + eq + inf

    def admissible(v, D):
        # statement: free of ; " , and control characters.  Two further classes are excluded from the
        # main result because the pinned tree loses them (reported below under their own ids):
        #   unquoted values ending in white space; values containing '=' when '=' is the keyval separator
        if not gtf_ok(v):
            return False
        if not D["quoted GFF2 values"] and v != v.rstrip():
            return False
        if D["keyval separator"] == "=" and "=" in v:
            return False
        return True

    acc = Acc()
    i = 0
    for D in dialects:
        for cols in COLSETS:
            for extra in EXTRAS[2:]:
                acc.run({}, D, cols=cols, extra=extra)
                acc.run({"gene_id": ["g1"], "transcript_id": ["t1"]}, D, cols=cols, extra=extra, keep_order=True)

    atoms = ATOMS_T + ATOMS_T_BLANK_END
    for D in dialects:
        for v in atoms:
            if not admissible(v, D):
                continue
            for attrs in ({"gene_id": [v]}, {"gene_id": [v], "N.x-1": ["x", v]}, {"k": [v, "y", v], "tag": ["n"]}):
                i += 1
                acc.run(attrs, D, **variant(i))

    L = 4 if U.thorough else 3
    for n in range(1, L + 1):
        for idx, tup in enumerate(itertools.product(EXH_T, repeat=n)):
            v = "".join(tup)
            ds = (blank + eq) if (n < 3 or (U.thorough and n < 4)) else (blank[idx % len(blank)], eq[idx % len(eq)])
            for D in ds:
                if admissible(v, D):
                    acc.run({"gene_id": [v], "tag": ["x", v]}, D)

    # every admissible code point as a one-character value
    cp_dialects = [mk_dialect("gtf", " ", True, "; ", True, False), mk_dialect("gtf", " ", False, ";", False, True)]
    if U.thorough:
        cp_dialects += [mk_dialect("gtf", " ", True, " ; ", False, True), mk_dialect("gtf", "=", True, ";", True, False),
                        mk_dialect("gtf", "=", False, "; ", False, False), mk_dialect("gtf", " ", False, " ; ", True, False)]
    chunk = 64
    for di, D in enumerate(cp_dialects):
        hi = 0x110000 if (U.thorough or di == 0) else 0x3100
        chars = [chr(c) for c in range(hi) if admissible(chr(c), D)]
        for lo in range(0, len(chars), 2 * chunk):
            attrs = {"gene_id": chars[lo:lo + chunk]}
            if chars[lo + chunk:lo + 2 * chunk]:
                attrs["tag"] = chars[lo + chunk:lo + 2 * chunk]
            acc.run(attrs, D)
    for D in blank + eq:
        for c in range(0x300 if U.thorough else 0x100):
            if admissible(chr(c), D):
                acc.run({"gene_id": [chr(c)]}, D)

    reps = 12 if U.thorough else 2
    for D in dialects:
        ok = [a for a in atoms if admissible(a, D)]
        for counts in shapes():
            for _ in range(reps):
                i += 1
                acc.run(fill(rng, counts, ok), D, **variant(i))

    N = 40000 if U.thorough else 4000
    n_done = 0
    while n_done < N:
        D = rng.choice(dialects)
        attrs = {}
        for k in rng.sample(KEYS, rng.randint(1, 5)):
            vals = []
            for _ in range(rng.randint(1, 4)):
                for _try in range(50):
                    if rng.random() < 0.3:
                        v = rng.choice(atoms) + rng.choice(atoms)
                    else:
                        v = "".join(rand_unicode_char(rng) for _ in range(rng.randint(1, 12)))
                        v = "".join(c for c in v if c not in ';",' and not is_control(c)) or "v"
                    if admissible(v, D):
                        break
                else:
                    v = "v"
                vals.append(v)
            attrs[k] = vals
        i += 1
        n_done += 1
        acc.run(attrs, D, **variant(i))

    scope = ("%d gtf-style dialect dictionaries (fmt gtf x keyval separator ' '/'=' x quoting x 3 field separators x trailing x repeated, plus library-inferred ones); "
             "values free of ; \" , and Cc control characters (and, reported separately: not ending in white space when unquoted, no '=' when '=' separates key and value): "
             "%d atoms in 3 shapes, all strings of length <= %d over a 10-letter alphabet, every admissible code point as a single value, all shapes <= 3 x 3 x %d fills, %d random mappings; "
             "4 column sets, 0-3 extra columns, keep_order on/off, dict/Attributes/JSON construction" % (len(dialects), len(atoms), L, reps, N))
    U.bounded_result("C08.bounded.roundtrip_gtf",
                     "str(Feature(cols, mapping, extra, dialect D)) is one line of exactly 9 + len(extra) tab-separated columns and feature_from_line(it, dialect=D) returns the same columns, extras and mapping (gtf-style D, values free of ; \" , and control characters)",
                     scope, acc.cases, acc.rt, distinct=len(acc.distinct), sample={"failing_cases": acc.nrt})
    U.bounded_result("C08.bounded.print_enc_gtf",
                     "the printed attribute column equals enc(mapping, D) of DESIGN Appendix A.3 (no escaping for fmt gtf)",
                     scope, acc.cases, acc.enc, distinct=len(acc.distinct), sample={"failing_cases": acc.nenc})

    # ---- deviations of the pinned tree: inside the statement as written, kept out of the main result
    # (1) unquoted gtf-style dialect, value ending in (non-control) white space: p.strip() eats it
    dev = Acc()
    for D in blank:
        if D["quoted GFF2 values"]:
            continue
        for v in ATOMS_T_BLANK_END:
            if not gtf_ok(v) or v == v.rstrip():
                continue
            for attrs in ({"gene_id": [v]}, {"gene_id": ["x", v], "tag": ["n"]}, {"tag": ["n"], "k": [v, "y"]}):
                dev.run(attrs, D, want_enc=False)
    U.bounded_result("C08.bounded.gtf_unquoted_trailing_blank",
                     "as C08.bounded.roundtrip_gtf, for unquoted gtf-style dialects and values that END in a white-space character that is not a control character (space, U+00A0, U+2028, U+3000, ...)",
                     "12 unquoted dialects (fmt gtf, keyval separator ' ') x %d such values x 3 shapes" % len([v for v in ATOMS_T_BLANK_END if v != v.rstrip()]),
                     dev.cases, dev.rt, distinct=len(dev.distinct), sample={"failing_cases": dev.nrt})

    # (2) fmt gtf with '=' as keyval separator, value containing '=': the pieces are re-joined with ' '
    dev = Acc()
    for D in eq:
        for v in ("=", "a=b", "a=b=c", "= =", "k=v", "==", "x =y", "\u00e9=%"):
            for attrs in ({"gene_id": [v]}, {"gene_id": ["x", v], "tag": ["n"]}):
                dev.run(attrs, D, want_enc=False)
    U.bounded_result("C08.bounded.gtf_equals_separator",
                     "as C08.bounded.roundtrip_gtf, for dialects with fmt 'gtf' and keyval separator '=' and values containing '='",
                     "24 dialects x 8 values x 2 shapes", dev.cases, dev.rt, distinct=len(dev.distinct), sample={"failing_cases": dev.nrt})

    # (3) gtf dialect with 'leading semicolon' set (the library infers it from  a "1"; ;b "2"): the
    #     writer never emits the semicolon, the reader drops the first character of the first key
    dev = Acc()
    lead = []
    for body in ('gene_id "a"; ;transcript_id "b";', 'gene_id "a" ; ;tag "b"', 'gene_id "a";;tag "b";', 'gene_id "a"; ;gene_id "b"; ;tag "c";'):
        try:
            Di = feature_from_line(PREFIX + body).dialect
            if Di["leading semicolon"] and Di["fmt"] == "gtf" and dkey(Di) not in [dkey(x) for x in lead]:
                lead.append(copy.deepcopy(Di))
        except Exception:
            pass
    n_inferred = len(lead)
    lead += [mk_dialect("gtf", " ", q, sep, tr, rep, True) for q in (True, False) for sep in (";", "; ", " ; ") for tr in (False, True) for rep in (False, True)]
    for D in lead:
        for attrs in ({"gene_id": ["g1"]}, {"gene_id": ["g1"], "transcript_id": ["t1", "t2"]}, {"k": ["v w"], "tag": ["a"]}):
            dev.run(attrs, D, want_enc=False)
    U.bounded_result("C08.bounded.gtf_leading_semicolon",
                     "as C08.bounded.roundtrip_gtf, for gtf-style dialect dictionaries whose 'leading semicolon' entry is True",
                     "%d dictionaries inferred by the library from lines with misplaced semicolons + 24 supplied ones x 3 plain mappings" % n_inferred,
                     dev.cases, dev.rt, distinct=len(dev.distinct), sample={"failing_cases": dev.nrt})


# ------------------------------------------------------------------------------------------------
# units 3 and 4: parsing is total
# ------------------------------------------------------------------------------------------------
STRUCT = ';= ",%a25'      # DESIGN section 5, C08: the 9-letter structural alphabet


def check_parsed(quals, dialect, supplied, supplied_copy):
    """None if the result of _split_keyvals is as the statement demands, else a description."""
    try:
        keys = list(quals.keys())
    except Exception as e:
        return "result is not a mapping: %r" % (e,)
    for k in keys:
        v = quals[k]
        if not isinstance(k, str) or not isinstance(v, list) or not all(isinstance(x, str) for x in v):
            return {"key": k, "value": repr(v)}
    if not isinstance(dialect, dict) or any(k not in dialect for k in NINE_KEYS):
        return {"returned dialect": repr(dialect)}
    if supplied is not None and supplied != supplied_copy:
        return {"supplied dialect modified": supplied}
    return None


def total_split(s, D, Dcopy, fails, counter):
    counter[0] += 1
    try:
        q, d = parser._split_keyvals(s, D)
        bad = check_parsed(q, d, D, Dcopy)
    except Exception as e:
        bad = "raised %r" % (e,)
    if bad is not None:
        counter[1] += 1
        if len(fails) < CAP:
            fails.append({"case": {"attribute string": s, "dialect": Dcopy, "via": "_split_keyvals"},
                          "expected": "no exception; str keys -> lists of str; dialect dictionary with the nine keys; supplied dialect untouched", "observed": bad})
        if D is not None and D != Dcopy:
            D.clear()
            D.update(copy.deepcopy(Dcopy))


def total_line(s, D, Dcopy, fails, counter):
    counter[0] += 1
    try:
        g = feature_from_line(PREFIX + s, dialect=D)
        bad = check_parsed(g.attributes, g.dialect, D, Dcopy)
        if bad is None and (colvals(g) != ["chr1", "src", "gene", 10, 20, ".", "+", "."] or list(g.extra) != []):
            bad = {"columns": colvals(g), "extra": list(g.extra)}
    except Exception as e:
        bad = "raised %r" % (e,)
    if bad is not None:
        counter[1] += 1
        if len(fails) < CAP:
            fails.append({"case": {"attribute string": s, "dialect": Dcopy, "via": "feature_from_line"},
                          "expected": "no exception; str keys -> lists of str; columns 1-8 as given", "observed": bad})


def all_strings(alphabet, maxlen, minlen=0):
    for n in range(minlen, maxlen + 1):
        for tup in itertools.product(alphabet, repeat=n):
            yield "".join(tup)


WIDE = list(STRUCT) + list("bZ_.-:&'\\#+|") + ["\t", "\n", "\r", "\x00", "\x1f", "\x7f", "\x85", "\xa0", "\u00e9", "\u2028", "\u3000", "\u4e2d", "\U0001f600", "\ud800",
                                              "; ", " ; ", '""', '";', "=;", ";;", ",,", "%0A", "%25", "%zz", "%C3", "ID=", "gene_id \"", " \"a\"", "a=b", ";a", "; ;"]


def rand_attr_string(rng, line_safe):
    r = rng.random()
    n = rng.randint(6, 40)
    if r < 0.5:
        s = "".join(rng.choice(STRUCT) for _ in range(n))
    elif r < 0.9:
        s = "".join(rng.choice(WIDE) for _ in range(n))
    else:
        s = "".join(rand_unicode_char(rng) for _ in range(n))
    if line_safe:
        s = s.replace("\t", " ").replace("\n", " ").replace("\r", " ")
    return s


def unit_parse_total(U):
    if not precheck(U, "C08.bounded.parse_total"):
        return
    rng = U.rng
    pristine_default = copy.deepcopy(constants.dialect)
    fails, counter = [], [0, 0]
    L = 7 if U.thorough else 5
    for s in all_strings(STRUCT, L):
        total_split(s, None, None, fails, counter)
    Lline = 5 if U.thorough else 4
    for s in all_strings(STRUCT, Lline):
        total_line(s, None, None, fails, counter)
    N = 400000 if U.thorough else 30000
    for _ in range(N):
        total_split(rand_attr_string(rng, False), None, None, fails, counter)
    for _ in range(N // 4):
        total_line(rand_attr_string(rng, True), None, None, fails, counter)
    if constants.dialect != pristine_default:
        counter[1] += 1
        fails.append({"case": "after the whole run", "expected": {"constants.dialect": pristine_default}, "observed": {"constants.dialect": constants.dialect}})
        constants.dialect.clear()
        constants.dialect.update(pristine_default)
    U.bounded_result("C08.bounded.parse_total_inferred",
                     "_split_keyvals(s) / feature_from_line(eight columns + s) with the dialect inferred: no exception, keys are str, values are lists of str, a dialect dictionary with the nine keys comes back, constants.dialect is not modified",
                     "every string of length <= %d over the structural alphabet {; = space \" , %% a 2 5} through _split_keyvals, of length <= %d through feature_from_line; %d + %d random strings of length 6-40 (structural, wide incl. tab/newline/controls/non-BMP/lone surrogate, arbitrary code points)" % (L, Lline, N, N // 4),
                     counter[0], fails, exhaustive=False, sample={"failing_cases": counter[1]})

    # ---- the Feature(attributes=<raw string>) path (feature.py: JSON first, raw attribute string otherwise)
    fails, cases = [], 0
    nfail = 0
    Lc = 5 if U.thorough else 4
    for s in all_strings(STRUCT, Lc):
        cases += 1
        try:
            f = Feature("chr1", "src", "gene", 10, 20, ".", "+", ".", attributes=s)
            bad = check_parsed(f.attributes, f.dialect, None, None)
        except Exception as e:
            bad = "raised %r" % (e,)
        if bad is not None:
            nfail += 1
            if len(fails) < CAP:
                fails.append({"case": {"Feature(attributes=...)": s}, "expected": "no exception; str keys -> lists of str", "observed": bad})
    U.bounded_result("C08.bounded.ctor_raw_string",
                     "Feature(attributes=s) for a raw attribute-column string s: no exception, keys are str, values are lists of str",
                     "every string of length <= %d over the structural alphabet {; = space \" , %% a 2 5}" % Lc,
                     cases, fails, exhaustive=True, sample={"failing_cases": nfail})


def supplied_dialects():
    main = dialect_family(("gff3", "gtf"), ("=", " "), leading=(False, True))      # 192
    odd = []
    for fmt in ("gff3", "gtf"):
        for sep, kv in ((" ", "="), (",", "="), ("=", " "), ('"', " "), (";;", "="), (";", ":"), (";", ","), (";", ";"), ("; ", "; "),
                        ("%", "2"), ("a", " "), (" ", " "), (";", '"'), (";", "=="), (";", "  ")):
            for lead in (False, True):
                odd.append(mk_dialect(fmt, kv, True, sep, True, False, lead))
                odd.append(mk_dialect(fmt, kv, False, sep, False, True, lead))
    return main, odd


def unit_parse_supplied(U):
    if not precheck(U, "C08.bounded.parse_supplied"):
        return
    rng = U.rng
    main, odd = supplied_dialects()
    inferred = inferred_from(dialect_family(("gff3", "gtf"), ("=", " ")))
    every = main + odd + inferred
    copies = [copy.deepcopy(D) for D in every]
    fails, counter = [], [0, 0]
    L = 5 if U.thorough else 4
    strings = list(all_strings(STRUCT, L))
    short = list(all_strings(STRUCT, L - 1))
    n_main = len(main)
    for j, (D, Dc) in enumerate(zip(every, copies)):
        # the unusual-separator dictionaries get one letter less
        for s in (short if n_main <= j < n_main + len(odd) else strings):
            total_split(s, D, Dc, fails, counter)
    # one more letter for the dictionaries whose parse differs (the reader ignores 'repeated keys')
    if U.thorough:
        sub = [(D, Dc) for D, Dc in zip(main, copies) if not D["repeated keys"] and not D["leading semicolon"]]
        for s in all_strings(STRUCT, 6, 6):
            for D, Dc in sub:
                total_split(s, D, Dc, fails, counter)
    else:
        sub = [(D, Dc) for D, Dc in zip(main, copies) if not D["repeated keys"] and not D["leading semicolon"]]
        for idx, s in enumerate(all_strings(STRUCT, 5, 5)):
            for j in range(2):
                D, Dc = sub[(idx * 2 + j) % len(sub)]
                total_split(s, D, Dc, fails, counter)
    Lline = 4 if U.thorough else 3
    for s in all_strings(STRUCT, Lline):
        for D, Dc in zip(main, copies):
            if D["repeated keys"] and not U.thorough:
                continue
            total_line(s, D, Dc, fails, counter)
            if D != Dc:
                D.clear()
                D.update(copy.deepcopy(Dc))
    N = 400000 if U.thorough else 30000
    for n in range(N):
        j = rng.randrange(len(every))
        if n % 4:
            total_split(rand_attr_string(rng, False), every[j], copies[j], fails, counter)
        else:
            total_line(rand_attr_string(rng, True), every[j], copies[j], fails, counter)
    U.bounded_result("C08.bounded.parse_total_supplied",
                     "_split_keyvals(s, D) / feature_from_line(eight columns + s, dialect=D) with a supplied dialect dictionary D: no exception, keys are str, values are lists of str, D is not modified",
                     "%d dialect dictionaries (fmt x keyval separator x quoting x 3 field separators x trailing x repeated x leading semicolon = 192, %d with unusual separators, %d inferred by the library) x every string of length <= %d over {; = space \" , %% a 2 5} (one letter less for the unusual ones); length %d under %s; length <= %d through feature_from_line under the 192; %d random strings of length 6-40"
                     % (len(every), len(odd), len(inferred), L, L + 1, "the %d dictionaries without leading semicolon that the reader can tell apart" % len(sub) if U.thorough else "2 rotating dictionaries per string", Lline, N),
                     counter[0], fails, exhaustive=False, sample={"failing_cases": counter[1]})


UNITS = [
    ("bounded.roundtrip_gff3", unit_roundtrip_gff3),
    ("bounded.roundtrip_gtf", unit_roundtrip_gtf),
    ("bounded.parse_total", unit_parse_total),
    ("bounded.parse_supplied", unit_parse_supplied),
]
