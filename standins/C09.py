"""Bounded run-time stand-ins for C09 (dialect inference recovers the dialect the input was written in).

Everything here is evaluated natively on the real gffutils code.  The oracle is written from the
statement and DESIGN.md Appendix A.3 (writer `enc`, `dialect_of`, `vote`); it never calls the
parser or helpers._choose_dialect to obtain an expectation:

  * a line is *written* by `enc(items, D)` in a dialect D = (field separator, trailing ';',
    key/value separator, quoting, repeated keys) of the 48-member grammar;
  * `line_facts` states which dialect facts that line makes observable (the separator needs two
    parts, the repeated-keys flag needs a multi-valued key, an empty attribute column shows nothing)
    and its weight = number of attribute keys;
  * `expected_dialect` is the weighted majority per dialect key, ties to the value seen first, and
    the first-seen concatenation of keys.  A line on which a key is unobservable is evaluated both
    ways (counted with the default value / not counted at all); the key is only asserted when both
    readings agree, so the oracle never demands more than the statement;
  * the inspected window is the first checklines+1 features (DESIGN C13 `peek`).

Units
  bounded.consistent : per-line inference (all 48 dialects x all shapes) and consistent files through
                       every entry point (DataIterator on file / gz / string / list / generator /
                       FeatureDB, create_db to memory and file, reopen)
  bounded.vote       : mixtures of two dialect values with all small weight patterns, repeated-key
                       spellings and empty attribute columns (exhaustive), random mixtures of many
                       dialects beyond
  bounded.window     : checklines boundary for every entry point, default checklines, comments and
                       directives not counted
  bounded.routing    : GFF3 vs GTF import semantics follow the inferred / voted / supplied format,
                       force_gff, update(); a supplied dialect is used verbatim
"""
import collections
import contextlib
import copy
import gzip
import io
import itertools
import os
import shutil
import tempfile

import gffutils
from gffutils import helpers, constants
from gffutils.iterators import DataIterator
from gffutils.feature import feature_from_line, Feature

# ------------------------------------------------------------------------------------------------
# specification side (written from the statement / Appendix A.3; no call into the code under test)
# ------------------------------------------------------------------------------------------------
Dl = collections.namedtuple("Dl", "sep trailing kv quoted repeated")

SEPS = (";", "; ", " ; ")
STYLES = (("=", False), ("=", True), (" ", False), (" ", True))
ALL_DIALECTS = [Dl(s, t, kv, q, r) for s in SEPS for t in (False, True) for (kv, q) in STYLES for r in (False, True)]

DEFAULT = {
    "leading semicolon": False,
    "trailing semicolon": False,
    "quoted GFF2 values": False,
    "field separator": ";",
    "keyval separator": "=",
    "multival separator": ",",
    "fmt": "gff3",
    "repeated keys": False,
    "order": ["ID", "Name", "gene_id", "transcript_id"],
}
VOTED_KEYS = [k for k in DEFAULT if k != "order"]

RESERVED = set("\t\n\r%;=&,") | set(chr(i) for i in range(32)) | {chr(127)}


def fmt_of(D):
    return "gtf" if (D.kv == " " and D.quoted) else "gff3"


def pct(v):
    return "".join("%%%02X" % ord(c) if c in RESERVED else c for c in v)


def enc(items, D):
    """the writer of Appendix A.3"""
    if not items:
        return ""
    parts = []
    for k, vs in items:
        groups = [(k, [v]) for v in vs] if (D.repeated and len(vs) > 1) else [(k, vs)]
        for k2, vs2 in groups:
            if not vs2:
                parts.append(k2 + D.kv + '""' if fmt_of(D) == "gtf" else k2)
            else:
                s = ",".join(pct(v) if fmt_of(D) == "gff3" else v for v in vs2)
                if D.quoted:
                    s = '"' + s + '"'
                parts.append(k2 + D.kv + s)
    return D.sep.join(parts) + (";" if D.trailing else "")


def nparts(items, D):
    return sum(len(vs) if (D.repeated and len(vs) > 1) else 1 for _, vs in items)


def line_facts(D, items):
    """(facts, weight): the dialect facts a line written as enc(items, D) makes observable, and the
    line's weight (its attribute count)."""
    if not items:
        return {}, 0
    facts = {
        "leading semicolon": False,
        "multival separator": ",",
        "trailing semicolon": D.trailing,
        "keyval separator": D.kv,          # first attribute always carries a value and a word-like key
        "quoted GFF2 values": D.quoted,
        "fmt": fmt_of(D),
    }
    if nparts(items, D) >= 2:
        facts["field separator"] = D.sep
    if any(len(vs) > 1 for _, vs in items):
        facts["repeated keys"] = D.repeated
    return facts, len(items)


def majority(pairs):
    """weighted majority, ties to the value seen first"""
    tally = collections.OrderedDict()
    for v, w in pairs:
        tally[v] = tally.get(v, 0) + w
    best = max(tally.values())
    for v in tally:
        if tally[v] == best:
            return v


def first_seen(seqs):
    out = []
    for s in seqs:
        for k in s:
            if k not in out:
                out.append(k)
    return out


def expected_dialect(window):
    """window: list of LineSpec.  Returns (expected dict, set of keys not asserted)."""
    if not window:
        return copy.deepcopy(DEFAULT), set()
    fw = [line_facts(ls.D, ls.items) for ls in window]
    exp, skipped = {}, set()
    for key in VOTED_KEYS:
        a = majority([(f.get(key, DEFAULT[key]), w) for f, w in fw])
        obs = [(f[key], w) for f, w in fw if key in f]
        b = majority(obs) if obs else DEFAULT[key]
        if a == b:
            exp[key] = a
        else:
            skipped.add(key)
    exp["order"] = first_seen([k for k, _ in ls.items] for ls in window)
    return exp, skipped


def dialect_dict(D, order):
    return {"leading semicolon": False, "trailing semicolon": D.trailing, "quoted GFF2 values": D.quoted,
            "field separator": D.sep, "keyval separator": D.kv, "multival separator": ",", "fmt": fmt_of(D),
            "repeated keys": D.repeated, "order": list(order)}


class LineSpec(object):
    __slots__ = ("D", "items", "ftype", "n")

    def __init__(self, D, items, ftype="exon", n=1):
        self.D, self.items, self.ftype, self.n = D, items, ftype, n

    def attr(self):
        return enc(self.items, self.D)

    def text(self):
        return "\t".join(["chr1", "src", self.ftype, str(10 * self.n), str(10 * self.n + 5), ".", "+", ".", self.attr()])


def window_of(specs, c):
    """first checklines+1 features (c None = default checklines of 10)"""
    n = 10 if c is None else c
    return specs[: n + 1]


# ------------------------------------------------------------------------------------------------
# line shapes
# ------------------------------------------------------------------------------------------------
SINGLE_KEYS = ("ID", "Name", "gene_id", "transcript_id")
MULTI_KEYS = ("Parent", "Note", "tag", "Alias")
CONTENTS = (lambda j, p, i: "v%d%d%d" % (j, p, i),
            lambda j, p, i: "x%d y%d%d" % (j, p, i),
            lambda j, p, i: "p%d;%d=%d" % (j, p, i))


def make_items(shape, j=0, rot=0, cv=0, gtf=False):
    """shape: tuple of value counts per attribute (0 = valueless flag, never first).  Keys are distinct,
    single-valued attributes draw from SINGLE_KEYS, flags and multi-valued ones from MULTI_KEYS, rotated
    by `rot` so that different lines carry different key sets and orders.  ID values are unique per j."""
    items = []
    for p, n in enumerate(shape):
        if n == 1:
            k = SINGLE_KEYS[(p + rot) % 4]
        else:
            k = MULTI_KEYS[(p + rot) % 4]
        if k == "ID":
            vs = ["i%d" % j]
        else:
            vs = [CONTENTS[cv](j, p, i) for i in range(n)]
            if gtf and cv == 2:
                vs = [v.replace(";", ":") for v in vs]           # GTF has no escaping: no ";" inside a value; "=" is an ordinary character there
        items.append((k, vs))
    return items


def spec(D, shape, j=0, rot=0, cv=0, ftype="exon"):
    return LineSpec(D, make_items(shape, j, rot, cv, gtf=(D is not None and fmt_of(D) == "gtf")), ftype, j + 1)


EMPTY = "empty"


# ------------------------------------------------------------------------------------------------
# observation side: every way the library reports an inferred dialect
# ------------------------------------------------------------------------------------------------
@contextlib.contextmanager
def quiet():
    with contextlib.redirect_stderr(io.StringIO()):
        yield


class Scratch(object):
    def __init__(self):
        self.d = tempfile.mkdtemp(prefix="c09_", dir=tempfile.gettempdir())
        self.n = 0

    def path(self, suffix):
        self.n += 1
        return os.path.join(self.d, "f%d%s" % (self.n, suffix))

    def write(self, text, suffix=".gff"):
        p = self.path(suffix)
        if suffix.endswith(".gz"):
            with gzip.open(p, "wb") as fh:
                fh.write(text.encode("utf-8"))
        else:
            with open(p, "w") as fh:
                fh.write(text)
        return p

    def rm(self, p):
        for q in (p, p + ".bak"):
            try:
                os.unlink(q)
            except OSError:
                pass

    def close(self):
        shutil.rmtree(self.d, ignore_errors=True)


def file_text(specs, decorated=False):
    if not decorated:
        return "".join(ls.text() + "\n" for ls in specs)
    out = ["##gff-version 3\n", "# a comment; with=separators \"x\";\n"]
    for i, ls in enumerate(specs):
        out.append(ls.text() + "\n")
        if i % 2 == 0:
            out.append("\n")
        else:
            out.append("#comment k \"v\"; between\n##directive %d\n" % i)
    return "".join(out)


def ckw(c):
    return {} if c is None else {"checklines": c}


ENTRIES = ("file", "file_decorated", "gz", "string", "list", "gen", "db_mem", "db_file", "db_list", "iter_db")
DB_ENTRIES = ("db_mem", "db_file", "db_list", "iter_db")


def observe(entry, specs, c, S, extra_kwargs=None):
    """Returns a list of (label, dialect) reported by the library for the given input and entry point.
    Also checks that every yielded feature carries the reported dialect (label '<entry>.yielded')."""
    kw = ckw(c)
    kw.update(extra_kwargs or {})
    out = []
    lines = [ls.text() for ls in specs]
    if entry in ("file", "file_decorated", "gz"):
        p = S.write(file_text(specs, entry == "file_decorated"), ".gff.gz" if entry == "gz" else ".gff")
        try:
            it = DataIterator(p, **kw)
            out.append((entry, it.dialect))
            ys = list(it)
            out.append((entry + ".yielded", None if all(f.dialect == it.dialect for f in ys) and len(ys) == len(specs) else
                        {"bad": [f.dialect for f in ys if f.dialect != it.dialect][:1], "n": len(ys)}))
        finally:
            S.rm(p)
    elif entry == "string":
        it = DataIterator(file_text(specs, True), from_string=True, **kw)
        try:
            out.append((entry, it.dialect))
        finally:
            if isinstance(it.data, str) and os.path.dirname(os.path.abspath(it.data)) == os.path.abspath(tempfile.gettempdir()):
                S.rm(it.data)
    elif entry in ("list", "gen"):
        feats = [feature_from_line(l) for l in lines]
        it = DataIterator(feats if entry == "list" else (f for f in feats), **kw)
        out.append((entry, it.dialect))
        ys = list(it)
        out.append((entry + ".yielded", None if all(f.dialect == it.dialect for f in ys) and len(ys) == len(specs) else
                    {"bad": [f.dialect for f in ys if f.dialect != it.dialect][:1], "n": len(ys)}))
    elif entry == "db_mem":
        p = S.write(file_text(specs, False))
        try:
            with quiet():
                db = gffutils.create_db(p, ":memory:", merge_strategy="create_unique", **kw)
            out.append((entry, db.dialect))
        finally:
            S.rm(p)
    elif entry == "db_file":
        p = S.write(file_text(specs, True))
        dbfn = S.path(".db")
        try:
            with quiet():
                db = gffutils.create_db(p, dbfn, merge_strategy="create_unique", **kw)
            out.append((entry, db.dialect))
            db.conn.close()
            db2 = gffutils.FeatureDB(dbfn)
            out.append((entry + ".reopened", db2.dialect))
            db2.conn.close()
        finally:
            S.rm(p)
            S.rm(dbfn)
    elif entry == "db_list":
        feats = [feature_from_line(l) for l in lines]
        with quiet():
            db = gffutils.create_db((f for f in feats), ":memory:", merge_strategy="create_unique", **kw)
        out.append((entry, db.dialect))
    elif entry == "iter_db":
        feats = [feature_from_line(l) for l in lines]
        with quiet():
            db = gffutils.create_db(feats, ":memory:", merge_strategy="create_unique", force_gff=True, id_spec=":seqid:", **kw)
        it = DataIterator(db, **kw)
        out.append((entry, it.dialect))
    else:
        raise ValueError(entry)
    return out


def diff_dialect(got, exp, skipped=()):
    """None if `got` states exactly `exp` on every asserted key (and has the nine keys), else a description"""
    if not isinstance(got, dict):
        return {"not a dict": repr(got)}
    bad = {}
    if set(got.keys()) != set(DEFAULT.keys()):
        bad["keys"] = sorted(got.keys())
    for k in DEFAULT:
        if k in skipped or k not in got:
            continue
        g = list(got[k]) if k == "order" else got[k]
        if g != exp[k] or (k != "order" and type(g) is not type(exp[k])):
            bad[k] = {"expected": exp[k], "observed": g}
    return bad or None


def check_case(entry, specs, c, S, fails, extra=None):
    """run one (entry point, file, checklines) case against the oracle; returns number of comparisons"""
    exp, skipped = expected_dialect(window_of(specs, c))
    case = {"entry": entry, "checklines": c, "lines": [ls.text() for ls in specs]}
    if extra:
        case.update(extra)
    try:
        obs = observe(entry, specs, c, S)
    except Exception as e:  # noqa
        fails.append({"case": case, "expected": {k: v for k, v in exp.items() if k not in skipped}, "observed": "exception " + repr(e)})
        return 1
    n = 0
    for label, got in obs:
        n += 1
        if label.endswith(".yielded"):
            if got is not None:
                fails.append({"case": dict(case, report=label), "expected": "every yielded feature carries the reported dialect", "observed": got})
            continue
        bad = diff_dialect(got, exp, skipped)
        if bad:
            fails.append({"case": dict(case, report=label), "expected": {k: v for k, v in exp.items() if k not in skipped},
                          "observed": {"dialect": got, "differs": bad}})
    return n


def default_intact(fails, where):
    if constants.dialect != DEFAULT:
        fails.append({"case": {"after": where}, "expected": DEFAULT, "observed": copy.deepcopy(constants.dialect)})


# ------------------------------------------------------------------------------------------------
# unit 1: consistent input
# ------------------------------------------------------------------------------------------------
def all_shapes(maxattrs):
    for n in range(1, maxattrs + 1):
        for first in (1, 2, 3):
            for rest in itertools.product((0, 1, 2, 3), repeat=n - 1):
                yield (first,) + rest


def unit_consistent(U):
    S = Scratch()
    try:
        # ---- (a) one line: helpers.infer_dialect / feature_from_line / Feature(attributes=<str>)
        fails, cases, seen = [], 0, set()
        maxattrs = 4 if U.thorough else 3
        for D in ALL_DIALECTS:
            for shape in all_shapes(maxattrs):
                for cv in (0, 1, 2):
                    for rot in ((0, 1, 2, 3) if U.thorough else (0, 3)):
                        ls = spec(D, shape, j=1, rot=rot, cv=cv)
                        s = ls.attr()
                        if s in seen:
                            continue
                        seen.add(s)
                        facts, weight = line_facts(D, ls.items)
                        keys = [k for k, _ in ls.items]
                        cases += 1
                        try:
                            got = {"infer_dialect": helpers.infer_dialect(s)}
                            f = feature_from_line(ls.text())
                            got["feature_from_line"] = f.dialect
                            f2 = Feature(seqid="chr1", start=1, end=2, attributes=s)
                            got["Feature(attributes=str)"] = f2.dialect
                            nattr = (len(f.attributes), len(f2.attributes))
                        except Exception as e:  # noqa
                            fails.append({"case": {"attributes": s}, "expected": facts, "observed": "exception " + repr(e)})
                            continue
                        for how, d in got.items():
                            bad = {k: {"expected": v, "observed": d.get(k)} for k, v in facts.items() if d.get(k) != v}
                            # the per-line order lists a key once per field; its first-seen reading is the key order
                            if first_seen([d.get("order", [])]) != keys:
                                bad["order"] = {"expected": keys, "observed": d.get("order")}
                            if set(d.keys()) != set(DEFAULT.keys()):
                                bad["keys"] = sorted(d.keys())
                            if bad:
                                fails.append({"case": {"attributes": s, "via": how}, "expected": dict(facts, order=keys), "observed": bad})
                        if nattr != (weight, weight):
                            fails.append({"case": {"attributes": s}, "expected": {"attribute count": weight}, "observed": nattr})
        # the empty attribute column states nothing: default dialect, no attributes
        for s in ("",):
            cases += 1
            d = helpers.infer_dialect(s)
            if d != DEFAULT or len(feature_from_line(LineSpec(None, [], "exon", 1).text()).attributes) != 0:
                fails.append({"case": {"attributes": s}, "expected": DEFAULT, "observed": d})
        default_intact(fails, "per-line inference")
        U.bounded_result(
            "C09.bounded.line",
            "helpers.infer_dialect / feature_from_line / Feature(attributes=str) on enc(items, D) state D's fmt, field and key/value separator, quoting, "
            "trailing semicolon, repeated-keys flag (each where the line makes it observable) and the first-seen key order; len(attributes) is the attribute count",
            "all 48 dialects x all shapes of <= %d attributes with 0..3 values each (first attribute valued) x 3 value contents x %d key rotations, deduplicated by text"
            % (maxattrs, 4 if U.thorough else 2),
            cases, fails, exhaustive=True, distinct=len(seen) + 1)

        # ---- (b) consistent files through every entry point
        fails, cases, distinct = [], 0, set()
        nfiles = 10 if U.thorough else 3
        for di, D in enumerate(ALL_DIALECTS):
            for fi in range(nfiles):
                L = (1, 2, 3, 5, 12, 4, 6, 2, 3, 13)[fi]
                specs = []
                for j in range(L):
                    # every line fully observable: >= 2 parts, and a multi-valued key so that the repeated-keys flag shows
                    nat = U.rng.randint(2, 4)
                    shape = [U.rng.choice((1, 1, 2, 3)) for _ in range(nat)]
                    if fi % 3 == 2 and nat > 2:
                        shape[U.rng.randrange(1, nat)] = 0
                    if not any(n > 1 for n in shape):
                        shape[U.rng.randrange(nat)] = U.rng.choice((2, 3))
                    if shape[0] == 0:
                        shape[0] = 1
                    specs.append(spec(D, tuple(shape), j=j, rot=U.rng.randrange(4), cv=U.rng.randrange(3),
                                      ftype=("exon", "CDS", "gene", "transcript", "mRNA")[j % 5]))
                cl_choices = (None, 0, 1, 2, L - 1, L, 50)
                for entry in ENTRIES:
                    if entry == "gz" and not (U.thorough or fi == 0):
                        continue
                    cls_ = cl_choices if (U.thorough and fi < 4) else (cl_choices[(di + fi + ENTRIES.index(entry)) % len(cl_choices)],)
                    for c in sorted(set(x for x in cls_ if x is None or x >= 0), key=lambda x: -1 if x is None else x):
                        exp, skipped = expected_dialect(window_of(specs, c))
                        want = dialect_dict(D, first_seen([k for k, _ in ls.items] for ls in window_of(specs, c)))
                        assert not skipped and exp == want, (exp, want, skipped)   # oracle self-check: consistent input => D itself
                        cases += check_case(entry, specs, c, S, fails, {"dialect": D._asdict()})
                        distinct.add((di, fi, entry, c))
        # empty inputs => default dialect
        for entry in ("file", "string", "list", "gen"):
            cases += check_case(entry, [], 3, S, fails)
            distinct.add(("empty", entry))
        default_intact(fails, "consistent files")
        U.bounded_result(
            "C09.bounded.consistent",
            "DataIterator(file / decorated file / gz / from_string / list / generator / FeatureDB).dialect, create_db(...).dialect (memory, file, reopened, "
            "feature generator) == the full nine-key dialect the file was written in, order = first-seen keys of the inspected window; every yielded feature carries it",
            "all 48 dialects x %d seeded files each (1..13 fully observable lines, 2..4 attributes, flags, varying key sets) x 10 entry points x checklines in "
            "{default, 0, 1, 2, L-1, L, 50} (%s); empty inputs" % (nfiles, "all for 4 files per dialect" if U.thorough else "rotating"),
            cases, fails, distinct=len(distinct))
    finally:
        S.close()


# ------------------------------------------------------------------------------------------------
# unit 2: mixtures
# ------------------------------------------------------------------------------------------------
def flip(D, **kw):
    return D._replace(**kw)


def axis_pairs(thorough):
    """pairs of dialects differing in exactly one choice of the grammar"""
    pairs = []
    b1 = Dl("; ", False, "=", False, True)
    b2 = Dl(";", True, " ", True, True)
    b3 = Dl(" ; ", False, " ", False, False)
    bases = (b1, b2, b3) if thorough else (b1, b2)
    for b in bases:
        pairs.append(("trailing", b, flip(b, trailing=not b.trailing)))
        pairs.append(("repeated", b, flip(b, repeated=not b.repeated)))
    for b in bases[:2]:
        for s1, s2 in itertools.permutations(SEPS, 2):
            if s1 < s2 or thorough:
                pairs.append(("separator", flip(b, sep=s1), flip(b, sep=s2)))
    for (k1, q1), (k2, q2) in itertools.permutations(STYLES, 2):
        if (k1, q1) < (k2, q2) or thorough:
            pairs.append(("style", flip(b1, kv=k1, quoted=q1), flip(b1, kv=k2, quoted=q2)))
    return pairs


# line shapes of the mixture alphabet: weight 1 (separator unobservable), 2, 3, weight 2 spelled with four
# fields when keys are repeated, weight 3 with six fields, and the empty attribute column
MIX_SHAPES = ((1,), (1, 1), (1, 1, 1), (1, 3), (2, 1, 3))


def unit_vote(U):
    S = Scratch()
    try:
        fails, cases, distinct, nskipped = [], 0, 0, 0
        K = 4 if U.thorough else 3
        fast_entries = ("list", "file", "gen", "string")
        slow_entries = ("db_mem", "db_list", "db_file")
        for (axis, Da, Db) in axis_pairs(U.thorough):
            shapes = MIX_SHAPES if U.thorough else MIX_SHAPES[:4]
            alphabet = [(D, sh) for D in (Da, Db) for sh in shapes] + [(None, EMPTY)]
            for k in range(1, K + 1):
                for seq in itertools.product(alphabet, repeat=k):
                    if k == 4 and (seq[0][0] is not Da or sum(1 for (D, _) in seq if D is None) > 1):
                        continue
                    specs = []
                    for j, (D, sh) in enumerate(seq):
                        if sh == EMPTY:
                            specs.append(LineSpec(None, [], "exon", j + 1))
                        else:
                            specs.append(spec(D, sh, j=j, rot=(j * 3 + len(sh)) % 4, cv=0))
                    distinct += 1
                    _, sk = expected_dialect(specs)
                    nskipped += len(sk)
                    entry = fast_entries[distinct % (2 if k == 4 else 4)]
                    cases += check_case(entry, specs, None, S, fails, {"axis": axis})
                    if distinct % (97 if k >= 3 else 11) == 0:
                        cases += check_case(slow_entries[(distinct // 11) % 3], specs, None, S, fails, {"axis": axis})
        default_intact(fails, "two-valued mixtures")
        U.bounded_result(
            "C09.bounded.vote",
            "inferred dialect of a window mixing two values of one dialect key == per key the majority weighted by each line's attribute count "
            "(not its field count), ties to the value seen first; order == first-seen concatenation of keys",
            "%d dialect pairs (trailing, repeated, 3 separators, 4 styles incl. gff3<->gtf) x all sequences of <= %d lines (length 4: first line in the first value, at most one empty column) over 2 values x weights %s "
            "(repeated keys spelled with more fields than attributes) + empty attribute column; DataIterator list/file/generator/string, create_db on every 11th/97th; "
            "%d key assertions withheld as unobservable" % (len(axis_pairs(U.thorough)), K, "1,2,3,2(4 fields),3(6 fields)" if U.thorough else "1,2,3,2(4 fields)", nskipped),
            cases, fails, exhaustive=True, distinct=distinct)

        # ---- random mixtures of arbitrary dialects, arbitrary weights, arbitrary checklines
        fails, cases, distinct = [], 0, 0
        N = 12000 if U.thorough else 1500
        for t in range(N):
            L = U.rng.randint(1, 9)
            pool = U.rng.sample(ALL_DIALECTS, U.rng.choice((2, 2, 2, 3, 5)))
            specs = []
            for j in range(L):
                if U.rng.random() < 0.08:
                    specs.append(LineSpec(None, [], "exon", j + 1))
                    continue
                nat = U.rng.randint(1, 4)
                shape = [U.rng.choice((1, 1, 1, 2, 3, 0)) for _ in range(nat)]
                if shape[0] == 0:
                    shape[0] = 1
                specs.append(spec(U.rng.choice(pool), tuple(shape), j=j, rot=U.rng.randrange(4), cv=U.rng.randrange(3)))
            c = U.rng.choice((None, None, 0, 1, 2, 3, L - 1, L, 20))
            if c is not None and c < 0:
                c = 0
            r = U.rng.random()
            entry = U.rng.choice(("list", "file", "file_decorated", "gen", "string")) if r < 0.9 else U.rng.choice(("db_list", "db_file", "db_mem", "gz"))
            if entry in ("db_mem", "db_file"):
                # lines of the losing dialect are re-parsed with the winner; keep to the object form unless the file is consistent enough to import
                entry = "db_list"
            distinct += 1
            cases += check_case(entry, specs, c, S, fails)
        default_intact(fails, "random mixtures")
        U.bounded_result(
            "C09.bounded.vote_random",
            "same as C09.bounded.vote for windows mixing 2..5 arbitrary dialects of the grammar",
            "%d seeded files of 1..9 lines, 1..4 attributes with 0..3 values, 8%% empty attribute columns, checklines in {default, 0..3, L-1, L, 20}, "
            "all DataIterator entry points and create_db from features" % N,
            cases, fails, distinct=distinct)
    finally:
        S.close()


# ------------------------------------------------------------------------------------------------
# unit 3: the inspected window
# ------------------------------------------------------------------------------------------------
def unit_window(U):
    S = Scratch()
    try:
        fails, cases, distinct = [], 0, 0
        b = Dl("; ", False, "=", False, True)
        g = Dl("; ", True, " ", True, False)
        axes = [
            ("trailing", b, flip(b, trailing=True)),
            ("separator", flip(b, sep=";"), flip(b, sep=" ; ")),
            ("repeated", b, flip(b, repeated=False)),
            ("fmt", Dl(";", False, "=", False, False), g),
        ]
        Lmax = 6 if U.thorough else 4
        for (axis, Da, Db) in axes:
            for L in range(1, Lmax + 1):
                for p in range(0, L + 1):
                    # p light lines in Da (weight 2, second attribute multi-valued), then heavy lines in Db (weight 3, first new key set)
                    specs = []
                    for j in range(L):
                        if j < p:
                            specs.append(spec(Da, (1, 2), j=j, rot=0))
                        else:
                            specs.append(spec(Db, (1, 3, 1), j=j, rot=1 + (j % 2)))
                    for c in range(0, L + 2):
                        for entry in ENTRIES:
                            if entry in ("db_mem", "db_file") and axis == "fmt" and 0 < p < L:
                                continue   # importing a file whose minority lines are re-parsed in the other format is not this property
                            if not U.thorough and entry in ("gz", "iter_db") and (L + p + c) % 3:
                                continue
                            if not U.thorough and entry in DB_ENTRIES and (L + p + c) % 2:
                                continue
                            distinct += 1
                            cases += check_case(entry, specs, c, S, fails, {"axis": axis, "switch_at": p})
        # default checklines = 10: the 11th feature is inside the window, the 12th is not
        for (axis, Da, Db) in axes:
            for L in (10, 11, 12, 13):
                for heavy_from in (9, 10, 11, 12):
                    if heavy_from >= L:
                        continue
                    specs = [spec(Da, (1, 2), j=j, rot=0) for j in range(heavy_from)]
                    specs += [spec(Db, (2, 1, 3, 1), j=j, rot=1) for j in range(heavy_from, L)]
                    # make the tail outweigh the head: 2 * heavy_from < 4 * (#heavy in window) is not guaranteed -> the oracle decides
                    for c in (None, 9, 10, 11):
                        for entry in ENTRIES:
                            if entry in ("db_mem", "db_file") and axis == "fmt":
                                continue
                            if not U.thorough and entry in ("gz", "iter_db", "db_file", "db_mem") and c is not None:
                                continue
                            distinct += 1
                            cases += check_case(entry, specs, c, S, fails, {"axis": axis, "switch_at": heavy_from})
        # a single very heavy line just inside / just outside the window
        for (axis, Da, Db) in axes:
            for c in (0, 1, 2, 3):
                for pos in (c, c + 1):
                    specs = [spec(Da, (1, 2), j=j, rot=0) for j in range(pos)]
                    heavy = LineSpec(Db, [("k%d" % i, ["a", "b"] if i == 1 else ["v"]) for i in range(2 * pos + 3)], "exon", pos + 1)
                    specs.append(heavy)
                    specs += [spec(Da, (1, 2), j=j, rot=0) for j in range(pos + 1, pos + 3)]
                    for entry in ("file", "file_decorated", "string", "list", "gen", "db_list"):
                        distinct += 1
                        cases += check_case(entry, specs, c, S, fails, {"axis": axis, "heavy_at": pos})
        default_intact(fails, "window")
        U.bounded_result(
            "C09.bounded.window",
            "the dialect reported for checklines=c is the weighted vote over exactly the first c+1 features (comments, directives and blank lines not counted; "
            "default c = 10), identically for every entry point",
            "4 axes (trailing, separator, repeated, gff3/gtf) x files of L <= %d lines switching dialect and weight at every position p x checklines 0..L+1 x 10 entry points%s; "
            "default-checklines files of 10..13 lines; one heavy line at index c / c+1 for c = 0..3" % (Lmax, "" if U.thorough else " (database entries on every 2nd, gz/iter_db on every 3rd)"),
            cases, fails, distinct=distinct)
    finally:
        S.close()


# ------------------------------------------------------------------------------------------------
# unit 4: routing and supplied dialects
# ------------------------------------------------------------------------------------------------
def routing_specs(D, n=3, start=0, rot=0):
    """exon lines that tell GFF3 semantics (ID / Parent) from GTF semantics (gene_id / transcript_id) apart"""
    specs = []
    for j in range(start, start + n):
        t = 1 + (j // 2)
        items = [("ID", ["e%d" % (j + 1)]), ("Parent", ["m%d" % t]), ("gene_id", ["g1"]), ("transcript_id", ["t%d" % t]), ("tag", ["a", "b"])]
        r = (rot + j) % len(items)
        items = items[r:] + items[:r]
        specs.append(LineSpec(D, items, "exon", j + 1))
    return specs


def expected_import(fmt, specs, prior=0):
    """(id -> featuretype, relations) of the two import semantics, from Appendix A.5"""
    ids, rel = {}, set()
    for i, ls in enumerate(specs):
        a = dict(ls.items)
        if fmt == "gff3":
            k = a["ID"][0]
            ids[k] = ls.ftype
            for p in a["Parent"]:
                rel.add((p, k, 1))
        else:
            k = "%s_%d" % (ls.ftype, prior + i + 1)
            ids[k] = ls.ftype
            t, g = a["transcript_id"][0], a["gene_id"][0]
            ids[t] = "transcript"
            ids[g] = "gene"
            rel |= {(t, k, 1), (g, k, 2), (g, t, 1)}
    return ids, rel


def snapshot(db):
    ids = dict((f.id, f.featuretype) for f in db.all_features())
    rel = set(tuple(r) for r in db.conn.execute("SELECT parent, child, level FROM relations"))
    return ids, rel


def unit_routing(U):
    S = Scratch()
    try:
        fails, cases, distinct = [], 0, 0

        def compare(case, db, fmt, specs, prior=0, expd=None):
            exp = expected_import(fmt, specs, prior)
            got = snapshot(db)
            if got != exp:
                fails.append({"case": case, "expected": {"semantics": fmt, "ids": exp[0], "relations": sorted(exp[1])},
                              "observed": {"ids": got[0], "relations": sorted(got[1])}})
            if expd is not None:
                bad = diff_dialect(db.dialect, expd)
                if bad:
                    fails.append({"case": dict(case, report="db.dialect"), "expected": expd, "observed": bad})

        def build(kind, specs, **kw):
            lines = [ls.text() for ls in specs]
            with quiet():
                if kind == "file":
                    p = S.write(file_text(specs, True))
                    try:
                        return gffutils.create_db(p, ":memory:", **kw)
                    finally:
                        S.rm(p)
                if kind == "string":
                    before = set(os.listdir(tempfile.gettempdir()))
                    try:
                        return gffutils.create_db(file_text(specs), ":memory:", from_string=True, **kw)
                    finally:
                        for x in set(os.listdir(tempfile.gettempdir())) - before:
                            q = os.path.join(tempfile.gettempdir(), x)
                            if os.path.isfile(q):
                                S.rm(q)
                if kind == "list":
                    return gffutils.create_db([feature_from_line(l) for l in lines], ":memory:", **kw)
                if kind == "gen":
                    return gffutils.create_db((feature_from_line(l) for l in lines), ":memory:", **kw)
                if kind == "dbfile":
                    return gffutils.create_db([feature_from_line(l) for l in lines], S.path(".db"), **kw)
            raise ValueError(kind)

        # ---- (a) consistent input in each of the 48 dialects: semantics follow the format; force_gff overrides; update() routes on the stored dialect
        for di, D in enumerate(ALL_DIALECTS):
            for kind in ("file", "string", "list", "gen", "dbfile"):
                for n in ((1, 3, 4) if U.thorough else ((3,) if kind != "file" else (1, 4))):
                    for force_gff in (False, True):
                        specs = routing_specs(D, n, rot=di)
                        case = {"dialect": D._asdict(), "input": kind, "force_gff": force_gff, "lines": [ls.text() for ls in specs]}
                        fmt = "gff3" if force_gff else fmt_of(D)
                        expd = dialect_dict(D, first_seen([k for k, _ in ls.items] for ls in specs))
                        cases += 1
                        distinct += 1
                        try:
                            db = build(kind, specs, force_gff=force_gff)
                            compare(case, db, fmt, specs, expd=expd)
                            if not force_gff:
                                # new lines arrive as objects written in the *other* format: the stored format decides
                                other = Dl(";", False, "=", False, False) if fmt == "gtf" else Dl("; ", True, " ", True, False)
                                more = routing_specs(other, 2, start=6)
                                cases += 1
                                with quiet():
                                    db.update([feature_from_line(ls.text()) for ls in more], make_backup=False)
                                compare(dict(case, then_update=[ls.text() for ls in more]), db, fmt, specs + more, expd=expd)
                            if kind == "dbfile":
                                # the stored dialect and the imported content as seen by a fresh FeatureDB on the file
                                dbfn = db.dbfn
                                db.conn.close()
                                try:
                                    cases += 1
                                    db2 = gffutils.FeatureDB(dbfn)
                                    compare(dict(case, reopened=True), db2, fmt, specs + (more if not force_gff else []), expd=expd)
                                    db2.conn.close()
                                finally:
                                    S.rm(dbfn)
                        except Exception as e:  # noqa
                            fails.append({"case": case, "expected": "import with %s semantics" % fmt, "observed": "exception " + repr(e)})
        U.bounded_result(
            "C09.bounded.routing",
            "create_db applies GTF import semantics (auto ids, transcript_id/gene_id relations, derived transcript and gene) iff the inferred fmt is gtf and not force_gff, "
            "GFF3 semantics (ID, Parent) otherwise; FeatureDB.update routes on the stored dialect and leaves it unchanged",
            "all 48 dialects x file/from_string/list/generator input (memory) and list input (file database, reopened after the update) x %s exon lines x force_gff in {False, True}; update() with 2 lines written in the other format"
            % ("1,3,4" if U.thorough else "1..4"),
            cases, fails, distinct=distinct)

        # ---- (b) the voted format routes
        fails, cases, distinct = [], 0, 0
        G3 = Dl(";", False, "=", False, True)      # repeated keys: 'tag' is spelled twice, 6 fields for 5 attributes
        GT = Dl("; ", True, " ", True, False)
        # per line: format and how many further single-valued attributes are appended (weight 5 + extra)
        alphabet = [(G3, 0), (GT, 0), (G3, 1), (GT, 1)]
        K = 4 if U.thorough else 3
        for k in range(1, K + 1):
            for seq in itertools.product(alphabet, repeat=k):
                specs = []
                for j, (D, extra) in enumerate(seq):
                    ls = routing_specs(D, 1, start=j, rot=j)[0]
                    ls.items = ls.items + [("x%d" % i, ["1"]) for i in range(extra)]
                    specs.append(ls)
                exp, skipped = expected_dialect(specs)
                assert "fmt" not in skipped
                case = {"lines": [ls.text() for ls in specs]}
                for kind in ("list", "gen"):
                    cases += 1
                    distinct += 1
                    try:
                        db = build(kind, specs)
                        compare(dict(case, input=kind), db, exp["fmt"], specs, expd=exp)
                    except Exception as e:  # noqa
                        fails.append({"case": dict(case, input=kind), "expected": "import with %s semantics" % exp["fmt"], "observed": "exception " + repr(e)})
        U.bounded_result(
            "C09.bounded.routing_vote",
            "for windows mixing gff3 and gtf lines the import semantics (and db.dialect) follow the attribute-count-weighted vote on fmt, ties to the first line's format",
            "all sequences of <= %d feature objects over {gff3 with a repeated key (6 fields), gtf} x weights {5, 6}; create_db from list and generator" % K,
            cases, fails, exhaustive=True, distinct=distinct)

        # ---- (c) a supplied dialect is used verbatim
        fails, cases, distinct = [], 0, 0
        exotic = {"leading semicolon": True, "trailing semicolon": True, "quoted GFF2 values": True, "field separator": " ; ",
                  "keyval separator": " ", "multival separator": ",", "fmt": "gff3", "repeated keys": True, "order": ["zz", "tag", "ID"]}
        for di, D in enumerate(ALL_DIALECTS):
            specs = routing_specs(D, 3, rot=di)
            order_of_file = first_seen([k for k, _ in ls.items] for ls in specs)
            others = [ALL_DIALECTS[(di + 7) % 48], ALL_DIALECTS[(di + 25) % 48]] if U.thorough else [ALL_DIALECTS[(di + 7) % 48]]
            supplied = [dialect_dict(o, ["tag", "ID"]) for o in others] + [copy.deepcopy(exotic)]
            # the file's own dialect with the format word flipped: parsing is unaffected, routing must follow the supplied word
            own = dialect_dict(D, order_of_file)
            flipped = dict(own, fmt="gtf" if own["fmt"] == "gff3" else "gff3")
            for X in supplied + [flipped]:
                keep = copy.deepcopy(X)
                for c in (None, 0, 2):
                    for entry in ("file", "string", "list", "gen"):
                        cases += 1
                        distinct += 1
                        case = {"written_in": D._asdict(), "supplied": keep, "entry": entry, "checklines": c, "lines": [ls.text() for ls in specs]}
                        try:
                            if entry == "file":
                                p = S.write(file_text(specs, True))
                                it = DataIterator(p, dialect=X, **ckw(c))
                            elif entry == "string":
                                it = DataIterator(file_text(specs), from_string=True, dialect=X, **ckw(c))
                                p = it.data
                            else:
                                p = None
                                feats = [feature_from_line(l.text()) for l in specs]
                                it = DataIterator(feats if entry == "list" else iter(feats), dialect=X, **ckw(c))
                            try:
                                ys = list(it)
                            finally:
                                if p:
                                    S.rm(p)
                            ok = it.dialect == keep and X == keep and len(ys) == len(specs) and all(f.dialect == keep for f in ys)
                            if not ok:
                                fails.append({"case": case, "expected": keep, "observed": {"iterator": it.dialect, "yielded": [f.dialect for f in ys][:2], "n": len(ys)}})
                        except Exception as e:  # noqa
                            fails.append({"case": case, "expected": keep, "observed": "exception " + repr(e)})
                # through create_db: stored verbatim (also after reopening) and routed by its format word; objects as input so that parsing plays no role
                for kind in ("list", "file_db"):
                    cases += 1
                    distinct += 1
                    case = {"written_in": D._asdict(), "supplied": keep, "entry": "create_db:" + kind, "lines": [ls.text() for ls in specs]}
                    try:
                        feats = [feature_from_line(l.text()) for l in specs]
                        if kind == "list":
                            with quiet():
                                db = gffutils.create_db(feats, ":memory:", dialect=X)
                            got_d = [db.dialect]
                            snap = snapshot(db)
                        else:
                            dbfn = S.path(".db")
                            try:
                                with quiet():
                                    db = gffutils.create_db(iter(feats), dbfn, dialect=X, checklines=1)
                                got_d = [db.dialect]
                                snap = snapshot(db)
                                db.conn.close()
                                db2 = gffutils.FeatureDB(dbfn)
                                got_d.append(db2.dialect)
                                db2.conn.close()
                            finally:
                                S.rm(dbfn)
                        exp_imp = expected_import(keep["fmt"], specs)
                        if any(diff_dialect(d, keep) for d in got_d) or X != keep:
                            fails.append({"case": case, "expected": keep, "observed": got_d})
                        if snap != exp_imp:
                            fails.append({"case": case, "expected": {"semantics": keep["fmt"], "ids": exp_imp[0], "relations": sorted(exp_imp[1])},
                                          "observed": {"ids": snap[0], "relations": sorted(snap[1])}})
                    except Exception as e:  # noqa
                        fails.append({"case": case, "expected": keep, "observed": "exception " + repr(e)})
        default_intact(fails, "supplied dialects")
        U.bounded_result(
            "C09.bounded.supplied",
            "DataIterator(..., dialect=X).dialect, every yielded feature's dialect, create_db(..., dialect=X).dialect (also reopened) == X unchanged, whatever the "
            "input is written in and whatever checklines; the import semantics follow X['fmt']",
            "all 48 file dialects x supplied dialects {%d other grammar dialects, an exotic dictionary, the file's own dialect with fmt flipped} x checklines {default, 0, 2} "
            "x file/from_string/list/generator; create_db from list (memory) and generator (file, reopened)" % (2 if U.thorough else 1),
            cases, fails, distinct=distinct)
    finally:
        S.close()


UNITS = [
    ("bounded.consistent", unit_consistent),
    ("bounded.vote", unit_vote),
    ("bounded.window", unit_window),
    ("bounded.routing", unit_routing),
]
