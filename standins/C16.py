"""Bounded run-time stand-in for C16: merge() computes the interval union and partitions its inputs.

Everything here runs the REAL FeatureDB.merge / merge_all / children_bp natively and compares with
oracles written from the statement:

* union oracle   - per (seqid, strand, featuretype) the set of covered positions; the expected
                   extents are the maximal runs of consecutive covered positions (adjacent integer
                   intervals cover consecutive positions, so adjacency needs no special case);
* greedy oracle  - left-to-right: a feature joins the current run iff every criterion accepts
                   (run so far, feature, members); the shipped criteria are re-stated here in "gap"
                   form (number of uncovered positions between the run and the candidate);
* store oracle   - database afterwards == database before + one row per multi-member run, members
                   related at level 1 or deleted.

Results
  C16.bounded.union                 default criteria, grouped + start-ordered input == interval union
  C16.bounded.criteria              every shipped criterion / threshold / custom reflexive criterion, start-ordered input
  C16.bounded.criteria_unordered    same greedy law on arbitrarily ordered input (reaches the 'start' side of the
                                    overlap_start / overlap_any criteria, which start-ordered input cannot)
  C16.bounded.merge_all             merge_all stores one feature per multi-member run, relates or deletes members
  C16.bounded.children_bp           children_bp == summed lengths / size of the union
  C16.bounded.remerge               previously merged objects as inputs (EXPECTED TO FAIL on the pinned tree: F12)
  C16.bounded.explicit_generated_id freshness of the generated id against explicit '<featuretype>_<n>' ids
"""
import collections
import itertools
import json

import gffutils
from gffutils.feature import Feature
from gffutils import merge_criteria as mc

from contracts.qharness import native_db

MAXFAIL = 40          # failures kept per result (the count of further ones is not needed by the runner)
COLS = ("seqid", "source", "featuretype", "start", "end", "score", "strand", "frame")
GROUPS = [(sq, st, ft) for sq in ("c1", "c2") for st in ("+", "-") for ft in ("exon", "CDS")]
_OMIT = object()      # "do not pass merge_criteria at all"


# ------------------------------------------------------------------------------------------------ inputs
def mk(fid, start, end, seqid="c1", strand="+", ft="exon", source="s1", frame="."):
    f = Feature(seqid=seqid, source=source, featuretype=ft, start=start, end=end, strand=strand, frame=frame,
                attributes={"ID": [fid]})
    f.id = fid
    return f


def build(rows, ids=None):
    """rows: (start, end, seqid, strand, featuretype[, source[, frame]])"""
    out = []
    for i, r in enumerate(rows):
        out.append(mk(ids[i] if ids else "f%d" % i, r[0], r[1], r[2], r[3], r[4], *r[5:]))
    return out


def intervals(P):
    return [(s, e) for s in range(1, P + 1) for e in range(s, P + 1)]


def start_ordered(n, P):
    """every sequence of n intervals over positions 1..P with non-decreasing starts (all tie orders of the ends)"""
    ivs = intervals(P)

    def rec(prefix, lo):
        if len(prefix) == n:
            yield tuple(prefix)
            return
        for iv in ivs:
            if iv[0] >= lo:
                prefix.append(iv)
                for x in rec(prefix, iv[0]):
                    yield x
                prefix.pop()
    return rec([], 1)


def snap(f):
    return (tuple(getattr(f, c) for c in COLS), f.id, tuple((k, tuple(v)) for k, v in f.attributes.items()),
            tuple(f.extra))


def describe(feats):
    return [[f.id, f.seqid, f.source, f.featuretype, f.start, f.end, f.strand, f.frame] for f in feats]


# ------------------------------------------------------------------------------------------------ oracles
def union_runs(feats):
    """feats grouped by (seqid, strand, featuretype) and start-ordered within a group.
    -> (runs as index lists, extents) from position coverage only."""
    cover = collections.defaultdict(set)
    for f in feats:
        cover[(f.seqid, f.strand, f.featuretype)].update(range(f.start, f.end + 1))

    def block(f):
        key = (f.seqid, f.strand, f.featuretype)
        cov = cover[key]
        lo = f.start
        while lo - 1 in cov:
            lo -= 1
        hi = f.start
        while hi + 1 in cov:
            hi += 1
        return key, lo, hi
    runs, extents, last = [], [], None
    for i, f in enumerate(feats):
        b = block(f)
        if b == last:
            runs[-1].append(i)
        else:
            runs.append([i])
            extents.append((b[1], b[2]))
            last = b
    return runs, extents


class Acc(object):
    """the run so far: min start .. max end of its members; a column is the members' common value (None if mixed)"""
    __slots__ = ("start", "end", "seqid", "strand", "featuretype")

    def __init__(self, members):
        self.start = min(m.start for m in members)
        self.end = max(m.end for m in members)
        for c in ("seqid", "strand", "featuretype"):
            vals = set(getattr(m, c) for m in members)
            setattr(self, c, vals.pop() if len(vals) == 1 else None)


def greedy_runs(feats, preds):
    runs = []
    for i, f in enumerate(feats):
        if runs:
            members = [feats[j] for j in runs[-1]]
            acc = Acc(members)
            if all(p(acc, f, members) for p in preds):
                runs[-1].append(i)
                continue
        runs.append([i])
    return runs


# the shipped criteria, re-stated: gap_after = uncovered positions between the run's end and the candidate's start
# (negative: the candidate starts inside/before the end); gap_before likewise on the other side.
def _gap_after(a, c):
    return c.start - a.end - 1


def _gap_before(a, c):
    return a.start - c.end - 1


def o_end(maxgap):
    return lambda a, c, m: c.start >= a.start and _gap_after(a, c) <= maxgap


def o_start(maxgap):
    return lambda a, c, m: c.end <= a.end and _gap_before(a, c) <= maxgap


def o_any(gap_b, gap_a):
    s, e = o_start(gap_b), o_end(gap_a)
    return lambda a, c, m: s(a, c, m) or e(a, c, m)


def coord_criteria():
    """(name, real criterion, oracle predicate).  end_threshold(t) tolerates t-1 uncovered positions (t=1 is the
    'inclusive' form), start_threshold(t) tolerates t (t=0 is the 'inclusive' form) - as shipped."""
    out = [("exact_coordinates_only", mc.exact_coordinates_only, lambda a, c, m: (c.start, c.end) == (a.start, a.end)),
           ("overlap_end_inclusive", mc.overlap_end_inclusive, o_end(0)),
           ("overlap_start_inclusive", mc.overlap_start_inclusive, o_start(0)),
           ("overlap_any_inclusive", mc.overlap_any_inclusive, o_any(0, 0))]
    for t in (0, 1, 2, 3):
        out.append(("overlap_end_threshold(%d)" % t, mc.overlap_end_threshold(t), o_end(t - 1)))
        out.append(("overlap_start_threshold(%d)" % t, mc.overlap_start_threshold(t), o_start(t)))
        out.append(("overlap_any_threshold(%d)" % t, mc.overlap_any_threshold(t), o_any(t, t - 1)))
    return out


GROUP_CRIT = [("seqid", mc.seqid, lambda a, c, m: a.seqid is not None and c.seqid == a.seqid),
              ("strand", mc.strand, lambda a, c, m: a.strand is not None and c.strand == a.strand),
              ("feature_type", mc.feature_type, lambda a, c, m: a.featuretype is not None and c.featuretype == a.featuretype)]


def _c_two(acc, cur, comps):
    return len(comps) < 2


def _c_near(acc, cur, comps):
    return cur.start - acc.start <= 2


def _c_never(acc, cur, comps):
    return cur is acc


def _c_grow(acc, cur, comps):
    return cur.end >= acc.end


def _c_src(acc, cur, comps):
    return all(x.source == cur.source for x in comps)


# reflexive custom criteria; they read only start/end of acc, so the same function serves as oracle predicate
CUSTOM = [("custom:at_most_2_members", _c_two, _c_two),
          ("custom:start_within_2_of_run_start", _c_near, _c_near),
          ("custom:never(cur is acc)", _c_never, _c_never),
          ("custom:end_not_before_run_end", _c_grow, _c_grow),
          ("custom:same_source_as_every_member", _c_src, _c_src)]

DEFAULT_ORACLE = [GROUP_CRIT[0][2], o_end(0), GROUP_CRIT[1][2], GROUP_CRIT[2][2]]


# ------------------------------------------------------------------------------------------------ checker
class MergeChecker(object):
    """runs the real merge() on one long-lived FeatureDB (ids must stay distinct across calls) and checks the
    statement clause by clause against the expected run structure."""

    def __init__(self, renew=4000):
        self.renew = renew
        self.cases = 0
        self.fails = []
        self.nfail = 0
        self.kinds = collections.Counter()
        self.new_db()

    def new_db(self, features=()):
        self.db = native_db(list(features))
        self.seen = set()
        self.count_db = 0

    def fail(self, case, expected, observed):
        # keep up to MAXFAIL failures per kind, so that a frequent known defect cannot crowd out a different one
        self.nfail += 1
        kind = observed[:60] if isinstance(observed, str) else observed["problems"][0][:24]
        self.kinds[kind] += 1
        if self.kinds[kind] <= MAXFAIL:
            self.fails.append({"case": case, "expected": expected, "observed": observed})

    def check(self, feats, exp_runs, crit=_OMIT, crit_names=None, exp_extents=None, as_iter=False, note=None):
        self.cases += 1
        self.count_db += 1
        if self.count_db > self.renew:
            self.new_db()
        db = self.db
        case = {"features": describe(feats), "criteria": crit_names if crit_names is not None else "default (omitted)",
                "input_as": "iterator" if as_iter else "list"}
        if note:
            case["note"] = note
        before = [snap(f) for f in feats]
        tc = db.conn.total_changes
        arg = iter(feats) if as_iter else list(feats)
        try:
            if crit is _OMIT:
                outs = list(db.merge(arg))
            else:
                outs = list(db.merge(arg, merge_criteria=crit))
        except Exception as e:
            self.fail(case, {"runs": exp_runs}, "exception " + repr(e))
            return None
        problems = []
        pos = {id(f): i for i, f in enumerate(feats)}
        input_ids = set(f.id for f in feats)
        got_runs, got_ext = [], []
        for o in outs:
            ch = getattr(o, "children", None)
            got_ext.append((o.start, o.end))
            if ch is None:
                problems.append("output %r has no children attribute" % (o.id,))
                got_runs.append([pos.get(id(o), "?")])
                continue
            if len(ch) == 0:
                if id(o) not in pos:
                    problems.append("childless output %r is not one of the input objects" % (o.id,))
                got_runs.append([pos.get(id(o), "?")])
                continue
            got_runs.append([pos.get(id(c), "?") for c in ch])
            if id(o) in pos:
                problems.append("merged output %r is an input object" % (o.id,))
            if len(ch) < 2:
                problems.append("merged output %r has a single child" % (o.id,))
            if o.start != min(c.start for c in ch) or o.end != max(c.end for c in ch):
                problems.append("merged output %r spans %r..%r, children span %r..%r" % (
                    o.id, o.start, o.end, min(c.start for c in ch), max(c.end for c in ch)))
            if o.id is None or o.id in self.seen:
                problems.append("merged id %r was already handed out on this FeatureDB" % (o.id,))
            if o.id in input_ids:
                problems.append("merged id %r equals an input id" % (o.id,))
            self.seen.add(o.id)
            try:
                idattr = list(o.attributes["ID"])
            except Exception:
                idattr = None
            if idattr != [o.id]:
                problems.append("merged output id %r but ID attribute %r" % (o.id, idattr))
            for col, amb in (("seqid", None), ("strand", "."), ("featuretype", "sequence_feature"), ("frame", ".")):
                vals = []
                for c in ch:
                    if getattr(c, col) not in vals:
                        vals.append(getattr(c, col))
                # the statement fixes no rule for columns on which the members disagree (nor for
                # `source`); only the agreed value is required to survive
                if len(vals) == 1 and getattr(o, col) != vals[0]:
                    problems.append("merged %s %r, children all have %r" % (col, getattr(o, col), vals[0]))
        if got_runs != exp_runs:
            problems.append("run structure differs")
        if exp_extents is not None and got_ext != exp_extents:
            problems.append("extents differ from the interval union")
        if [snap(f) for f in feats] != before:
            problems.append("an input object's columns/attributes changed: %r" % (describe(feats),))
        if db.conn.total_changes != tc:
            problems.append("merge() wrote to the database")
        if problems:
            self.fail(case, {"runs": exp_runs, "extents": exp_extents},
                      {"runs": got_runs, "extents": got_ext, "ids": [o.id for o in outs], "problems": problems})
        return outs


def crit_lists(coords, subsets, customs=()):
    """-> (names, real list, oracle list)"""
    out = []
    for c in coords:
        for sub in subsets:
            parts = [GROUP_CRIT[i] for i in sub]
            # interleave like the default: seqid, coordinate criterion, strand, feature_type
            seq = [p for p in parts if p[0] == "seqid"] + ([c] if c else []) + [p for p in parts if p[0] != "seqid"]
            out.append(([p[0] for p in seq], [p[1] for p in seq], [p[2] for p in seq]))
    for cu in customs:
        out.append(([cu[0]], [cu[1]], [cu[2]]))
        e = coord_criteria()[1]
        out.append(([e[0], cu[0]], [e[1], cu[1]], [e[2], cu[2]]))
        out.append(([cu[0], e[0]], [cu[1], e[1]], [cu[2], e[2]]))
    return out


ALL_SUBSETS = [s for k in range(4) for s in itertools.combinations(range(3), k)]


def rand_rows(rng, n, P, maxlen, seqids=("c1", "c2"), strands=("+", "-", "."), fts=("exon", "CDS"),
              sources=("s1", "s2"), frames=(".", "0", "1")):
    rows = []
    for _ in range(n):
        s = rng.randint(1, P)
        e = min(P, s + rng.randint(0, maxlen))
        rows.append((s, e, rng.choice(seqids), rng.choice(strands), rng.choice(fts), rng.choice(sources), rng.choice(frames)))
    return rows


def _grouped(rows):
    return sorted(rows, key=lambda r: (r[2], r[4], r[3], r[0]))


# ================================================================================================ unit 1
def unit_union(U):
    """default criteria == independent interval union per (seqid, strand, featuretype)"""
    K = MergeChecker()
    n_alt = [0]

    def one(rows, note=None):
        feats = build(rows)
        runs, ext = union_runs(feats)
        n_alt[0] += 1
        if n_alt[0] % 5 == 3:
            # features that never were in a database (parsed from lines, built by hand) have no id
            for f in feats:
                f.id = None
            note = (note + "; " if note else "") + "input features with id None"
        k = n_alt[0] % 4
        if k == 0:
            K.check(feats, runs, exp_extents=ext, note=note)
        elif k == 1:
            K.check(feats, runs, exp_extents=ext, as_iter=True, note=note)
        elif k == 2:
            K.check(feats, runs, crit=[mc.seqid, mc.overlap_end_inclusive, mc.strand, mc.feature_type],
                    crit_names=["seqid", "overlap_end_inclusive", "strand", "feature_type"], exp_extents=ext, note=note)
        else:
            K.check(feats, runs, crit=(mc.feature_type, mc.strand, mc.overlap_end_inclusive, mc.seqid),
                    crit_names=["feature_type", "strand", "overlap_end_inclusive", "seqid (tuple)"], exp_extents=ext,
                    note=note)

    g0 = GROUPS[0]
    # (a) one group, exhaustive start-ordered sequences
    single = [(1, 8), (2, 8), (3, 8), (4, 8)] if U.thorough else [(1, 8), (2, 8), (3, 8), (4, 6)]
    for n, P in single:
        for seq in start_ordered(n, P):
            one([iv + g0 for iv in seq])
    # (b) mixtures of 2 seqids x 2 strands x 2 featuretypes, grouped like merge_all orders them
    if U.thorough:
        mixed = [(2, 8, False), (3, 6, False), (4, 4, True)]
    else:
        mixed = [(2, 6, False), (3, 4, True)]
    for n, P, fix_first in mixed:
        for seq in start_ordered(n, P):
            for gs in itertools.product(GROUPS, repeat=n - 1 if fix_first else n):
                if fix_first:
                    gs = (g0,) + gs
                one(_grouped([iv + g for iv, g in zip(seq, gs)]))
    exhaustive_cases = K.cases
    # (c) beyond: random, more and longer intervals, strand '.', differing sources/frames
    R = 40000 if U.thorough else 2500
    for _ in range(R):
        n = U.rng.randint(5, 12)
        P = U.rng.choice((12, 20, 30))
        one(_grouped(rand_rows(U.rng, n, P, U.rng.choice((1, 3, 6)))), note="random")
    U.bounded_result(
        "C16.bounded.union",
        "real merge() with the default criteria on (seqid, featuretype, strand, start)-ordered features: outputs' extents == "
        "maximal runs of consecutive covered positions per (seqid, strand, featuretype); every input is the identical object "
        "with children == () or the child of exactly one fresh output spanning min..max of its children with a fresh distinct "
        "id; inputs and database unchanged",
        "exhaustive: all start-ordered sequences (every tie order) of %s intervals/positions in one group; mixtures of 2 seqids x 2 "
        "strands x 2 featuretypes for %s (n, positions, first group fixed); then %d random cases of 5-12 intervals over <= 30 "
        "positions with strand '.', 2 sources, 3 frames; criteria omitted / list / permuted tuple, input list / iterator"
        % (single, mixed, R),
        K.cases, K.fails, distinct=K.cases, sample={"exhaustive_cases": exhaustive_cases, "failures_total": K.nfail})


# ================================================================================================ unit 2
def unit_criteria(U):
    """every shipped criterion / threshold / reflexive custom criterion: greedy law"""
    coords = coord_criteria()
    g0 = GROUPS[0]

    # ---------------- start-ordered
    K = MergeChecker()
    # (a) coordinate semantics, one group: each coordinate criterion alone and inside the default frame
    scopes = [(1, 8), (2, 8), (3, 7), (4, 6)] if U.thorough else [(1, 6), (2, 6), (3, 5)]
    lists_a = crit_lists(coords, [(), (0, 1, 2)])
    for n, P in scopes:
        for seq in start_ordered(n, P):
            rows = [iv + g0 for iv in seq]
            for names, real, orc in lists_a:
                feats = build(rows)
                K.check(feats, greedy_runs(feats, orc), crit=real, crit_names=names)
    # (b) every subset of {seqid, strand, feature_type} around every coordinate criterion (and none), mixed groups,
    #     start-ordered only, so that group changes interleave
    reps = coords if U.thorough else [coords[i] for i in (0, 1, 2, 3, 4, 8, 12, 15)]
    lists_b = crit_lists(reps + [None], ALL_SUBSETS)
    scopes_b = [(2, 4), (3, 3)] if U.thorough else [(2, 3), (3, 2)]
    for n, P in scopes_b:
        for seq in start_ordered(n, P):
            for gs in itertools.product(GROUPS, repeat=n - 1):
                rows = [iv + g for iv, g in zip(seq, (g0,) + gs)]
                for names, real, orc in lists_b:
                    feats = build(rows)
                    K.check(feats, greedy_runs(feats, orc), crit=real, crit_names=names)
    # (c) custom reflexive criteria (members list, identity, sources)
    lists_c = crit_lists([], [], CUSTOM)
    for n, P in ([(2, 6), (3, 5), (4, 4)] if U.thorough else [(2, 5), (3, 4), (4, 3)]):
        for seq in start_ordered(n, P):
            for srcs in (("s1",) * n, ("s1", "s2") * 2, ("s1", "s1", "s2", "s1")):
                rows = [iv + g0 + (srcs[i],) for i, iv in enumerate(seq)]
                for names, real, orc in lists_c:
                    feats = build(rows)
                    K.check(feats, greedy_runs(feats, orc), crit=real, crit_names=names)
    # (d) argument shapes: single callable, tuple, generator of criteria, features as generator
    for seq in start_ordered(3, 4):
        rows = [iv + g0 for iv in seq]
        for c in (coords[1], coords[0], coords[5]):
            for shape in ("callable", "tuple", "generator"):
                feats = build(rows)
                arg = c[1] if shape == "callable" else ((c[1],) if shape == "tuple" else (x for x in [c[1]]))
                K.check(feats, greedy_runs(feats, [c[2]]), crit=arg, crit_names=[c[0], "passed as " + shape], as_iter=True)
    exhaustive_cases = K.cases
    # (e) random beyond
    all_lists = crit_lists(coords + [None], ALL_SUBSETS, CUSTOM)
    R = 60000 if U.thorough else 4000
    for _ in range(R):
        n = U.rng.randint(3, 10)
        rows = sorted(rand_rows(U.rng, n, U.rng.choice((8, 14, 25)), U.rng.choice((1, 3, 6)),
                                seqids=("c1",) if U.rng.random() < .5 else ("c1", "c2"),
                                strands=("+",) if U.rng.random() < .5 else ("+", "-", "."),
                                fts=("exon",) if U.rng.random() < .4 else ("exon", "CDS")), key=lambda r: r[0])
        names, real, orc = U.rng.choice(all_lists)
        feats = build(rows)
        K.check(feats, greedy_runs(feats, orc), crit=real, crit_names=names, note="random")
    U.bounded_result(
        "C16.bounded.criteria",
        "real merge() on start-ordered features == greedy fold in which a feature joins the run exactly when every criterion "
        "accepts (run spanning min..max, feature, members), the shipped criteria re-stated in gap form; partition, fresh "
        "distinct ids (also across calls on one FeatureDB), ambiguity of mixed columns, inputs and database unchanged",
        "16 coordinate criteria (exact, end/start/any inclusive, end/start/any threshold 0..3) alone and with seqid+strand+"
        "feature_type over all start-ordered sequences of %s (n, positions); %d coordinate criteria (and none) x all 8 subsets of "
        "{seqid, strand, feature_type} over %s with every group mixture (first fixed); 5 custom reflexive criteria alone and "
        "combined; criteria passed as callable / tuple / generator; then %d random cases of 3-10 intervals over <= 25 positions"
        % (scopes, len(reps), scopes_b, R),
        K.cases, K.fails, distinct=K.cases, sample={"exhaustive_cases": exhaustive_cases, "failures_total": K.nfail})

    # ---------------- any order
    K2 = MergeChecker()
    lists_u = crit_lists(coords, [(), (0, 1, 2)])
    for n, P in ([(2, 6), (3, 5), (4, 4)] if U.thorough else [(2, 5), (3, 4)]):
        ivs = intervals(P)
        for seq in itertools.product(ivs, repeat=n):
            rows = [iv + g0 for iv in seq]
            for names, real, orc in lists_u:
                feats = build(rows)
                K2.check(feats, greedy_runs(feats, orc), crit=real, crit_names=names)
    ex2 = K2.cases
    R2 = 30000 if U.thorough else 2000
    for _ in range(R2):
        rows = rand_rows(U.rng, U.rng.randint(3, 9), U.rng.choice((8, 14, 25)), U.rng.choice((1, 3, 6)))
        names, real, orc = U.rng.choice(all_lists)
        feats = build(rows)
        K2.check(feats, greedy_runs(feats, orc), crit=real, crit_names=names, note="random, unordered")
    U.bounded_result(
        "C16.bounded.criteria_unordered",
        "the same greedy law on arbitrarily ordered input (outside the statement's start-ordered precondition; the only way "
        "to reach the lower bound of overlap_start_* / overlap_any_* thresholds)",
        "16 coordinate criteria alone and with seqid+strand+feature_type over every sequence (all orders) of %s intervals/positions; "
        "then %d random unordered cases with any criteria list" % ([(2, 6), (3, 5), (4, 4)] if U.thorough else [(2, 5), (3, 4)], R2),
        K2.cases, K2.fails, distinct=K2.cases, sample={"exhaustive_cases": ex2, "failures_total": K2.nfail})


# ================================================================================================ unit 3
def db_snapshot(db):
    feats = {}
    c = db.conn.cursor()
    for row in c.execute("SELECT id, seqid, source, featuretype, start, end, score, strand, frame, attributes, extra, bin "
                         "FROM features"):
        row = tuple(row)
        feats[row[0]] = {"cols": dict(zip(COLS, row[1:9])), "attrs": json.loads(row[9]), "extra": row[10], "bin": row[11]}
    rels = set(tuple(r) for r in c.execute("SELECT parent, child, level FROM relations"))
    return feats, rels


def blocks_of(snapshot_feats, types, keycols):
    """multi-member maximal runs of covered positions among the features whose type is in `types` (None: all),
    per key -> list of (key, lo, hi, frozenset(member ids))"""
    cover = collections.defaultdict(set)
    sel = {i: f for i, f in snapshot_feats.items() if types is None or f["cols"]["featuretype"] in types}
    for i, f in sel.items():
        k = tuple(f["cols"][c] for c in keycols)
        cover[k].update(range(f["cols"]["start"], f["cols"]["end"] + 1))
    members = collections.defaultdict(set)
    for i, f in sel.items():
        k = tuple(f["cols"][c] for c in keycols)
        lo = f["cols"]["start"]
        while lo - 1 in cover[k]:
            lo -= 1
        hi = lo
        while hi + 1 in cover[k]:
            hi += 1
        members[(k, lo, hi)].add(i)
    return [(k, lo, hi, frozenset(m)) for (k, lo, hi), m in sorted(members.items()) if len(m) > 1]


def merge_all_case(rows, with_gene, mode, exclude, fails, nfail, filedir=None):
    feats = build(rows)
    rels = []
    if with_gene:
        feats.append(mk("g", 1, 40, "c1", "+", "gene"))
        rels = [("g", f.id, 1) for f in feats[:-1]]
    db = native_db(feats, rels)
    path = None
    if filedir is not None:
        # the same database as a FILE (delete() then takes its backup branch); what is judged is what a reopened database holds
        import sqlite3 as _sq, os as _os, gffutils as _g
        path = _os.path.join(filedir, "m.db")
        for x in (path, path + ".bak"):
            if _os.path.exists(x):
                _os.remove(x)
        dest = _sq.connect(path)
        db.conn.backup(dest)
        dest.close()
        db = _g.FeatureDB(path)
    before_f, before_r = db_snapshot(db)
    case = {"features": describe(feats), "relations": rels, "mode": mode, "exclude_components": exclude, "database": "file" if path else "memory"}
    if mode == "default":
        kw, types, keycols = {}, None, ("seqid", "strand", "featuretype")
    elif mode == "default_explicit":
        kw = dict(merge_order=("seqid", "featuretype", "strand", "start"),
                  merge_criteria=[mc.seqid, mc.overlap_end_inclusive, mc.strand, mc.feature_type], featuretypes_groups=(None,))
        types, keycols = None, ("seqid", "strand", "featuretype")
    elif mode == "group_exon":
        kw = dict(featuretypes_groups=("exon",))
        types, keycols = {"exon"}, ("seqid", "strand", "featuretype")
    else:   # any_type: exon and CDS merge together
        kw = dict(merge_order=("seqid", "strand", "start"), merge_criteria=[mc.seqid, mc.overlap_end_inclusive, mc.strand],
                  featuretypes_groups=(("exon", "CDS"),))
        types, keycols = {"exon", "CDS"}, ("seqid", "strand")
    exp_blocks = blocks_of(before_f, types, keycols)
    expected = sorted((lo, hi, sorted(m)) for (_, lo, hi, m) in exp_blocks)

    def fail(observed):
        nfail[0] += 1
        if len(fails) < MAXFAIL:
            fails.append({"case": case, "expected": {"stored_runs": expected}, "observed": observed})
    try:
        res = db.merge_all(exclude_components=exclude, **kw)
    except Exception as e:
        fail("exception " + repr(e))
        return
    problems = []
    got = sorted((m.start, m.end, sorted(c.id for c in m.children)) for m in res)
    if got != expected:
        problems.append("returned runs differ: %r" % (got,))
    ids = [m.id for m in res]
    if len(set(ids)) != len(ids) or set(ids) & set(before_f):
        problems.append("returned ids not fresh/distinct: %r" % (ids,))
    if path is not None:
        import gffutils as _g
        db.conn.commit()
        db = _g.FeatureDB(path)
    after_f, after_r = db_snapshot(db)
    exp_f = dict(before_f)
    exp_r = set(before_r)
    for m in res:
        kids = [c.id for c in m.children]
        row = after_f.get(m.id)
        if row is None:
            problems.append("merged feature %r not stored" % (m.id,))
        else:
            kc = [before_f[k]["cols"] for k in kids if k in before_f]
            want = {"start": min(c["start"] for c in kc), "end": max(c["end"] for c in kc)} if kc else {}
            for col, amb in (("seqid", None), ("strand", "."), ("featuretype", "sequence_feature")):
                vals = sorted(set(c[col] for c in kc))
                if len(vals) == 1:
                    want[col] = vals[0]
                elif amb:
                    want[col] = amb
            bad = {c: (row["cols"][c], v) for c, v in want.items() if row["cols"][c] != v}
            if bad:
                problems.append("stored merged feature %r: (stored, wanted) %r" % (m.id, bad))
            if row["attrs"].get("ID") != [m.id]:
                problems.append("stored merged feature %r has ID attribute %r" % (m.id, row["attrs"].get("ID")))
            exp_f[m.id] = row
        if exclude:
            for k in kids:
                exp_f.pop(k, None)
            exp_r = set(r for r in exp_r if r[0] not in kids and r[1] not in kids)
        else:
            for k in kids:
                exp_r.add((m.id, k, 1))
                if k in exp_f:
                    e = dict(exp_f[k])
                    e["attrs"] = dict(e["attrs"])
                    e["attrs"]["Parent"] = [m.id]
                    exp_f[k] = e
    if set(after_f) != set(exp_f):
        problems.append("stored ids %r, expected %r" % (sorted(after_f), sorted(exp_f)))
    else:
        for i in exp_f:
            if after_f[i] != exp_f[i]:
                problems.append("stored feature %r is %r, expected %r" % (i, after_f[i], exp_f[i]))
    if after_r != exp_r:
        problems.append("relations %r, expected %r" % (sorted(after_r), sorted(exp_r)))
    if problems:
        fail({"returned": [(m.id, m.start, m.end, [c.id for c in m.children]) for m in res], "problems": problems})


def unit_store(U):
    """merge_all and children_bp on real databases"""
    fails, nfail, cases = [], [0], 0
    g0 = GROUPS[0]
    work = []
    for n, P in ([(1, 3), (2, 5), (3, 4)] if U.thorough else [(1, 2), (2, 4), (3, 3)]):
        for seq in start_ordered(n, P):
            work.append(([iv + g0 for iv in seq], "one group"))
    mixed = []
    for n, P in ([(2, 3), (3, 3), (4, 2)] if U.thorough else [(2, 3), (3, 2)]):
        for seq in start_ordered(n, P):
            for gs in itertools.product(GROUPS, repeat=n - 1):
                mixed.append(([iv + g for iv, g in zip(seq, (g0,) + gs)], "mixture"))
    if not U.thorough:
        mixed = U.rng.sample(mixed, 500)
    elif len(mixed) > 14000:
        mixed = U.rng.sample(mixed, 14000)
    work += mixed
    for _ in range(6000 if U.thorough else 250):
        work.append((rand_rows(U.rng, U.rng.randint(4, 9), U.rng.choice((8, 14)), U.rng.choice((1, 3)), strands=("+", "-"),
                               frames=(".",)), "random"))
    # names that differ only in letter case are different names: runs are per seqid and featuretype exactly as stored
    for j in range(400 if U.thorough else 60):
        sq, ft = ((("Chr1", "chr1"), ("exon",)), (("c1",), ("CDS", "cds")), (("chrUn_A", "chrUn_a"), ("CDS", "cds")))[j % 3]
        work.append((rand_rows(U.rng, U.rng.randint(4, 8), U.rng.choice((8, 14)), U.rng.choice((1, 3)), seqids=sq, strands=("+",), fts=ft, frames=(".",)), "case twins"))
    modes = ("default", "default_explicit", "group_exon", "any_type")
    for k, (rows, label) in enumerate(work):
        # ids are assigned in a shuffled order so that rowid / id order is unrelated to the coordinates
        rows = list(rows)
        U.rng.shuffle(rows)
        for exclude in (False, True):
            mode = modes[(k + exclude) % 4] if k % 3 else "default"
            if label == "case twins":
                mode = ("default", "default_explicit")[k % 2]
            merge_all_case(rows, with_gene=bool((k // 2) % 2), mode=mode, exclude=exclude, fails=fails, nfail=nfail)
            cases += 1
            if k % 10 == 0:
                # every tenth case also on a file database
                import tempfile as _tf, shutil as _sh
                d = _tf.mkdtemp()
                try:
                    merge_all_case(rows, with_gene=bool((k // 2) % 2), mode=mode, exclude=exclude, fails=fails, nfail=nfail, filedir=d)
                    cases += 1
                finally:
                    _sh.rmtree(d, ignore_errors=True)
    U.bounded_result(
        "C16.bounded.merge_all",
        "database after merge_all == database before + one stored feature (fresh id, union extent) per multi-member run of the "
        "interval union, with (merged, member, 1) added and Parent set for every member, or with the members and their relations "
        "deleted when exclude_components; nothing else changes; returned list == those runs",
        "%d feature sets (all start-ordered sequences of small scopes in one group, sampled 2x2x2 mixtures, random 4-9 intervals, random 4-8 intervals over seqids / featuretypes that differ only in letter case), "
        "ids in shuffled order, with/without a gene parent holding level-1 relations, exclude_components on/off, default arguments / "
        "explicit defaults / featuretypes_groups=('exon',) / exon+CDS group without feature_type criterion" % (len(work),),
        cases, fails, distinct=cases, sample={"failures_total": nfail[0]})

    # ---------------- children_bp
    fails2, cases2, nfail2 = [], 0, 0
    scopes = [(1, 8), (2, 8), (3, 8), (4, 6)] if U.thorough else [(1, 6), (2, 6), (3, 5)]
    multisets = []
    for n, P in scopes:
        multisets += list(itertools.combinations_with_replacement(intervals(P), n))
    for _ in range(3000 if U.thorough else 300):
        n = U.rng.randint(5, 10)
        ms = []
        for _i in range(n):
            s = U.rng.randint(1, 30)
            ms.append((s, min(30, s + U.rng.randint(0, 6))))
        multisets.append(tuple(ms))
    CH = 150
    for off in range(0, len(multisets), CH):
        chunk = multisets[off:off + CH]
        feats, rels, plan = [], [], []
        for pi, ms in enumerate(chunk):
            mixed_strand = (off + pi) % 3 == 2
            pid = "m%d" % pi
            feats.append(mk(pid, 1, 40, "c1", "+", "mRNA"))
            order = list(ms)
            U.rng.shuffle(order)
            ex = []
            for j, (s, e) in enumerate(order):
                st = "-" if (mixed_strand and j % 2) else "+"
                f = mk("%s.e%d" % (pid, j), s, e, "c1", st, "exon")
                feats.append(f)
                rels.append((pid, f.id, 1))
                ex.append((s, e))
            # a CDS child (counted only for child_featuretype='CDS') and an exon that is nobody's child
            cds = mk("%s.c" % pid, ms[0][0], ms[0][1], "c1", "+", "CDS")
            feats.append(cds)
            rels.append((pid, cds.id, 1))
            feats.append(mk("%s.x" % pid, 1, 40, "c1", "+", "exon"))
            plan.append((pid, ex, mixed_strand, (ms[0][0], ms[0][1])))
        db = native_db(feats, rels)
        tc = db.conn.total_changes
        for pid, ex, mixed_strand, cds in plan:
            total = sum(e - s + 1 for s, e in ex)
            union = len(set(p for s, e in ex for p in range(s, e + 1)))
            calls = [("sum", dict(), total), ("sum child_featuretype=exon", dict(child_featuretype="exon", merge=False), total),
                     ("sum CDS", dict(child_featuretype="CDS"), cds[1] - cds[0] + 1),
                     ("union CDS", dict(child_featuretype="CDS", merge=True), cds[1] - cds[0] + 1)]
            if mixed_strand:
                calls.append(("union ignoring strand", dict(merge=True, merge_criteria=[mc.seqid, mc.overlap_end_inclusive]), union))
                calls.append(("union ignoring strand (tuple)", dict(merge=True, merge_criteria=(mc.overlap_end_inclusive, mc.feature_type)), union))
            else:
                calls.append(("union", dict(merge=True), union))
                calls.append(("union explicit criteria", dict(child_featuretype="exon", merge=True,
                              merge_criteria=[mc.seqid, mc.overlap_end_inclusive, mc.strand, mc.feature_type]), union))
            for ci, (label, kw, want) in enumerate(calls):
                cases2 += 1
                arg = pid if ci % 2 == 0 else db[pid]
                try:
                    got = db.children_bp(arg, **kw)
                except Exception as e:
                    got = "exception " + repr(e)
                if got != want or isinstance(got, bool):
                    nfail2 += 1
                    if len(fails2) < MAXFAIL:
                        fails2.append({"case": {"parent": pid, "exon_children (db order)": ex, "mixed_strand": mixed_strand,
                                                "CDS_child": cds, "call": label, "feature_as": "id" if ci % 2 == 0 else "Feature"},
                                       "expected": want, "observed": got})
        if db.conn.total_changes != tc:
            nfail2 += 1
            fails2.append({"case": {"chunk": off}, "expected": "database unchanged by children_bp",
                           "observed": "total_changes grew by %d" % (db.conn.total_changes - tc)})
    U.bounded_result(
        "C16.bounded.children_bp",
        "children_bp(parent, child_featuretype) == sum of the children's lengths; with merge=True == number of positions covered "
        "by them (default criteria on same-strand children, strand-free criteria on mixed-strand children); other featuretypes and "
        "non-children are not counted; database unchanged",
        "every multiset of %s intervals/positions as exon children of an mRNA (stored in shuffled order) plus random multisets of "
        "5-10 intervals over 30 positions; parent given as id / Feature; 6 call forms each" % (scopes,),
        cases2, fails2, distinct=cases2, sample={"failures_total": nfail2})


# ================================================================================================ unit 4
def unit_remerge(U):
    """previously merged feature objects as inputs (F12 expected to fail here) + explicit '<type>_<n>' ids"""
    coords = coord_criteria()
    g0 = GROUPS[0]
    K = MergeChecker()
    loose = ([mc.seqid, mc.overlap_end_threshold(3), mc.strand, mc.feature_type], DEFAULT_ORACLE[:1] + [o_end(2)] + DEFAULT_ORACLE[2:],
             ["seqid", "overlap_end_threshold(3)", "strand", "feature_type"])
    exact = ([mc.seqid, mc.exact_coordinates_only, mc.strand, mc.feature_type], DEFAULT_ORACLE[:1] + [coords[0][2]] + DEFAULT_ORACLE[2:],
             ["seqid", "exact_coordinates_only", "strand", "feature_type"])
    default = ([mc.seqid, mc.overlap_end_inclusive, mc.strand, mc.feature_type], DEFAULT_ORACLE,
               ["seqid", "overlap_end_inclusive", "strand", "feature_type"])
    anything = ([], [], [])

    def rows_iter():
        for n, P in ([(1, 4), (2, 6), (3, 6), (4, 5)] if U.thorough else [(1, 3), (2, 5), (3, 5)]):
            for seq in start_ordered(n, P):
                yield [iv + g0 for iv in seq]
        for n, P in ([(2, 3), (3, 3)] if U.thorough else [(2, 3), (3, 2)]):
            for seq in start_ordered(n, P):
                for gs in itertools.product(GROUPS, repeat=n - 1):
                    yield [iv + g for iv, g in zip(seq, (g0,) + gs)]
        for _ in range(5000 if U.thorough else 400):
            yield sorted(rand_rows(U.rng, U.rng.randint(4, 9), U.rng.choice((10, 20)), U.rng.choice((1, 3))), key=lambda r: r[0])

    for rows in rows_iter():
        for first, second in ((default, default), (default, loose), (exact, default), (loose, exact), (default, anything)):
            # same objects again
            feats = build(rows)
            try:
                list(K.db.merge(feats, merge_criteria=first[0]))
            except Exception:
                continue        # the first (fresh) merge is the other results' business
            K.check(feats, greedy_runs(feats, second[1]), crit=second[0], crit_names=second[2],
                    note="same objects merged before with %r" % (first[2],))
        for first, second in ((default, loose), (exact, default), (default, anything), (default, default)):
            # outputs of a first merge as inputs of a second
            feats = build(rows)
            try:
                outs = list(K.db.merge(feats, merge_criteria=first[0]))
            except Exception:
                continue
            K.seen.update(o.id for o in outs if o.children)
            outs.sort(key=lambda o: o.start)
            K.check(outs, greedy_runs(outs, second[1]), crit=second[0], crit_names=second[2],
                    note="inputs are the outputs of merge(%r) over %r" % (first[2], describe(feats)))
    U.bounded_result(
        "C16.bounded.remerge",
        "merge() over feature objects that already went through merge() (the same inputs again with the same or other criteria; "
        "the outputs of a first merge as inputs of a second) obeys the same greedy / partition law as over fresh objects",
        "start-ordered sequences of small scopes in one group and 2x2x2 mixtures, random up to 9 intervals; criteria pairs "
        "default/default, default/threshold(3), exact/default, threshold(3)/exact, default/[]",
        K.cases, K.fails, distinct=K.cases, sample={"failures_total": K.nfail})

    # ---------------- explicit ids of the generated shape
    fails, cases = [], 0
    for names in itertools.permutations(("exon_1", "exon_2", "exon_3", "x"), 3):
        for rows in ([(1, 5) + g0, (3, 8) + g0, (20, 22) + g0], [(1, 5) + g0, (6, 8) + g0, (9, 9) + g0],
                     [(1, 2) + g0, (10, 12) + g0, (11, 14) + g0]):
            for api in ("merge", "merge_all", "merge_all_exclude"):
                cases += 1
                feats = build(rows, ids=list(names))
                db = native_db(feats)
                case = {"features": describe(feats), "api": api}
                try:
                    if api == "merge":
                        res = [o for o in db.merge(db.all_features(order_by="start")) if o.children]
                    else:
                        res = db.merge_all(exclude_components=api.endswith("exclude"))
                except Exception as e:
                    fails.append({"case": case, "expected": "one merged output with an id not among %r" % (list(names),),
                                  "observed": "exception " + repr(e)})
                    continue
                ids = [o.id for o in res]
                if len(ids) != 1 or ids[0] in names:
                    fails.append({"case": case, "expected": "one merged output with an id not among %r" % (list(names),),
                                  "observed": ids})
    U.bounded_result(
        "C16.bounded.explicit_generated_id",
        "merged outputs carry fresh ids even when input features carry explicit ids of the generated shape '<featuretype>_<n>'",
        "3 of the ids exon_1, exon_2, exon_3, x in every order on 3 interval layouts with one multi-member run; merge / merge_all / "
        "merge_all(exclude_components=True)",
        cases, fails[:MAXFAIL], distinct=cases, sample={"failures_total": len(fails)})


UNITS = [("bounded.union", unit_union),
         ("bounded.criteria", unit_criteria),
         ("bounded.store", unit_store),
         ("bounded.remerge", unit_remerge)]
