"""Bounded run-time stand-in for C14: directives are all kept, in order; comments, blank lines and the
FASTA section are not features.

The real DataIterator / create_db / FeatureDB are run on generated annotation files.  A file is built
from a sequence of *kinds* (feature, directive, comment, blank, terminator, raw sequence line); the
oracle is read off the kinds by construction (never by looking at the text of a line), straight from
the statement:

    expected directives = text[2:] of every directive token before the first terminator, in file order
    expected features   = the feature tokens before the first terminator, in file order

Units
  bounded.iter     DataIterator.directives / yielded features after one and after two full passes
  bounded.db       create_db (memory, file + reopen, from_string) when every directive lies inside the
                   dialect-inspection window; update() neither loses nor repeats directives
  bounded.db_late  the same for files with a directive behind the (checklines+1)-th feature (F4, expected
                   to fail on the pinned tree) and for create_db(dialect=...) where nothing is inspected
"""
import gzip
import itertools
import os
import shutil
import tempfile

import gffutils
from gffutils.iterators import DataIterator

# ------------------------------------------------------------------------------------------ line pools
DIRECTIVES = (
    "##gff-version 3",
    "##sequence-region chr1 1 1000",
    "###",                      # the 'forward references resolved' line is a '##' line: text '#'
    "###resolved", "#####",     # further '#' after the marker belong to the text
    "##",                       # empty directive text
    "## spaced  ",              # leading / trailing blanks belong to the text
    "##\ttab\t",
    "##FASTA-index x",          # begins like the terminator but is not the '##FASTA' line
    "##>not a header",
    "##dup", "##dup", "##dup",  # repeated directives must be kept, each one
    "##species http://x/y?id=1;b=2",
    "##feature-ontology so.obo",
    "##chr1\tsrc\tgene\t1\t5\t.\t+\t.\tID=hidden",
)
COMMENTS = (
    "#",
    "#comment",
    "# ##not-a-directive",
    "#!processor x",
    "#>x",
    "#FASTA",
    "#chr1\tsrc\tgene\t1\t5\t.\t+\t.\tID=commented",
    "# ",
)
TERMINATORS = ("##FASTA", ">chr1", ">", ">chr1 some description ##x", ">##FASTA")
SEQLINES = ("ACGTACGTNN", "acgtnnnn", "MKV*", "NNNNNNNNNNNNNNNNNNNNNNNNNNNNNNNNNNNNNNNNNNNNNNNNNNNNNNNNNNNNNNNNNNNNNNNN")

assert all(d.startswith("##") and d != "##FASTA" for d in DIRECTIVES)
assert all(c.startswith("#") and not c.startswith("##") for c in COMMENTS)
assert all(t == "##FASTA" or t.startswith(">") for t in TERMINATORS)
assert all(s and not s.startswith(("#", ">")) for s in SEQLINES)

KINDS = "FDCBTS"


def feature_line(i, tag, fmt, rng):
    start = 10 * i + 1
    end = start + rng.randrange(0, 9)
    strand = rng.choice("+-.")
    if fmt == "gtf":
        return 'chr1\tsrc\texon\t%d\t%d\t.\t%s\t.\tgene_id "g1"; transcript_id "%s";' % (start, end, strand, tag)
    ft = rng.choice(("gene", "mRNA", "exon", "CDS", "region"))
    extra = rng.choice(("", "", ";Name=n%d" % i, ";Note=a>b", ";Note=x##y", ";Alias=#1", ";Note=##FASTA"))
    return "chr1\tsrc\t%s\t%d\t%d\t.\t%s\t.\tID=%s%s" % (ft, start, end, strand, tag, extra)


def tag_of(f, fmt):
    try:
        return f.attributes["transcript_id" if fmt == "gtf" else "ID"][0]
    except Exception:
        return "<no tag> " + str(f)


def realize(seq, rng, fmt="gff3"):
    """kinds -> tokens (kind, text, tag).  Feature-looking lines behind a terminator carry 'zz' tags."""
    toks, nf, terminated = [], 0, False
    for k in seq:
        tag = None
        if k == "F":
            nf += 1
            tag = ("zz%d" if terminated else "f%d") % nf
            text = feature_line(nf, tag, fmt, rng)
        elif k == "D":
            text = rng.choice(DIRECTIVES)
        elif k == "C":
            text = rng.choice(COMMENTS)
        elif k == "B":
            text = ""
        elif k == "T":
            text = rng.choice(TERMINATORS)
            terminated = True
        elif k == "S":
            text = rng.choice(SEQLINES)
        else:
            raise ValueError(k)
        toks.append((k, text, tag))
    return toks


def expected(toks):
    """The oracle: read off the kinds, from the statement."""
    dirs, feats = [], []
    for k, text, tag in toks:
        if k == "T":
            break
        if k == "D":
            dirs.append(text[2:])
        elif k == "F":
            feats.append(tag)
        elif k == "S":
            raise AssertionError("raw sequence line outside a FASTA section")
    return dirs, feats


def is_late(toks, checklines):
    """True when some directive (before the terminator) has at least checklines+1 feature lines in front
    of it, i.e. lies outside the dialect-inspection window."""
    seen = 0
    for k, _, _ in toks:
        if k == "T":
            return False
        if k == "F":
            seen += 1
        elif k == "D" and seen >= checklines + 1:
            return True
    return False


def render(toks, eol="\n", final=True):
    s = eol.join(t for _, t, _ in toks)
    if toks and final:
        s += eol
    return s


# ----------------------------------------------------------------------------------------- enumerations
def kind_sequences(lengths, alphabet=KINDS, need_feature=False):
    for n in lengths:
        for seq in itertools.product(alphabet, repeat=n):
            t = seq.index("T") if "T" in seq else n
            if "S" in seq[:t]:
                continue
            if need_feature and "F" not in seq[:t]:
                continue
            yield seq


TAILS = ((), ("T", "S", "D", "F", "S"), ("T",), ("C", "T", "F", "D", "T", "S"))


def boundary_files(thorough):
    """directive placed around the window edge: n_before features, directive(s), m_after features"""
    cs = (0, 1, 2, 3, 5, 10, None) if thorough else (0, 1, 2, 5, None)
    for c in cs:
        ceff = 10 if c is None else c
        for nb in sorted({max(0, ceff - 1), ceff, ceff + 1, ceff + 2}):
            for ma in (0, 1, 2):
                for head in ((), ("D",), ("C", "D", "B", "D")):
                    for mid in (("D",), ("D", "C", "D"), ("B", "D", "B")):
                        for ti, tail in enumerate(TAILS):
                            if not thorough and (ti + nb + ma + len(head) + len(mid)) % 2:
                                continue
                            if nb + ma == 0:
                                continue
                            yield c, head + ("F",) * nb + mid + ("F",) * ma + tail


def random_kinds(rng, need_feature):
    while True:
        n = rng.randrange(5, 41)
        seq, term = [], False
        for _ in range(n):
            if term:
                k = rng.choice("SSSSFDCBT")
            else:
                k = rng.choices("FDCBT", weights=(50, 22, 10, 10, 3))[0]
            term = term or k == "T"
            seq.append(k)
        t = seq.index("T") if "T" in seq else n
        if need_feature and "F" not in seq[:t]:
            continue
        return tuple(seq)


class Scratch(object):
    """Private scratch directory under tempfile.gettempdir(); gffutils' own temp files (from_string) are
    redirected into it for the duration of the unit and everything is removed at the end."""

    def __enter__(self):
        self.old = tempfile.tempdir
        self.dir = tempfile.mkdtemp(prefix="c14_", dir=tempfile.gettempdir())
        tempfile.tempdir = self.dir
        self.n = 0
        return self

    def __exit__(self, *a):
        tempfile.tempdir = self.old
        shutil.rmtree(self.dir, ignore_errors=True)

    def path(self, name):
        return os.path.join(self.dir, name)

    def write(self, name, text, gz=False):
        p = self.path(name)
        data = text.encode("utf-8")
        if gz:
            with gzip.open(p, "wb") as fh:
                fh.write(data)
        else:
            with open(p, "wb") as fh:
                fh.write(data)
        return p

    def sweep(self, keep=()):
        """remove temp files left behind by gffutils (NamedTemporaryFile(delete=False) of from_string)"""
        self.n += 1
        if self.n % 200:
            return
        for fn in os.listdir(self.dir):
            if fn.startswith("tmp") and fn not in keep:
                try:
                    os.remove(os.path.join(self.dir, fn))
                except OSError:
                    pass


def gtf_dialect():
    it = DataIterator('chr1\tsrc\texon\t1\t5\t.\t+\t.\tgene_id "g1"; transcript_id "t1";\n', from_string=True)
    d = it.dialect
    try:
        os.remove(it.data)
    except OSError:
        pass
    return d


EOLS = (("\n", True), ("\r\n", True), ("\n", False), ("\r\n", False))


# ------------------------------------------------------------------------------------------- unit: iter
def unit_iter(U):
    """DataIterator: directives and yielded features after one and after two complete passes."""
    fails, cases, distinct = [], 0, set()
    sample = None
    with Scratch() as S:
        dialects = {"gff3": gffutils.constants.dialect, "gtf": gtf_dialect()}

        def run(text, form, c, mode, fmt):
            kw = {}
            if c is not None:
                kw["checklines"] = c
            if mode == "dialect":
                kw["dialect"] = dialects[fmt]
            elif mode == "force":
                kw["force_dialect_check"] = True
            if form == "from_string":
                it = DataIterator(text, from_string=True, **kw)
            else:
                it = DataIterator(S.write("in.gff.gz" if form == "gz" else "in.gff", text, gz=(form == "gz")), **kw)
            out = []
            for _ in range(2):
                tags = [tag_of(f, fmt) for f in it]
                out.append([list(it.directives), tags])
            if form == "from_string":
                try:
                    os.remove(it.data)
                except OSError:
                    pass
            return out

        def check(seq, toks, fmt, text, form, c, mode):
            nonlocal cases, sample
            exp_d, exp_f = expected(toks)
            cases += 1
            distinct.add(hash((text, form, c, mode)))
            case = {"kinds": "".join(seq), "text": text, "input": form, "checklines": c, "mode": mode, "fmt": fmt}
            try:
                got = run(text, form, c, mode, fmt)
            except Exception as e:
                fails.append({"case": case, "expected": {"directives": exp_d, "features": exp_f}, "observed": "exception " + repr(e)})
                return
            if got != [[exp_d, exp_f], [exp_d, exp_f]]:
                fails.append({"case": case, "expected": {"directives": exp_d, "features": exp_f},
                              "observed": {"pass1": {"directives": got[0][0], "features": got[0][1]},
                                           "pass2": {"directives": got[1][0], "features": got[1][1]}}})
            elif sample is None and exp_d and exp_f and "T" in seq:
                sample = {"case": case, "directives": exp_d, "features": exp_f}

        # (a) all interleavings of the six kinds
        L = 6 if U.thorough else 4
        k = 0
        for seq in kind_sequences(range(0, L + 1)):
            k += 1
            fmt = "gtf" if k % 4 == 0 else "gff3"
            toks = realize(seq, U.rng, fmt)
            eol, final = EOLS[k % 4 if k % 3 else 0]
            text = render(toks, eol, final)
            small = len(seq) <= (5 if U.thorough else 4)
            cl = (0, 1, 2, None) if small else (0, 1, 2)
            for c in cl:
                check(seq, toks, fmt, text, "path", c, "auto")
            if small:
                for c in cl:
                    check(seq, toks, fmt, text, "from_string", c, "auto")
                check(seq, toks, fmt, text, "path", None, "dialect")
                check(seq, toks, fmt, text, "path", None, "force")
                check(seq, toks, fmt, text, "from_string", 0, "force")
            if k % 5 == 0 or (U.thorough and small):
                check(seq, toks, fmt, text, "gz", (0, 1, None)[k % 3], "auto")
        # (b) directive around the edge of the inspection window
        for c, seq in boundary_files(U.thorough):
            k += 1
            fmt = "gtf" if k % 5 == 0 else "gff3"
            toks = realize(seq, U.rng, fmt)
            eol, final = EOLS[k % 4 if k % 3 else 0]
            text = render(toks, eol, final)
            check(seq, toks, fmt, text, "path", c, "auto")
            check(seq, toks, fmt, text, "from_string", c, "auto")
            if k % 4 == 0:
                check(seq, toks, fmt, text, "gz", c, "auto")
        # (c) seeded-random long files
        for _ in range(3000 if U.thorough else 400):
            k += 1
            seq = random_kinds(U.rng, False)
            fmt = U.rng.choice(("gff3", "gff3", "gtf"))
            toks = realize(seq, U.rng, fmt)
            eol, final = U.rng.choice(EOLS)
            text = render(toks, eol, final)
            c = U.rng.choice((None, 0, 1, 2, 3, 5, 10, 15, 50))
            check(seq, toks, fmt, text, U.rng.choice(("path", "from_string", "gz")), c, U.rng.choice(("auto", "auto", "auto", "dialect", "force")))
    U.bounded_result(
        "C14.bounded.iter",
        "after each of two complete passes over DataIterator(file): .directives == text[2:] of all '##' lines before the first '##FASTA' / '>' line, in file order, "
        "and the yielded features == the non-comment non-blank lines before that terminator, in order",
        "all interleavings of {feature, directive, '#' comment, blank, terminator ('##FASTA' / '>...'), raw sequence line} of length <= %d (sequence lines only behind a terminator), "
        "line texts drawn from pools of %d directives / %d comments / %d terminators, checklines in {0,1,2,default}, path / .gz path / from_string, LF and CRLF with and without final newline, "
        "GFF3 and GTF, auto / dialect= / force_dialect_check; directives placed around the window edge for checklines in {0,1,2,3,5,10}; %d seeded-random files of 5..40 lines"
        % (L, len(set(DIRECTIVES)), len(COMMENTS), len(TERMINATORS), 3000 if U.thorough else 400),
        cases, fails, distinct=len(distinct), sample=sample)


# --------------------------------------------------------------------------------------------- unit: db

def db_observe(db, fmt):
    return [list(db.directives), sorted(tag_of(f, fmt) for f in db.all_features())]


def create(src, dbfn, c, fmt, from_string=False, dialect=None):
    kw = {}
    if c is not None:
        kw["checklines"] = c
    if dialect is not None:
        kw["dialect"] = dialect
    if fmt == "gtf":
        kw["disable_infer_genes"] = True
        kw["disable_infer_transcripts"] = True
    return gffutils.create_db(src, dbfn, from_string=from_string, force=True, **kw)


def db_cases(U, late):
    """yields (seq, toks, fmt, text, c, forms) for the db units; `late` selects the files with (True) or
    without (False) a directive outside the inspection window."""
    k = 0
    L = 5 if U.thorough else 4
    for seq in kind_sequences(range(1, L + 1), need_feature=True):
        k += 1
        if "D" not in seq and k % 3:
            continue        # directive-free files: every third one is enough here (unit iter has them all)
        toks = realize(seq, U.rng, "gff3")
        eol, final = EOLS[k % 4 if k % 3 else 0]
        text = render(toks, eol, final)
        for c in (0, 1, 2, 3, None):
            if c == 3 and len(seq) < 5:
                continue
            if is_late(toks, 10 if c is None else c) != late:
                continue
            forms = ["memory"]
            if (k + (c or 0)) % 3 == 0 or (U.thorough and len(seq) <= 4):
                forms.append("file")
            if (k + (c or 0)) % 3 == 1 or (U.thorough and len(seq) <= 4):
                forms.append("from_string")
            yield seq, toks, "gff3", text, c, forms
    for c, seq in boundary_files(U.thorough):
        k += 1
        toks = realize(seq, U.rng, "gff3")
        if is_late(toks, 10 if c is None else c) != late:
            continue
        eol, final = EOLS[k % 4 if k % 3 else 0]
        if U.thorough:
            forms = ["memory", "file", "from_string"]
        else:
            forms = ["memory", ("file", "from_string", "file", None)[k % 4]]
            forms = [f for f in forms if f]
        yield seq, toks, "gff3", render(toks, eol, final), c, forms
    n = 0
    want = (1500 if U.thorough else 150)
    while n < want:
        seq = random_kinds(U.rng, True)
        fmt = U.rng.choice(("gff3", "gff3", "gff3", "gtf"))
        toks = realize(seq, U.rng, fmt)
        c = U.rng.choice((None, 0, 1, 2, 3, 5, 10, 15, 50))
        if is_late(toks, 10 if c is None else c) != late:
            if late:
                c = U.rng.choice((0, 1))
                if not is_late(toks, c):
                    continue
            else:
                c = 50
        n += 1
        eol, final = U.rng.choice(EOLS)
        yield seq, toks, fmt, render(toks, eol, final), c, ["memory", U.rng.choice(("file", "from_string"))]


def run_db_case(S, toks, fmt, text, c, form, dialect=None):
    """returns list of (where, observation)"""
    out = []
    if form == "memory":
        db = create(S.write("in.gff", text), ":memory:", c, fmt, dialect=dialect)
        out.append(("create_db(:memory:)", db_observe(db, fmt)))
        db.conn.close()
    elif form == "from_string":
        db = create(text, ":memory:", c, fmt, from_string=True, dialect=dialect)
        out.append(("create_db(from_string)", db_observe(db, fmt)))
        db.conn.close()
        S.sweep()
    else:
        dbfn = S.path("out.db")
        db = create(S.write("in.gff", text), dbfn, c, fmt, dialect=dialect)
        out.append(("create_db(file)", db_observe(db, fmt)))
        db.conn.close()
        re = gffutils.FeatureDB(dbfn)
        out.append(("reopened", db_observe(re, fmt)))
        re.conn.close()
        os.remove(dbfn)
    return out


def unit_db(U):
    """create_db / reopen when every directive lies inside the inspection window; update()."""
    fails, cases, distinct = [], 0, set()
    ufails, ucases = [], 0
    sample = None
    with Scratch() as S:
        for seq, toks, fmt, text, c, forms in db_cases(U, late=False):
            exp_d, exp_f = expected(toks)
            exp = [exp_d, sorted(exp_f)]
            for form in forms:
                cases += 1
                distinct.add(hash((text, c, form)))
                case = {"kinds": "".join(seq), "text": text, "checklines": c, "db": form, "fmt": fmt}
                try:
                    obs = run_db_case(S, toks, fmt, text, c, form)
                except Exception as e:
                    fails.append({"case": case, "expected": {"directives": exp_d, "features": sorted(exp_f)}, "observed": "exception " + repr(e)})
                    continue
                bad = [(w, o) for (w, o) in obs if o != exp]
                if bad:
                    fails.append({"case": case, "expected": {"directives": exp_d, "features": sorted(exp_f)},
                                  "observed": {w: {"directives": o[0], "features": o[1]} for (w, o) in bad}})
                elif sample is None and form == "file" and len(exp_d) > 1 and "T" in seq:
                    sample = {"case": case, "directives": exp_d, "features": sorted(exp_f)}
        # update() with Feature objects: the stored directives are neither lost nor repeated
        k = 0
        for seq in kind_sequences(range(1, 5), need_feature=True):
            if "D" not in seq:
                continue
            k += 1
            if not U.thorough and k % 6:
                continue
            toks = realize(seq, U.rng, "gff3")
            if is_late(toks, 10):
                continue
            text = render(toks)
            exp_d, exp_f = expected(toks)
            ucases += 1
            case = {"kinds": "".join(seq), "text": text, "update": "2 Feature objects u1, u2"}
            try:
                dbfn = S.path("upd.db")
                db = create(S.write("in.gff", text), dbfn, None, "gff3")
                new = [gffutils.feature.feature_from_line("chr2\tsrc\tgene\t%d\t%d\t.\t+\t.\tID=u%d" % (j, j + 5, j)) for j in (1, 2)]
                db.update(new, make_backup=False)
                o1 = db_observe(db, "gff3")
                db.conn.close()
                re = gffutils.FeatureDB(dbfn)
                o2 = db_observe(re, "gff3")
                re.conn.close()
                os.remove(dbfn)
            except Exception as e:
                ufails.append({"case": case, "expected": {"directives": exp_d}, "observed": "exception " + repr(e)})
                continue
            exp = [exp_d, sorted(exp_f + ["u1", "u2"])]
            if o2 != exp or o1[1] != exp[1]:
                ufails.append({"case": case, "expected": {"directives": exp_d, "features": exp[1]},
                               "observed": {"after update": o1, "reopened": o2}})
    U.bounded_result(
        "C14.bounded.db",
        "db.directives after create_db (memory db, file db, from_string) and after reopening the file db == text[2:] of all '##' lines before the first '##FASTA' / '>' line, "
        "in file order; the stored features are exactly the feature lines before that terminator",
        "files whose directives all lie inside the inspection window (fewer than checklines+1 features in front of each): all interleavings of {feature, directive, comment, blank, terminator, "
        "sequence line} of length <= %d with a feature, checklines in {0,1,2,3,default}; directives placed up to the window edge for checklines in %s with 4 FASTA tails; "
        "%d seeded-random files of 5..40 lines (GFF3, 1/4 GTF)" % (5 if U.thorough else 4, "{0,1,2,3,5,10,default}" if U.thorough else "{0,1,2,5,default}", 1500 if U.thorough else 150),
        cases, fails, distinct=len(distinct), sample=sample)
    U.bounded_result(
        "C14.bounded.update_keeps",
        "after db.update(<Feature objects>) and reopening, db.directives is still exactly the directive list of the imported file (nothing lost, nothing repeated)",
        "all interleavings of length <= 4 holding a feature and a directive%s, default checklines, file db" % ("" if U.thorough else " (every sixth)"),
        ucases, ufails)


def unit_db_late(U):
    """F4: a directive behind the (checklines+1)-th feature; and create_db(dialect=...)."""
    fails, cases, distinct = [], 0, set()
    dfails, dcases = [], 0
    nlate = 0
    with Scratch() as S:
        for seq, toks, fmt, text, c, forms in db_cases(U, late=True):
            exp_d, exp_f = expected(toks)
            exp = [exp_d, sorted(exp_f)]
            nlate += 1
            if not U.thorough:
                forms = forms[:1] if nlate % 4 else forms[:2]
            for form in forms:
                cases += 1
                distinct.add(hash((text, c, form)))
                case = {"kinds": "".join(seq), "text": text, "checklines": c, "db": form, "fmt": fmt, "late_directive": True}
                try:
                    obs = run_db_case(S, toks, fmt, text, c, form)
                except Exception as e:
                    fails.append({"case": case, "expected": {"directives": exp_d, "features": sorted(exp_f)}, "observed": "exception " + repr(e)})
                    continue
                bad = [(w, o) for (w, o) in obs if o != exp]
                if bad:
                    fails.append({"case": case, "expected": {"directives": exp_d, "features": sorted(exp_f)},
                                  "observed": {w: {"directives": o[0], "features": o[1]} for (w, o) in bad}})
        # explicit dialect: no inspection pass at all, every directive is 'outside the window'
        k = 0
        for seq in kind_sequences(range(1, 5 if U.thorough else 4), need_feature=True):
            if "D" not in seq[:seq.index("T") if "T" in seq else len(seq)]:
                continue
            k += 1
            toks = realize(seq, U.rng, "gff3")
            text = render(toks)
            exp_d, exp_f = expected(toks)
            exp = [exp_d, sorted(exp_f)]
            form = ("memory", "from_string", "file")[k % 3]
            dcases += 1
            case = {"kinds": "".join(seq), "text": text, "dialect": "gffutils.constants.dialect", "db": form}
            try:
                obs = run_db_case(S, toks, "gff3", text, None, form, dialect=gffutils.constants.dialect)
            except Exception as e:
                dfails.append({"case": case, "expected": {"directives": exp_d}, "observed": "exception " + repr(e)})
                continue
            bad = [(w, o) for (w, o) in obs if o != exp]
            if bad:
                dfails.append({"case": case, "expected": {"directives": exp_d, "features": sorted(exp_f)},
                               "observed": {w: {"directives": o[0], "features": o[1]} for (w, o) in bad}})
    U.bounded_result(
        "C14.bounded.late_directive",
        "db.directives after create_db / reopen == all directives of the file in order, for files with a directive behind the (checklines+1)-th feature line (known defect F4)",
        "the files of C14.bounded.db's enumeration that have at least one directive with >= checklines+1 features in front of it (interleavings of length <= %d, window-edge family, %d random files)"
        % (5 if U.thorough else 4, 1500 if U.thorough else 150),
        cases, fails, distinct=len(distinct))
    U.bounded_result(
        "C14.bounded.explicit_dialect",
        "db.directives after create_db(..., dialect=<given>) / reopen == all directives of the file in order (no inspection pass is made; same root cause as F4)",
        "all interleavings of length <= %d with a feature and a directive before the terminator, GFF3, dialect=constants.dialect, memory / from_string / file+reopen in rotation" % (4 if U.thorough else 3),
        dcases, dfails)


UNITS = [
    ("bounded.iter", unit_iter),
    ("bounded.db", unit_db),
    ("bounded.db_late", unit_db_late),
]
