#!/bin/bash
# Builds the offline overlay venv used by every check (MANIFEST.setup_cmd).
# One interpreter holds the solvers (z3-solver, cvc5, lark, jsonschema) and, via
# a .pth file, the repository's own dependencies (/venv site-packages:
# simplejson, pyfaidx, the editable /repo install).
set -euo pipefail
cd "$(dirname "$0")"
export PIP_NO_INDEX=1 PIP_DISABLE_PIP_VERSION_CHECK=1
if [ ! -x .venv/bin/python ] || ! .venv/bin/python -c "import z3, lark, jsonschema, cvc5" 2>/dev/null; then
  rm -rf .venv
  /venv/bin/python -m venv .venv
  .venv/bin/pip install -q --no-index --find-links /opt/veriftools/wheels \
      z3-solver cvc5 lark jsonschema crosshair-tool icontract deal hypothesis >/dev/null
  SP=$(.venv/bin/python -c "import sysconfig; print(sysconfig.get_paths()['purelib'])")
  echo "import site; site.addsitedir('/venv/lib/python3.12/site-packages')" > "$SP/_repo_deps.pth"
fi
.venv/bin/python - <<'PY'
import z3, lark, jsonschema, cvc5, simplejson, pyfaidx, gffutils, os
assert os.path.realpath(gffutils.__file__).startswith('/repo/'), gffutils.__file__
print("setup ok: z3", z3.get_version_string(), "gffutils at", gffutils.__file__)
PY
