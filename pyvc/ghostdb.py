"""Ghost database connection: stands in for sqlite3.Connection / Cursor while the real gffutils
code is interpreted.  Every statement that reaches execute() is logged as an effect
("execute", query, args) on the current path; query results are supplied by the harness
(arbitrary symbolic rows) - the accumulation rule of DESIGN.md 2.3 (c)."""
import sqlite3

import z3

from .core import Ctx, SStr, SInt, SBool, Val, Undecided, Sym, mkstr
from . import sqlmodel


class GhostRow(object):
    """Row with both mapping (sqlite3.Row: keys(), row['col']) and tuple behaviour."""
    _pyvc_model = True

    def __init__(self, cols, values):
        self.cols = list(cols)
        self.values = list(values)

    def keys(self):
        return list(self.cols)

    def __getitem__(self, k):
        if isinstance(k, int):
            return self.values[k]
        if isinstance(k, str):
            try:
                return self.values[self.cols.index(k)]
            except ValueError:
                raise IndexError("No item with that key")
        raise Undecided("row index %r" % (k,))

    def __iter__(self):
        return iter(self.values)

    def __len__(self):
        return len(self.values)

    def __bool__(self):
        return True


class GhostCursor(object):
    _pyvc_model = True

    def __init__(self, conn):
        self.conn = conn
        self.last = None
        self.n = 0

    def _log(self, kind, query, args):
        ctx = Ctx.current
        q = mkstr(query) if isinstance(query, SStr) else query
        ctx.effect(kind, q, args)
        self.last = (kind, q, args)
        self.conn.statements.append((kind, q, args))
        if kind != "executescript" and str(q).lstrip()[:7].upper().startswith(("INSERT", "UPDATE", "DELETE", "REPLACE")):
            self.conn._dml_pending = True
        if not hasattr(self.conn, "cursors_used"):
            self.conn.cursors_used = []
        self.conn.cursors_used.append(self)          # which cursor object ran the statement (a cursor that executes again drops its pending rows)
        return q

    def execute(self, query, args=()):
        if isinstance(args, (list, tuple)):
            a = list(args)
        elif isinstance(args, dict):
            a = dict(args)
        else:
            raise Undecided("execute with parameters %r" % (args,))
        q = self._log("execute", query, a)
        if self.conn.on_execute is not None:
            self.conn.on_execute(self, q, a)
        return self

    def executemany(self, query, seq):
        from .core import SSeq
        if isinstance(seq, SSeq) and seq.kind == "map-tuple":
            # one row per element of an abstract sequence: the statement executed for the generic index
            src, i0, row = seq.src
            ctx = Ctx.current
            ctx.effect("forall-begin", src, i0)
            q = self._log("execute", query, list(row))
            if self.conn.on_execute is not None:
                self.conn.on_execute(self, q, list(row))
            ctx.effect("forall-end", src, i0)
            return self
        if not isinstance(seq, (list, tuple, SSeq)):
            seq = list(seq)            # consume the (interpreted) generator now, as sqlite3 does
        q = self._log("executemany", query, seq)
        if self.conn.on_execute is not None:
            self.conn.on_execute(self, q, seq)
        return self

    def executescript(self, script):
        q = self._log("executescript", script, [])
        if self.conn.on_execute is not None:
            self.conn.on_execute(self, q, [])
        return self

    # the rest of the DB-API cursor surface that has no effect on the database
    def close(self):
        pass

    def __enter__(self):
        return self

    def __exit__(self, *a):
        return False

    @property
    def rowcount(self):
        return -1

    @property
    def lastrowid(self):
        return None

    @property
    def description(self):
        return None

    def fetchmany(self, size=1):
        return list(self.conn.result_rows(self))[:size]

    def fetchone(self):
        rows = self.conn.result_rows(self)
        return rows[0] if rows else None

    def fetchall(self):
        return list(self.conn.result_rows(self))

    def __iter__(self):
        return iter(self.conn.result_rows(self))


class GhostConn(object):
    """result_for: callable(cursor, kind, query, args) -> list of rows; default: no rows."""
    _pyvc_model = True

    def __init__(self, result_for=None, on_execute=None):
        self.result_for = result_for
        self.on_execute = on_execute
        self.statements = []
        self.row_factory = None
        self.text_factory = str
        self.commits = 0
        self._dml_pending = False
        self._pending_at_entry = None

    @property
    def in_transaction(self):
        """sqlite3.Connection.in_transaction: True after a data-changing statement until commit / rollback; at the entry of
        the function under verification the caller may or may not have uncommitted work - an unknown boolean"""
        if self._dml_pending:
            return True
        if self._pending_at_entry is None:
            from .core import SBool
            c = Ctx.current
            self._pending_at_entry = SBool(c.fresh_bool("conn.in_transaction@entry")) if c is not None else False
        return self._pending_at_entry

    def cursor(self):
        return GhostCursor(self)

    def commit(self):
        self._dml_pending, self._pending_at_entry = False, False
        Ctx.current.effect("commit")
        self.commits += 1

    def rollback(self):
        self._dml_pending, self._pending_at_entry = False, False
        Ctx.current.effect("rollback")

    def close(self):
        Ctx.current.effect("close")

    def executemany(self, query, rows):
        return self.cursor().executemany(query, rows)

    def executescript(self, script):
        return self.cursor().executescript(script)

    def __enter__(self):
        return self

    def __exit__(self, et, ev, tb):
        # sqlite3 connection as a context manager: commit on success, rollback on error; never closes
        if et is None:
            self.commit()
        else:
            self.rollback()
        return False

    def result_rows(self, cur):
        if self.result_for is None or cur.last is None:
            return []
        return self.result_for(cur, *cur.last)

    def execute(self, query, args=()):
        return self.cursor().execute(query, args)


def executes(ctx_or_effects):
    """All (kind, query, args) statement effects of a path, in order."""
    eff = ctx_or_effects.effects if hasattr(ctx_or_effects, "effects") else ctx_or_effects
    return [e for e in eff if e[0] in ("execute", "executemany", "executescript")]


def feature_row(ctx, prefix="row", start_null=False, end_null=False, with_json=True):
    """An arbitrary row of the features table as a GhostRow in _SELECT column order
    (12 columns + file_order); returns (row, vars)."""
    vars_ = {}
    vals = []
    cols = sqlmodel.FEATURE_COLS + ["file_order"]
    for c in cols:
        nm = "%s.%s" % (prefix, c)
        if c in ("start", "end"):
            if (c == "start" and start_null) or (c == "end" and end_null):
                vals.append(None)
            else:
                t = z3.Int(nm)
                vars_[nm] = t
                vals.append(SInt(t))
        elif c in ("bin", "file_order"):
            t = z3.Int(nm)
            vars_[nm] = t
            vals.append(SInt(t))
        else:
            t = z3.String(nm)
            vars_[nm] = t
            vals.append(SStr([Val(t, nonempty=c in ("attributes", "extra"), tag=c)]))
    return GhostRow(cols, vals), vars_
