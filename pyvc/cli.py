import argparse
import json
import os
import sys
import importlib
import warnings


def main():
    ap = argparse.ArgumentParser()
    ap.add_argument("prop")
    ap.add_argument("--tier", default=os.environ.get("VERIF_TIER", "quick"), choices=["quick", "thorough"])
    ap.add_argument("--replay")
    ap.add_argument("--units")
    ap.add_argument("--jobs", type=int)
    ap.add_argument("--list", action="store_true")
    ap.add_argument("--update-ledger", action="store_true", help="maintenance only: record the clauses discharged by this run (run on the unchanged tree, thorough tier)")
    a = ap.parse_args()
    seed = int(os.environ.get("VERIF_SEED", "0") or 0)
    warnings.simplefilter("ignore")
    import logging
    logging.disable(logging.CRITICAL)
    sys.setrecursionlimit(20000)
    import threading
    threading.stack_size(512 * 1024 * 1024)
    from . import runner
    if a.replay:
        doc = json.load(open(a.replay))
        mod = importlib.import_module("props.%s" % a.prop)
        rp = getattr(mod, "replay_file", None)
        if rp is None:
            print("no replay function for", a.prop)
            return 3
        res = rp(doc)
        print(json.dumps(res, indent=1, default=str))
        if res.get("violates"):
            print("VIOLATION property=%s replay=%s" % (a.prop, a.replay))
            return 1
        print("clause holds on the current tree for the stored inputs")
        return 0
    if a.list:
        mod = importlib.import_module("props.%s" % a.prop)
        for u, _ in mod.UNITS:
            print(u)
        return 0
    if a.update_ledger:
        os.environ["PYVC_UPDATE_LEDGER"] = "1"
    return runner.run_property(a.prop, a.tier, seed, only_units=a.units.split(",") if a.units else None, jobs=a.jobs)


if __name__ == "__main__":
    try:
        rc = main()
    except SystemExit:
        raise
    except BaseException:
        import traceback
        traceback.print_exc()
        print("CHECKER-ERROR: unhandled exception in the checker")
        rc = 3
    sys.stdout.flush()
    os._exit(rc)
