"""pyvc interpreter: executes the *real* AST of /repo/gffutils/*.py over mixed concrete /
symbolic values.  Concrete operands are evaluated by CPython itself; only mixed operations
are handled symbolically (models.py).  Functions are located by their code object in the
module source that is re-read from the working tree on every run."""
import ast
import builtins
import queue
import threading
import inspect
import linecache
import os
import operator
import sys
import types

import z3

from .core import (Ctx, EngineSignal, Undecided, Sym, SInt, SBool, SStr, SSet, SSeq, Lit, MSet,
                   mkstr, has_sym, is_sym)


class _Return(EngineSignal):
    def __init__(self, value):
        self.value = value


class _Break(EngineSignal):
    pass


class _Continue(EngineSignal):
    pass


class LoopExit(EngineSignal):
    """Raised by a loop hook to stop executing at a loop head (used by body-level proofs)."""
    def __init__(self, env, payload=None):
        self.env, self.payload = env, payload


# --------------------------------------------------------------------------------------
# source access
# --------------------------------------------------------------------------------------
_module_ast = {}


def module_tree(filename):
    if filename not in _module_ast:
        path = filename
        if filename.startswith("<frozen ") and filename.endswith(">"):
            # frozen stdlib module (e.g. _collections_abc): its source is the .py file of the same name
            import sys as _sys
            name = filename[len("<frozen "):-1]
            mod = _sys.modules.get(name)
            path = getattr(mod, "__file__", None) or os.path.join(os.path.dirname(os.__file__), name.replace(".", os.sep) + ".py")
        linecache.checkcache(path)
        with open(path, encoding="utf-8") as fh:
            src = fh.read()
        tree = ast.parse(src, filename)
        index = {}
        for n in ast.walk(tree):
            if isinstance(n, (ast.FunctionDef, ast.Lambda, ast.AsyncFunctionDef)):
                index.setdefault(n.lineno, []).append(n)
        _module_ast[filename] = (tree, index, src)
    return _module_ast[filename]


# --------------------------------------------------------------------------------------
# module-level state of the code under analysis
# --------------------------------------------------------------------------------------
_GLOBAL_SNAPSHOT = {}


_JUDGED = []


def _judged_names():
    if not _JUDGED:
        import json as _json, os as _os
        p = _os.path.join(_os.path.dirname(_os.path.dirname(_os.path.abspath(__file__))), "module_state_names.json")
        try:
            _JUDGED.append(set(_json.load(open(p))))
        except Exception:
            _JUDGED.append(None)
    return _JUDGED[0]


def module_state_names():
    """every module-level / class-level name of the modules under analysis that the snapshot covers (for the ledger)"""
    out = []
    for name, (mod, entry) in _GLOBAL_SNAPSHOT.items():
        out.extend("%s.%s" % (name, k) for k in entry)
    return sorted(out)


def snapshot_module_state(prefixes=("gffutils",)):
    """Every path re-executes the real function from the start (decision replay) - but module-level mutable state
    (a cache dict, a registry list, a flag) would survive from the previous path and hold its symbolic values.  The
    import-time contents of every mutable container and the binding of every plain value in the modules under analysis
    are recorded once and put back before each path."""
    import sys as _sys
    if _GLOBAL_SNAPSHOT:
        return
    for name, mod in list(_sys.modules.items()):
        if mod is None or not any(name == p or name.startswith(p + ".") for p in prefixes) or ".test" in name:
            continue
        entry = {}
        for k, v in list(vars(mod).items()):
            if k.startswith("__"):
                continue
            if type(v) in (dict, list, set) or type(v).__name__ in ("defaultdict", "OrderedDict"):
                try:
                    entry[k] = ("container", v, v.copy())
                except Exception:
                    pass
            elif isinstance(v, (bool, int, float, str, bytes, tuple, frozenset, type(None))):
                entry[k] = ("value", v, None)
        # class-level state of the classes defined in the module (a shared buffer / cache / flag on the class)
        for cn, cls in list(vars(mod).items()):
            if isinstance(cls, type) and getattr(cls, "__module__", None) == name:
                for k, v in list(vars(cls).items()):
                    if k.startswith("__"):
                        continue
                    if type(v) in (dict, list, set) or type(v).__name__ in ("defaultdict", "OrderedDict"):
                        try:
                            entry["%s.%s" % (cn, k)] = ("class-container", v, v.copy(), cls, k)
                        except Exception:
                            pass
                    elif isinstance(v, (bool, int, float, str, bytes, tuple, frozenset, type(None))):
                        entry["%s.%s" % (cn, k)] = ("class-value", v, None, cls, k)
        _GLOBAL_SNAPSHOT[name] = (mod, entry)

    def _same(obj, saved):
        try:
            return len(obj) == len(saved) and obj == saved
        except Exception:
            return False

    def changes():
        """names of module-level / class-level state of the modules under analysis that differs from the import-time state.
        Only state that EXISTS ON THE UNCHANGED TREE is judged (module_state_names.json, written with the ledger): a cache a
        later version adds at module level is that version's own business - behaviour is what the other clauses look at."""
        judged = _judged_names()
        out = [c for c in _changes_all() if judged is None or c in judged]
        return out

    def _changes_all():
        out = []
        for name, (mod, entry) in _GLOBAL_SNAPSHOT.items():
            for k, rec in entry.items():
                kind, obj, saved = rec[0], rec[1], rec[2]
                if kind == "container":
                    if vars(mod).get(k) is not obj or not _same(obj, saved):
                        out.append("%s.%s" % (name, k))
                elif kind == "value":
                    if vars(mod).get(k, None) is not obj:
                        out.append("%s.%s" % (name, k))
                elif kind == "class-container":
                    if vars(rec[3]).get(rec[4]) is not obj or not _same(obj, saved):
                        out.append("%s.%s" % (name, k))
                elif kind == "class-value":
                    if vars(rec[3]).get(rec[4], None) is not obj:
                        out.append("%s.%s" % (name, k))
        return out

    def restore():
        for name, (mod, entry) in _GLOBAL_SNAPSHOT.items():
            for k, rec in entry.items():
                kind, obj, saved = rec[0], rec[1], rec[2]
                if kind in ("class-container", "class-value"):
                    cls, attr = rec[3], rec[4]
                    if vars(cls).get(attr, None) is not obj:
                        try:
                            setattr(cls, attr, obj)
                        except Exception:
                            pass
                    if kind == "class-container" and not _same(obj, saved):
                        obj.clear()
                        (obj.extend if isinstance(obj, list) else obj.update)(saved)
                    continue
                if kind == "container":
                    cur = vars(mod).get(k)
                    if cur is not obj:
                        setattr(mod, k, obj)
                    try:
                        if obj != saved or len(obj) != len(saved):
                            obj.clear()
                            if isinstance(obj, list):
                                obj.extend(saved)
                            else:
                                obj.update(saved)
                    except Exception:
                        obj.clear()
                        (obj.extend if isinstance(obj, list) else obj.update)(saved)
                else:
                    if vars(mod).get(k, None) is not obj:
                        setattr(mod, k, obj)
        # containers created after the snapshot at module level (a cache added by a change under test) are emptied too
        for name, (mod, entry) in _GLOBAL_SNAPSHOT.items():
            pass
    from . import core as _core
    _core.PATH_RESET_HOOKS.append(restore)
    _core.PATH_END_HOOKS.append(changes)


def func_ast(fn):
    """AST node of a real python function object."""
    code = fn.__code__
    tree, index, _ = module_tree(code.co_filename)
    first = code.co_firstlineno
    cands = index.get(first, [])
    if not cands:
        # decorated function: co_firstlineno is the decorator line
        for ln in range(first, first + 10):
            cands = [n for n in index.get(ln, []) if getattr(n, "name", None) == code.co_name]
            if cands:
                break
    named = [n for n in cands if getattr(n, "name", "<lambda>") == code.co_name]
    if named:
        return named[0]
    if cands:
        return cands[0]
    raise Undecided("no source for %r" % (fn,))


def find_function(module, qualpath):
    """Locate a (possibly nested) def by dotted path inside a module AST; returns the node."""
    tree, _, _ = module_tree(module.__file__)
    node = tree
    for part in qualpath.split("."):
        found = None
        for n in ast.walk(node) if node is not tree else tree.body:
            if isinstance(n, (ast.FunctionDef, ast.ClassDef)) and n.name == part:
                found = n
                break
        if found is None:
            raise Undecided("cannot find %s in %s" % (qualpath, module.__name__))
        node = found
    return node


def is_generator_node(node):
    if isinstance(node, ast.Lambda):
        return False
    for n in _walk_no_nested(node.body):
        if isinstance(n, (ast.Yield, ast.YieldFrom)):
            return True
    return False


def _walk_no_nested(stmts):
    todo = list(stmts)
    while todo:
        n = todo.pop()
        yield n
        if isinstance(n, (ast.FunctionDef, ast.Lambda, ast.ClassDef, ast.AsyncFunctionDef)):
            continue
        for c in ast.iter_child_nodes(n):
            if isinstance(c, (ast.FunctionDef, ast.Lambda, ast.ClassDef, ast.AsyncFunctionDef)):
                continue
            todo.append(c)


def local_names(node):
    """Names that are local to a function (parameters and assigned names)."""
    names = set()
    a = node.args
    for arg in a.posonlyargs + a.args + a.kwonlyargs:
        names.add(arg.arg)
    if a.vararg:
        names.add(a.vararg.arg)
    if a.kwarg:
        names.add(a.kwarg.arg)
    if isinstance(node, ast.Lambda):
        return names
    globs = set()
    for n in _walk_no_nested(node.body):
        if isinstance(n, ast.Name) and isinstance(n.ctx, (ast.Store, ast.Del)):
            names.add(n.id)
        elif isinstance(n, (ast.Global, ast.Nonlocal)):
            globs.update(n.names)
        elif isinstance(n, (ast.Import, ast.ImportFrom)):
            for al in n.names:
                names.add((al.asname or al.name).split(".")[0])
        elif isinstance(n, ast.ExceptHandler) and n.name:
            names.add(n.name)
    for n in node.body:
        for m in ast.walk(n):
            if isinstance(m, (ast.FunctionDef, ast.ClassDef)) and m in _direct_defs(node):
                names.add(m.name)
    return names - globs


def _direct_defs(node):
    out = []
    for n in _walk_no_nested(node.body):
        pass
    todo = list(node.body)
    while todo:
        n = todo.pop()
        if isinstance(n, (ast.FunctionDef, ast.ClassDef)):
            out.append(n)
            continue
        for c in ast.iter_child_nodes(n):
            if isinstance(c, (ast.Lambda,)):
                continue
            todo.append(c)
    return out


# --------------------------------------------------------------------------------------
# environments and interpreted callables
# --------------------------------------------------------------------------------------
class Env(object):
    __slots__ = ("vars", "locals_", "parent", "globals", "func")

    def __init__(self, locals_, parent, globals_, func=None):
        self.vars = {}
        self.locals_ = locals_       # set of names local to this frame (None = module-like)
        self.parent = parent         # enclosing function Env (closures) or None
        self.globals = globals_      # real module dict
        self.func = func

    def lookup(self, name):
        e = self
        while e is not None:
            if name in e.vars:
                return e.vars[name]
            if e.locals_ is not None and name in e.locals_:
                if e is self:
                    raise UnboundLocalError(
                        "cannot access local variable '%s' where it is not associated with a value" % name)
                raise NameError("free variable '%s' referenced before assignment in enclosing scope" % name)
            e = e.parent
        if name in self.globals:
            return self.globals[name]
        if hasattr(builtins, name):
            return getattr(builtins, name)
        raise NameError("name '%s' is not defined" % name)

    def store(self, name, value):
        self.vars[name] = value

    def delete(self, name):
        if name in self.vars:
            del self.vars[name]
        else:
            raise UnboundLocalError(name)


class IFunc(object):
    """A function defined while interpreting (nested def / lambda)."""

    def __init__(self, node, env, interp, name=None):
        self.node, self.env, self.interp = node, env, interp
        self.__name__ = name or getattr(node, "name", "<lambda>")
        self.defaults = None
        self.kw_defaults = None
        self.__doc__ = ast.get_docstring(node) if not isinstance(node, ast.Lambda) else None

    def __call__(self, *a, **k):       # native code calling back into interpreted code
        return self.interp.call(self, list(a), dict(k))

    def __repr__(self):
        return "<IFunc %s>" % self.__name__


class _GenClose(EngineSignal):
    """raised at a suspended yield when the generator is closed"""


class IGen(object):
    """Interpreted generator with real suspension semantics: the body runs in its own thread;
    exactly one of consumer / producer runs at any time (strict hand-off), so execution is
    deterministic and effects interleave with the consumer as in CPython."""

    def __init__(self, interp, thunk, name):
        self.interp, self.thunk, self.name = interp, thunk, name
        self.state = "new"            # new | suspended | running | done
        self.to_consumer = queue.Queue(1)
        self.to_producer = queue.Queue(1)
        self.thread = None
        self.ctx = Ctx.current
        if self.ctx is not None:
            self.ctx.generators.append(self)

    # ---- producer side (called from the generator thread)
    def _body(self):
        try:
            msg = self.to_producer.get()
            if msg == "close":
                self.to_consumer.put(("return", None))
                return
            saved = self.interp.depth
            self.interp.depth = 0
            try:
                self.thunk(self)
                out = ("return", None)
            except _GenClose:
                out = ("return", None)
            except BaseException as e:      # python exceptions and engine signals travel to the consumer
                out = ("raise", e)
            finally:
                self.interp.depth = saved
            self.to_consumer.put(out)
        except BaseException as e:          # pragma: no cover
            self.to_consumer.put(("raise", e))

    def produce(self, value):
        """called by e_Yield inside the generator thread"""
        self.to_consumer.put(("yield", value))
        msg = self.to_producer.get()
        if msg == "close":
            raise _GenClose()
        return None

    # ---- consumer side
    def __iter__(self):
        return self

    def _resume(self, msg):
        if self.state == "new":
            self.thread = threading.Thread(target=self._body, name="igen-" + str(self.name), daemon=True)
            self.thread.start()
        self.state = "running"
        depth = self.interp.depth
        self.to_producer.put(msg)
        kind, val = self.to_consumer.get()
        self.interp.depth = depth
        if kind == "yield":
            self.state = "suspended"
            return val
        self.state = "done"
        if kind == "raise":
            raise val
        raise StopIteration

    def __next__(self):
        if self.state == "done":
            raise StopIteration
        if self.state == "running":
            raise ValueError("generator already executing")
        return self._resume("next")

    def close(self):
        if self.state == "new":
            self.state = "done"
            return
        if self.state == "suspended":
            try:
                self._resume("close")
            except StopIteration:
                pass
            except _GenClose:
                pass
        self.state = "done"


class _ICtxMgr(object):
    """what @contextlib.contextmanager makes of an interpreted generator: __enter__ runs it to its yield, a normal
    __exit__ runs it to its end.  An exception leaving the with-body is NOT thrown into the generator (IGen has no throw):
    the generator is closed - its finally / with blocks run - and the exception propagates; a generator with an except
    clause of its own is outside this model (undecided)."""
    _pyvc_model = True

    def __init__(self, gen, fn):
        self.gen, self.fn = gen, fn
        try:
            self.handles = any(isinstance(n, ast.Try) and n.handlers for n in ast.walk(func_ast(fn)))
        except Exception:
            self.handles = True

    def __enter__(self):
        if not isinstance(self.gen, IGen):
            raise Undecided("contextmanager over something that is not an interpreted generator")
        try:
            return next(self.gen)
        except StopIteration:
            raise RuntimeError("generator didn't yield")

    def __exit__(self, typ, val, tb):
        if typ is None:
            try:
                next(self.gen)
            except StopIteration:
                return False
            raise RuntimeError("generator didn't stop")
        if self.handles:
            raise Undecided("an exception thrown into a contextmanager generator that has an except clause is not modelled")
        self.gen.close()
        return False


_BINOPS = {
    ast.Add: operator.add, ast.Sub: operator.sub, ast.Mult: operator.mul,
    ast.FloorDiv: operator.floordiv, ast.Mod: operator.mod, ast.Pow: operator.pow,
    ast.LShift: operator.lshift, ast.RShift: operator.rshift, ast.BitOr: operator.or_,
    ast.BitAnd: operator.and_, ast.BitXor: operator.xor, ast.Div: operator.truediv,
}
_IBINOPS = {
    ast.Add: operator.iadd, ast.Sub: operator.isub, ast.Mult: operator.imul,
    ast.FloorDiv: operator.ifloordiv, ast.Mod: operator.imod, ast.Pow: operator.ipow,
    ast.LShift: operator.ilshift, ast.RShift: operator.irshift, ast.BitOr: operator.ior,
    ast.BitAnd: operator.iand, ast.BitXor: operator.ixor, ast.Div: operator.itruediv,
}
_CMPOPS = {
    ast.Eq: operator.eq, ast.NotEq: operator.ne, ast.Lt: operator.lt, ast.LtE: operator.le,
    ast.Gt: operator.gt, ast.GtE: operator.ge,
}


class Interp(object):
    """One interpreter per exploration (shared across paths; per-path state lives in Ctx)."""

    def __init__(self, models=None, interpret_prefixes=("gffutils",), max_depth=60):
        from . import models as _models
        self.models = models or _models.Models(self)
        self.prefixes = interpret_prefixes
        snapshot_module_state(tuple(interpret_prefixes))
        self.contracts = {}      # real function object or qualname -> callable(interp, args, kwargs)
        self.loop_hooks = {}     # (code-or-node id, ordinal) -> callable(interp, env, node, iterable)
        self.depth = 0
        self.max_depth = max_depth
        self.unroll_limit = 64
        self.exc_stack = []      # exceptions being handled (for bare `raise`)
        self.call_log = []       # qualnames of real functions interpreted (evidence)
        self.native_ok = set()   # extra callables that may always be called natively
        # progress output is dropped by the symbolic semantics (DESIGN.md section 7)
        self.contracts[sys.stderr.write] = lambda interp, a, k: None
        self.contracts[sys.stderr.flush] = lambda interp, a, k: None
        import logging
        for _n in ("debug", "info", "warning", "error", "critical"):
            self.contracts[getattr(logging.Logger, _n)] = lambda interp, a, k: None

    # ------------------------------------------------------------------ helpers
    @property
    def ctx(self):
        c = Ctx.current
        if c is None:
            raise Undecided("no active path context")
        return c

    def should_interpret(self, fn):
        mod = getattr(fn, "__module__", None) or ""
        if isinstance(fn, types.FunctionType) and mod in ("_collections_abc", "collections.abc") and \
                fn.__qualname__.split(".")[0] in ("MutableMapping", "Mapping", "MutableSequence", "Sequence", "MutableSet", "Set"):
            # the mixin methods gffutils' classes inherit (Attributes is a MutableMapping): pure python written in terms
            # of the class's own __getitem__ / __setitem__ / __contains__ - interpreted like the repository's code
            return True
        return isinstance(fn, types.FunctionType) and any(
            mod == p or mod.startswith(p + ".") for p in self.prefixes) and ".test" not in mod

    # ------------------------------------------------------------------ calls
    def call(self, fn, args, kwargs):
        ctx = self.ctx
        # contracts / overrides first
        key = fn
        try:
            override = self.contracts.get(key)
        except TypeError:
            override = None
        if override is None and isinstance(fn, types.MethodType):
            try:
                override = self.contracts.get(fn.__func__)
            except TypeError:
                override = None
            if override is not None:
                return override(self, [fn.__self__] + list(args), kwargs)
        if override is not None:
            return override(self, list(args), kwargs)

        if isinstance(fn, IFunc):
            return self.call_node(fn.node, fn.env, fn.env.globals, args, kwargs, fn.defaults,
                                  fn.kw_defaults, fn.__name__)
        if (isinstance(fn, types.FunctionType) and isinstance(getattr(fn, "__wrapped__", None), types.FunctionType)
                and fn.__code__.co_filename.endswith("contextlib.py") and self.should_interpret(fn.__wrapped__)):
            # a repository generator function under @contextlib.contextmanager: its body is interpreted like any other
            # repository code (called natively it would run the real open() / sqlite3 on ghost names)
            return _ICtxMgr(self.call_real_function(fn.__wrapped__, args, kwargs), fn.__wrapped__)
        if isinstance(fn, types.MethodType):
            if getattr(fn.__self__, "_pyvc_model", False):
                return fn(*args, **kwargs)
            return self.call(fn.__func__, [fn.__self__] + list(args), kwargs)
        if isinstance(fn, types.FunctionType) and self.should_interpret(fn):
            return self.call_real_function(fn, args, kwargs)
        if isinstance(fn, type):
            return self.instantiate(fn, args, kwargs)
        m = self.models.lookup(fn)
        if m is not None:
            return m(args, kwargs)
        # bound builtin method on a concrete object or a plain builtin
        if isinstance(fn, functools_partial_types):
            return self.call(fn.func, list(fn.args) + list(args), dict(fn.keywords or {}, **kwargs))
        return self.models.native_call(fn, args, kwargs)

    def call_real_function(self, fn, args, kwargs):
        node = func_ast(fn)
        qn = "%s:%s" % (fn.__module__, fn.__qualname__)
        self.ctx.inlined.add(qn)
        parent = None
        if fn.__closure__:
            parent = Env(set(fn.__code__.co_freevars), None, fn.__globals__)
            for name, cell in zip(fn.__code__.co_freevars, fn.__closure__):
                try:
                    parent.vars[name] = cell.cell_contents
                except ValueError:
                    pass
        return self.call_node(node, parent, fn.__globals__, args, kwargs,
                              fn.__defaults__, fn.__kwdefaults__, qn, realfn=fn)

    def bind_args(self, node, args, kwargs, defaults, kw_defaults, name):
        a = node.args
        params = [p.arg for p in a.posonlyargs + a.args]
        bound = {}
        args = list(args)
        kwargs = dict(kwargs)
        npos = len(params)
        for i, p in enumerate(params):
            if i < len(args):
                if p in kwargs:
                    raise TypeError("%s() got multiple values for argument '%s'" % (name, p))
                bound[p] = args[i]
        extra = args[npos:]
        if a.vararg:
            bound[a.vararg.arg] = tuple(extra)
        elif extra:
            raise TypeError("%s() takes %d positional arguments but %d were given" % (name, npos, len(args)))
        defaults = list(defaults or ())
        doff = npos - len(defaults)
        for i, p in enumerate(params):
            if p in bound:
                continue
            if p in kwargs:
                bound[p] = kwargs.pop(p)
            elif i >= doff:
                bound[p] = defaults[i - doff]
            else:
                raise TypeError("%s() missing required positional argument: '%s'" % (name, p))
        for p in a.kwonlyargs:
            if p.arg in kwargs:
                bound[p.arg] = kwargs.pop(p.arg)
            elif kw_defaults and p.arg in kw_defaults:
                bound[p.arg] = kw_defaults[p.arg]
            else:
                raise TypeError("%s() missing keyword-only argument '%s'" % (name, p.arg))
        if a.kwarg:
            bound[a.kwarg.arg] = kwargs
        elif kwargs:
            raise TypeError("%s() got an unexpected keyword argument '%s'" % (name, sorted(kwargs)[0]))
        return bound

    def call_node(self, node, parent_env, globals_, args, kwargs, defaults, kw_defaults, name, realfn=None):
        bound = self.bind_args(node, args, kwargs, defaults, kw_defaults, name)
        env = Env(local_names(node), parent_env, globals_, func=node)
        env.vars.update(bound)
        if is_generator_node(node):
            def thunk(gen, env=env, node=node):
                env.vars["$gen"] = gen
                env.vars.setdefault("$yield", [])
                self.run_body(node, env)
            return IGen(self, thunk, name)
        return self.run_body(node, env)

    def run_body(self, node, env):
        if self.depth > self.max_depth:
            raise Undecided("interpreter call depth exceeded")
        self.depth += 1
        try:
            if isinstance(node, ast.Lambda):
                return self.eval(node.body, env)
            try:
                self.exec_block(node.body, env)
            except _Return as r:
                return r.value
            return None
        finally:
            self.depth -= 1

    def instantiate(self, cls, args, kwargs):
        mod = getattr(cls, "__module__", "") or ""
        if any(mod == p or mod.startswith(p + ".") for p in self.prefixes) and not issubclass(cls, BaseException):
            m = self.models.lookup(cls)
            if m is not None:
                return m(args, kwargs)
            if issubclass(cls, dict):
                obj = cls.__new__(cls)
            else:
                obj = object.__new__(cls)
            init = cls.__init__
            if isinstance(init, types.FunctionType) and self.should_interpret(init):
                self.call_real_function(init, [obj] + list(args), kwargs)
            elif init is not object.__init__:
                init(obj, *args, **kwargs)
            return obj
        m = self.models.lookup(cls)
        if m is not None:
            return m(args, kwargs)
        return self.models.native_call(cls, args, kwargs)

    # ------------------------------------------------------------------ statements
    def exec_block(self, stmts, env):
        for s in stmts:
            self.exec(s, env)

    def exec(self, s, env):
        m = getattr(self, "x_" + type(s).__name__, None)
        if m is None:
            raise Undecided("statement %s not supported (line %s)" % (type(s).__name__, getattr(s, "lineno", "?")))
        return m(s, env)

    def x_Expr(self, s, env):
        if isinstance(s.value, ast.Constant):
            return
        self.eval(s.value, env)

    def x_Pass(self, s, env):
        pass

    def x_Return(self, s, env):
        raise _Return(self.eval(s.value, env) if s.value is not None else None)

    def x_Break(self, s, env):
        raise _Break()

    def x_Continue(self, s, env):
        raise _Continue()

    def x_Global(self, s, env):
        pass

    def x_Nonlocal(self, s, env):
        raise Undecided("nonlocal")

    def x_Assign(self, s, env):
        v = self.eval(s.value, env)
        for t in s.targets:
            self.assign(t, v, env)

    def x_AnnAssign(self, s, env):
        if s.value is not None:
            self.assign(s.target, self.eval(s.value, env), env)

    def x_AugAssign(self, s, env):
        t = s.target
        if isinstance(t, ast.Name):
            cur = env.lookup(t.id)
            new = self.binop(type(s.op), cur, self.eval(s.value, env), inplace=True)
            self.assign(t, new, env)
        elif isinstance(t, ast.Attribute):
            obj = self.eval(t.value, env)
            cur = self.getattr(obj, t.attr)
            new = self.binop(type(s.op), cur, self.eval(s.value, env), inplace=True)
            self.setattr(obj, t.attr, new)
        elif isinstance(t, ast.Subscript):
            obj = self.eval(t.value, env)
            idx = self.eval_slice(t.slice, env)
            cur = self.getitem(obj, idx)
            new = self.binop(type(s.op), cur, self.eval(s.value, env), inplace=True)
            self.setitem(obj, idx, new)
        else:
            raise Undecided("augassign target")

    def assign(self, t, v, env):
        if isinstance(t, ast.Name):
            if env.locals_ is None or t.id in env.locals_:
                env.store(t.id, v)
            else:
                env.globals[t.id] = v
        elif isinstance(t, (ast.Tuple, ast.List)):
            stars = [k for k, e in enumerate(t.elts) if isinstance(e, ast.Starred)]
            if stars:
                # a, *rest, z = v: decided for a sequence whose length is known; a symbolic sequence is undecided
                if isinstance(v, Sym):
                    raise Undecided("starred assignment from a symbolic value")
                items = list(self.iterate(v))
                k, n = stars[0], len(t.elts)
                if len(items) < n - 1:
                    raise ValueError("not enough values to unpack (expected at least %d, got %d)" % (n - 1, len(items)))
                tail = n - 1 - k
                for e, i in zip(t.elts[:k], items[:k]):
                    self.assign(e, i, env)
                self.assign(t.elts[k].value, items[k:len(items) - tail], env)
                for e, i in zip(t.elts[k + 1:], items[len(items) - tail:]):
                    self.assign(e, i, env)
                return
            items = self.unpack(v, len(t.elts))
            for e, i in zip(t.elts, items):
                self.assign(e, i, env)
        elif isinstance(t, ast.Attribute):
            self.setattr(self.eval(t.value, env), t.attr, v)
        elif isinstance(t, ast.Subscript):
            self.setitem(self.eval(t.value, env), self.eval_slice(t.slice, env), v)
        else:
            raise Undecided("assignment target %s" % type(t).__name__)

    def unpack(self, v, n, starred=False):
        if isinstance(v, Sym):
            items = self.models.unpack_sym(v, n)
        else:
            items = list(self.iterate(v))
        if len(items) != n:
            if len(items) > n:
                raise ValueError("too many values to unpack (expected %d)" % n)
            raise ValueError("not enough values to unpack (expected %d, got %d)" % (n, len(items)))
        return items

    def x_Delete(self, s, env):
        for t in s.targets:
            if isinstance(t, ast.Name):
                env.delete(t.id)
            elif isinstance(t, ast.Subscript):
                obj = self.eval(t.value, env)
                idx = self.eval_slice(t.slice, env)
                self.delitem(obj, idx)
            elif isinstance(t, ast.Attribute):
                obj = self.eval(t.value, env)
                self.ctx.writes.append((obj, t.attr))
                delattr(obj, t.attr)
            else:
                raise Undecided("del target")

    def x_If(self, s, env):
        if self.truth(self.eval(s.test, env), label="if@%d" % s.lineno):
            self.exec_block(s.body, env)
        else:
            self.exec_block(s.orelse, env)

    def x_While(self, s, env):
        n = 0
        while self.truth(self.eval(s.test, env), label="while@%d" % s.lineno):
            n += 1
            if n > self.unroll_limit:
                raise Undecided("while loop exceeds unroll limit at line %d" % s.lineno)
            try:
                self.exec_block(s.body, env)
            except _Break:
                return
            except _Continue:
                continue
        self.exec_block(s.orelse, env)

    def loop_ordinal(self, s, env):
        f = env.func
        if f is None:
            return None
        k = 0
        for n in ast.walk(f):
            if isinstance(n, (ast.For, ast.While)):
                if n is s:
                    return k
                k += 1
        return None

    def x_For(self, s, env):
        it = self.eval(s.iter, env)
        hook = None
        if self.loop_hooks and env.func is not None:
            hook = self.loop_hooks.get((getattr(env.func, "name", None), self.loop_ordinal(s, env)))
        if hook is not None:
            r = hook(self, env, s, it)
            if r is not NotImplemented:
                return
        if isinstance(it, Sym):
            it = self.models.iter_sym(it, s, env)
            if it is None:          # the model executed the loop by a rule
                return
        n = 0
        broke = False
        for item in self.iterate(it):
            n += 1
            if n > self.unroll_limit * 64:
                raise Undecided("for loop too long at line %d" % s.lineno)
            self.assign(s.target, item, env)
            try:
                self.exec_block(s.body, env)
            except _Break:
                broke = True
                break
            except _Continue:
                continue
        if not broke:
            self.exec_block(s.orelse, env)

    def iterate(self, v):
        """Python-level iteration over a concrete iterable (elements may be symbolic)."""
        if isinstance(v, Sym):
            r = self.models.iter_sym(v, None, None)
            if r is None:
                raise Undecided("cannot iterate %r" % (v,))
            return r
        if isinstance(v, MSet) and v.ranges:
            raise Undecided("iteration over a set with symbolic ranges")
        if isinstance(v, MSet) and v.sitems:
            return iter(list(set.__iter__(v)) + list(v.sitems))
        if isinstance(v, (list, tuple)) and any(type(x).__name__ == "Splice" for x in v):
            raise Undecided("iteration over a list holding an abstract run (list.extend(<abstract sequence>))")
        if isinstance(v, (list, tuple, str, dict, set, frozenset, range, IGen)):
            return iter(v)
        tp = type(v)
        it = getattr(tp, "__iter__", None)
        if isinstance(it, types.FunctionType) and self.should_interpret(it):
            r = self.call(it, [v], {})
            return self.iterate(r)
        return iter(v)

    def x_Try(self, s, env):
        try:
            try:
                self.exec_block(s.body, env)
            except EngineSignal:
                raise
            except BaseException as e:
                for h in s.handlers:
                    if h.type is None:
                        match = True
                    else:
                        cls = self.eval(h.type, env)
                        match = isinstance(e, cls)
                    if match:
                        if h.name:
                            env.store(h.name, e)
                        self.exc_stack.append(e)
                        try:
                            self.exec_block(h.body, env)
                        finally:
                            self.exc_stack.pop()
                        break
                else:
                    raise
            else:
                self.exec_block(s.orelse, env)
        finally:
            if s.finalbody:
                self.exec_block(s.finalbody, env)

    def x_Raise(self, s, env):
        if s.exc is None:
            if not self.exc_stack:
                raise RuntimeError("No active exception to reraise")
            raise self.exc_stack[-1]
        e = self.eval(s.exc, env)
        if isinstance(e, type):
            e = e()
        raise e

    def x_Assert(self, s, env):
        if not self.truth(self.eval(s.test, env), label="assert@%d" % s.lineno):
            msg = self.eval(s.msg, env) if s.msg is not None else None
            raise AssertionError(msg)

    def x_With(self, s, env):
        if len(s.items) != 1:
            raise Undecided("multi-item with")
        item = s.items[0]
        cm = self.eval(item.context_expr, env)
        enter = self.getattr(cm, "__enter__")
        exit_ = self.getattr(cm, "__exit__")
        v = self.call(enter, [], {})
        if item.optional_vars is not None:
            self.assign(item.optional_vars, v, env)
        try:
            self.exec_block(s.body, env)
        except EngineSignal:
            # control flow leaving the block still runs __exit__
            self.call(exit_, [None, None, None], {})
            raise
        except BaseException as e:
            if not self.call(exit_, [type(e), e, e.__traceback__], {}):
                raise
        else:
            self.call(exit_, [None, None, None], {})

    def x_FunctionDef(self, s, env):
        f = IFunc(s, env, self)
        f.defaults = tuple(self.eval(d, env) for d in s.args.defaults)
        f.kw_defaults = {a.arg: self.eval(d, env) for a, d in zip(s.args.kwonlyargs, s.args.kw_defaults) if d is not None}
        if s.decorator_list:
            raise Undecided("decorated nested function")
        env.store(s.name, f)

    def x_Import(self, s, env):
        for al in s.names:
            mod = __import__(al.name)
            if al.asname:
                for part in al.name.split(".")[1:]:
                    mod = getattr(mod, part)
                env.store(al.asname, mod)
            else:
                env.store(al.name.split(".")[0], mod)

    def x_ImportFrom(self, s, env):
        mod = __import__(s.module, fromlist=[a.name for a in s.names], level=s.level)
        for al in s.names:
            env.store(al.asname or al.name, getattr(mod, al.name))

    # ------------------------------------------------------------------ expressions
    def eval(self, e, env):
        m = getattr(self, "e_" + type(e).__name__, None)
        if m is None:
            raise Undecided("expression %s not supported (line %s)" % (type(e).__name__, getattr(e, "lineno", "?")))
        return m(e, env)

    def e_Constant(self, e, env):
        return e.value

    def e_Name(self, e, env):
        return env.lookup(e.id)

    def e_Attribute(self, e, env):
        return self.getattr(self.eval(e.value, env), e.attr)

    def e_Subscript(self, e, env):
        return self.getitem(self.eval(e.value, env), self.eval_slice(e.slice, env))

    def eval_slice(self, sl, env):
        if isinstance(sl, ast.Slice):
            return slice(self.eval(sl.lower, env) if sl.lower else None,
                         self.eval(sl.upper, env) if sl.upper else None,
                         self.eval(sl.step, env) if sl.step else None)
        return self.eval(sl, env)

    def e_Slice(self, e, env):
        return self.eval_slice(e, env)

    def e_Tuple(self, e, env):
        return tuple(self.eval_elts(e.elts, env))

    def e_List(self, e, env):
        return self.eval_elts(e.elts, env)

    def e_Set(self, e, env):
        items = self.eval_elts(e.elts, env)
        if has_sym(items):
            raise Undecided("set display with symbolic members")
        return MSet(items)              # like set(...): may later be update()d with a symbolic range

    def eval_elts(self, elts, env):
        out = []
        for x in elts:
            if isinstance(x, ast.Starred):
                out.extend(self.iterate(self.eval(x.value, env)))
            else:
                out.append(self.eval(x, env))
        return out

    def e_Dict(self, e, env):
        d = {}
        for k, v in zip(e.keys, e.values):
            if k is None:
                d.update(self.eval(v, env))
            else:
                kk = self.eval(k, env)
                if isinstance(kk, Sym):
                    raise Undecided("dict display with symbolic key")
                d[kk] = self.eval(v, env)
        return d

    def e_JoinedStr(self, e, env):
        parts = []
        for v in e.values:
            if isinstance(v, ast.Constant):
                parts.append(v.value)
            else:
                if v.format_spec is not None or v.conversion not in (-1, 115):
                    raise Undecided("f-string format spec")
                parts.append(self.models.to_str(self.eval(v.value, env)))
        return self.models.concat(parts)

    def e_NamedExpr(self, e, env):
        v = self.eval(e.value, env)
        self.assign(e.target, v, env)          # (inside a comprehension the target belongs to the enclosing scope: see comp())
        return v

    def e_IfExp(self, e, env):
        if self.truth(self.eval(e.test, env), label="ifexp@%d" % e.lineno):
            return self.eval(e.body, env)
        return self.eval(e.orelse, env)

    def e_Lambda(self, e, env):
        f = IFunc(e, env, self)
        f.defaults = tuple(self.eval(d, env) for d in e.args.defaults)
        f.kw_defaults = {}
        return f

    def e_BoolOp(self, e, env):
        is_and = isinstance(e.op, ast.And)
        v = None
        for i, x in enumerate(e.values):
            v = self.eval(x, env)
            if i == len(e.values) - 1:
                return v
            t = self.truth(v, label="boolop@%d.%d" % (e.lineno, i))
            if is_and and not t:
                return v
            if not is_and and t:
                return v
        return v

    def e_UnaryOp(self, e, env):
        v = self.eval(e.operand, env)
        if isinstance(e.op, ast.Not):
            if isinstance(v, SBool):
                return SBool(z3.Not(v.e))
            return not self.truth(v, label="not@%d" % e.lineno)
        if isinstance(v, SInt):
            if isinstance(e.op, ast.USub):
                return SInt(-v.e)
            if isinstance(e.op, ast.UAdd):
                return v
            raise Undecided("unary op on symbolic int")
        if isinstance(v, Sym):
            raise Undecided("unary op on %r" % (v,))
        if isinstance(e.op, ast.USub):
            return -v
        if isinstance(e.op, ast.UAdd):
            return +v
        if isinstance(e.op, ast.Invert):
            return ~v
        raise Undecided("unary op")

    def e_BinOp(self, e, env):
        return self.binop(type(e.op), self.eval(e.left, env), self.eval(e.right, env))

    def binop(self, op, a, b, inplace=False):
        if inplace and op is ast.Add and isinstance(a, list) and isinstance(b, SSeq):
            return self.models.container_method(a, "__iadd__", [b], {})
        if isinstance(a, Sym) or isinstance(b, Sym) or (op is ast.Mod and isinstance(a, str) and (has_sym(b) or self._has_interp_str(b))):
            return self.models.binop(op, a, b)
        a2 = self.user_binop(op, a, b)
        if a2 is not NotImplemented:
            return a2
        return (_IBINOPS if inplace else _BINOPS)[op](a, b)

    def user_binop(self, op, a, b):
        return NotImplemented

    def _has_interp_str(self, b):
        """does %-formatting have to print an object whose __str__ is interpreted code?"""
        for x in (b if isinstance(b, tuple) else (b,)):
            f = getattr(type(x), "__str__", None)
            if isinstance(f, types.FunctionType) and self.should_interpret(f):
                return True
        return False

    def e_Compare(self, e, env):
        left = self.eval(e.left, env)
        result = None
        for op, rn in zip(e.ops, e.comparators):
            right = self.eval(rn, env)
            r = self.compare(type(op), left, right)
            if result is None:
                result = r
            else:
                result = self.models.and_(result, r)
            if len(e.ops) > 1 and not isinstance(result, Sym) and not result:
                return result
            left = right
        return result

    def compare(self, op, a, b):
        if op is ast.Is:
            return self.identical(a, b)
        if op is ast.IsNot:
            return not self.identical(a, b)
        if op in (ast.In, ast.NotIn):
            r = self.contains(b, a)
            if op is ast.NotIn:
                return SBool(z3.Not(r.e)) if isinstance(r, SBool) else (not r)
            return r
        if isinstance(a, Sym) or isinstance(b, Sym):
            return self.models.compare(op, a, b)
        if has_sym(a) or has_sym(b):
            return self.models.compare_containers(op, a, b)
        # user-defined __eq__ of gffutils classes (Feature.__eq__ is str-based)
        r = self.user_compare(op, a, b)
        if r is not NotImplemented:
            return r
        return _CMPOPS[op](a, b)

    def user_compare(self, op, a, b):
        name = {ast.Eq: "__eq__", ast.NotEq: "__ne__"}.get(op)
        if name is None:
            return NotImplemented
        f = getattr(type(a), name, None)
        if isinstance(f, types.FunctionType) and self.should_interpret(f):
            return self.call(f, [a, b], {})
        return NotImplemented

    def identical(self, a, b):
        if isinstance(a, Sym) or isinstance(b, Sym):
            if a is b:
                return True
            if a is None or b is None:
                return False
            if isinstance(a, SBool) or isinstance(b, SBool):
                raise Undecided("identity test on symbolic bool")
            return False
        return a is b

    def contains(self, container, item):
        if is_sym(container) or isinstance(item, Sym) or has_sym(container, 1) or has_sym(item, 2):
            return self.models.contains(container, item)
        f = getattr(type(container), "__contains__", None)
        if isinstance(f, types.FunctionType) and self.should_interpret(f):
            return self.truth(self.call(f, [container, item], {}))
        if getattr(container, "_pyvc_model", False):
            return item in container
        Sym.STRICT += 1
        try:
            return item in container
        finally:
            Sym.STRICT -= 1

    def e_Call(self, e, env):
        fn = self.eval(e.func, env)
        args = []
        for a in e.args:
            if isinstance(a, ast.Starred):
                args.extend(self.iterate(self.eval(a.value, env)))
            else:
                args.append(self.eval(a, env))
        kwargs = {}
        for k in e.keywords:
            if k.arg is None:
                d = self.eval(k.value, env)
                for kk in self.iterate(self.call(self.getattr(d, "keys"), [], {})) if not isinstance(d, dict) else d:
                    kwargs[kk] = d[kk] if isinstance(d, dict) else self.getitem(d, kk)
            else:
                kwargs[k.arg] = self.eval(k.value, env)
        # builtins needing the frame
        if fn is builtins.locals:
            return dict((k, v) for k, v in env.vars.items() if not k.startswith("$"))
        if fn is builtins.super and not args:
            raise Undecided("zero-argument super()")
        return self.call(fn, args, kwargs)

    def e_ListComp(self, e, env):
        out = []
        self.comp(e.generators, 0, env, lambda en: out.append(self.eval(e.elt, en)), e)
        return self.models.comp_result(out, "list")

    def e_SetComp(self, e, env):
        out = []
        self.comp(e.generators, 0, env, lambda en: out.append(self.eval(e.elt, en)), e)
        if has_sym(out, 1):
            raise Undecided("set comprehension with symbolic members")
        return set(out)

    def e_GeneratorExp(self, e, env):
        out = []
        self.comp(e.generators, 0, env, lambda en: out.append(self.eval(e.elt, en)), e)
        r = self.models.comp_result(out, "gen")
        return iter(r) if isinstance(r, list) else r

    def e_DictComp(self, e, env):
        out = {}

        def add(en):
            k = self.eval(e.key, en)
            if isinstance(k, Sym):
                raise Undecided("dict comprehension with symbolic key")
            out[k] = self.eval(e.value, en)
        self.comp(e.generators, 0, env, add, e)
        return out

    def comp(self, gens, i, env, emit, node):
        if i == len(gens):
            emit(env)
            return
        g = gens[i]
        it = self.eval(g.iter, env)
        if isinstance(it, Sym):
            r = self.models.comp_sym(it, g, gens, i, env, emit, node)
            if r is not NotImplemented:
                return
        inner = Env(None, env, env.globals, func=env.func) if i == 0 else env
        if i == 0:
            inner.locals_ = set()
            # comprehension scope: targets are local to it
            for gg in gens:
                for n in ast.walk(gg.target):
                    if isinstance(n, ast.Name):
                        inner.locals_.add(n.id)
        for item in self.iterate(it):
            self.assign(g.target, item, inner)
            if all(self.truth(self.eval(c, inner), label="compif@%d" % node.lineno) for c in g.ifs):
                self.comp(gens, i + 1, inner, emit, node)

    def e_Yield(self, e, env):
        v = self.eval(e.value, env) if e.value is not None else None
        fenv = env
        while fenv is not None and "$gen" not in fenv.vars:
            fenv = fenv.parent
        if fenv is None:
            raise Undecided("yield outside generator")
        fenv.vars["$yield"].append(v)         # ghost output sequence (everything yielded so far)
        return fenv.vars["$gen"].produce(v)

    def e_YieldFrom(self, e, env):
        """yield from <iterable>: every item is yielded in turn (values sent into the generator and the
        sub-generator's return value are not modelled: the expression evaluates to None)"""
        src = self.eval(e.value, env)
        fenv = env
        while fenv is not None and "$gen" not in fenv.vars:
            fenv = fenv.parent
        if fenv is None:
            raise Undecided("yield from outside generator")
        for v in self.iterate(src):
            fenv.vars["$yield"].append(v)
            fenv.vars["$gen"].produce(v)
        return None

    def e_Starred(self, e, env):
        raise Undecided("starred expression")

    # ------------------------------------------------------------------ object protocol
    def truth(self, v, label=None):
        if v is None or v is True or v is False:
            return bool(v)
        if isinstance(v, Sym):
            return self.models.truth(v, label)
        if isinstance(v, (int, str, float, list, tuple, dict, set, frozenset, bytes, range)):
            return bool(v)
        tp = type(v)
        f = getattr(tp, "__bool__", None)
        if isinstance(f, types.FunctionType) and self.should_interpret(f):
            return self.truth(self.call(f, [v], {}), label)
        f = getattr(tp, "__len__", None)
        if isinstance(f, types.FunctionType) and self.should_interpret(f):
            n = self.len_value(self.call(f, [v], {}))
            if isinstance(n, SInt):
                return self.ctx.branch(n.e != 0, label)
            return n != 0
        return bool(v)

    def len_value(self, n):
        """Python's checks on the result of __len__."""
        if isinstance(n, SInt):
            if self.ctx.branch(n.e < 0, "len<0"):
                raise ValueError("__len__() should return >= 0")
            return n
        if not isinstance(n, int):
            raise TypeError("'%s' object cannot be interpreted as an integer" % type(n).__name__)
        if n < 0:
            raise ValueError("__len__() should return >= 0")
        return n

    def getattr(self, obj, name):
        if isinstance(obj, Sym):
            return self.models.getattr_sym(obj, name)
        if isinstance(obj, IFunc) and name == "__doc__":
            return obj.__doc__
        tp = type(obj)
        if not isinstance(obj, (type, types.ModuleType)):
            d = _static_lookup(tp, name)
            if isinstance(d, property):
                if isinstance(d.fget, types.FunctionType) and self.should_interpret(d.fget):
                    return self.call_real_function(d.fget, [obj], {})
                return d.fget(obj)
            ga = _static_lookup(tp, "__getattr__")
            if ga is not None and isinstance(ga, types.FunctionType) and self.should_interpret(ga):
                try:
                    return getattr(obj, name)
                except AttributeError:
                    return self.call_real_function(ga, [obj, name], {})
        try:
            return getattr(obj, name)
        except AttributeError:
            # an attribute the MODEL of an external object (ghost connection, cursor, file ...) does not offer says
            # nothing about the real object: undecided, never an exception of the code under verification
            mod = getattr(tp if not isinstance(obj, type) else obj, "__module__", "") or ""
            if mod.split(".")[0] in ("pyvc", "contracts", "props", "standins") and (not name.startswith("__") or name in ("__enter__", "__exit__")):
                raise Undecided("the model %s has no attribute %r" % (tp.__name__, name))
            raise

    def setattr(self, obj, name, value):
        if isinstance(obj, Sym):
            raise Undecided("attribute store on symbolic value")
        tp = type(obj)
        d = _static_lookup(tp, name)
        if isinstance(d, property):
            if d.fset is None:
                raise AttributeError("can't set attribute '%s'" % name)
            if isinstance(d.fset, types.FunctionType) and self.should_interpret(d.fset):
                self.call_real_function(d.fset, [obj, value], {})
                return
            d.fset(obj, value)
            return
        self.ctx.writes.append((obj, name))
        setattr(obj, name, value)

    def getitem(self, obj, idx):
        if isinstance(obj, Sym) or isinstance(idx, Sym) or (isinstance(idx, slice) and has_sym((idx.start, idx.stop, idx.step))):
            return self.models.getitem(obj, idx)
        if isinstance(idx, tuple) and has_sym(idx, 1) and type(obj) is dict:
            return self.models.container_method(obj, "__getitem__", [idx], {})
        tp = type(obj)
        f = _static_lookup(tp, "__getitem__")
        if isinstance(f, types.FunctionType) and self.should_interpret(f):
            return self.call(f, [obj, idx], {})
        if isinstance(obj, dict) and tp is not dict:
            # dict subclass with interpreted __missing__ (parser.Quoter)
            miss = _static_lookup(tp, "__missing__")
            if miss is not None and isinstance(miss, types.FunctionType) and self.should_interpret(miss) and idx not in obj:
                return self.call_real_function(miss, [obj, idx], {})
        if getattr(obj, "_pyvc_model", False):
            return obj[idx]
        Sym.STRICT += 1
        try:
            return obj[idx]
        finally:
            Sym.STRICT -= 1

    def setitem(self, obj, idx, value):
        if isinstance(obj, Sym) or isinstance(idx, Sym):
            return self.models.setitem(obj, idx, value)
        tp = type(obj)
        f = _static_lookup(tp, "__setitem__")
        if isinstance(f, types.FunctionType) and self.should_interpret(f):
            return self.call(f, [obj, idx, value], {})
        self.ctx.writes.append((obj, idx))
        obj[idx] = value

    def delitem(self, obj, idx):
        if isinstance(obj, Sym) or isinstance(idx, Sym):
            raise Undecided("del on symbolic")
        f = _static_lookup(type(obj), "__delitem__")
        if isinstance(f, types.FunctionType) and self.should_interpret(f):
            return self.call_real_function(f, [obj, idx], {})
        self.ctx.writes.append((obj, idx))
        del obj[idx]


def _static_lookup(tp, name):
    for c in tp.__mro__:
        if name in c.__dict__:
            return c.__dict__[name]
    return None


import functools
functools_partial_types = (functools.partial,)
