"""Helpers shared by the per-property harnesses: models, concretisation, path validation."""
import z3
from .core import Sym, SInt, SBool, SStr, SSet, SSeq, MSet, Lit, IntLit, Val, Rep, SetLit, SeqLit, Pct, Undecided


def model_of(constraints, rlimit=20000000):
    s = z3.Solver()
    s.set("rlimit", rlimit)
    s.add(*constraints)
    if s.check() != z3.sat:
        return None
    return s.model()


def ev(model, term):
    v = model.eval(term, model_completion=True)
    if z3.is_int_value(v):
        return v.as_long()
    if z3.is_true(v):
        return True
    if z3.is_false(v):
        return False
    if z3.is_string_value(v):
        return v.as_string()
    raise Undecided("cannot evaluate %s in model (got %s)" % (term, v))


def concretize(v, model, depth=0):
    """Engine value -> plain python value under a model."""
    if isinstance(v, SInt):
        return ev(model, v.e)
    if isinstance(v, SBool):
        return ev(model, v.e)
    if isinstance(v, SStr):
        out = []
        for a in v.atoms:
            if isinstance(a, Lit):
                out.append(a.s)
            elif isinstance(a, IntLit):
                out.append(str(ev(model, a.e)))
            elif isinstance(a, Val):
                out.append(ev(model, a.v))
            elif isinstance(a, SetLit):
                out.append(a.sep.join(map(str, sorted(concretize(a.sset, model)))))
            elif isinstance(a, SeqLit):
                out.append(a.sep.join(str(x) for x in concretize(a.seq, model)))
            elif isinstance(a, Pct):
                import gffutils.parser as P
                out.append("".join(P.quoter[c] for c in ev(model, a.u.v)))
            elif isinstance(a, Rep):
                n = ev(model, a.seq.length)
                out.append(a.sep.join([a.pattern] * n))
            else:
                raise Undecided("concretize atom %r" % (a,))
        return "".join(out)
    if isinstance(v, MSet):
        s = set(set.__iter__(v))
        for lo, hi in v.ranges:
            l, h = ev(model, lo), ev(model, hi)
            if h - l > 200000:
                raise Undecided("range too large to concretise")
            s.update(range(l, h + 1))
        return s
    if isinstance(v, SSet):
        if v.witness is None:
            raise Undecided("abstract set without witness function")
        return v.witness(model)
    if isinstance(v, SSeq) and v.kind == "setlist":
        from .models import seq_witness
        w = seq_witness(v)
        if w is None:
            raise Undecided("abstract list without witness")
        return sorted(w(model))
    if isinstance(v, SSeq):
        n = ev(model, v.length)
        if n > 10000:
            raise Undecided("sequence too long to concretise")
        return [concretize(v.elem(z3.IntVal(i)), model) for i in range(n)]
    if isinstance(v, list):
        return [concretize(x, model) for x in v]
    if isinstance(v, tuple):
        return tuple(concretize(x, model) for x in v)
    if isinstance(v, dict):
        return {k: concretize(x, model) for k, x in v.items()}
    return v


def split_atoms(s, sep):
    """Structural split of a string with holes at the occurrences of `sep` inside literal atoms
    (post-processing of results by the harnesses; the caller guarantees holes exclude sep)."""
    from .core import mkstr
    s = SStr.of(s)
    pieces = [[]]
    for a in s.atoms:
        if isinstance(a, Lit):
            chunks = a.s.split(sep)
            pieces[-1].append(Lit(chunks[0]))
            for c in chunks[1:]:
                pieces.append([Lit(c)])
        else:
            pieces[-1].append(a)
    return [mkstr(SStr(p)) for p in pieces]


class Indexed(object):
    """item returned by a loop-hook setup: bound as (index, value) when the loop iterates enumerate(...), as the value alone
    otherwise - so that a loop may gain or lose its counter without the unit having to know"""

    def __init__(self, index, value):
        self.index, self.value = index, value


def install_loop_body_hook(it, func_name, ordinal, setup):
    """Fold rule (DESIGN.md 2.3 d): when the interpreter reaches loop `ordinal` of function
    `func_name`, `setup(env, ctx, iterable)` havocs the loop-carried variables and returns the
    item to bind; the body is executed exactly once; execution then stops with LoopExit carrying
    the environment after the body and how the body ended ('next' | 'continue' | 'break')."""
    from .interp import LoopExit, _Continue, _Break, _Return
    from .core import Ctx

    def hook(interp, env, node, iterable):
        ctx = Ctx.current
        item = setup(env, ctx, iterable)
        if isinstance(item, Indexed):
            import ast as _ast
            enum = isinstance(node.iter, _ast.Call) and isinstance(node.iter.func, _ast.Name) and node.iter.func.id == "enumerate"
            item = (item.index, item.value) if enum else item.value
        interp.assign(node.target, item, env)
        kind = "next"
        try:
            interp.exec_block(node.body, env)
        except _Continue:
            kind = "continue"
        except _Break:
            kind = "break"
        except _Return as r:
            kind = "return"
        raise LoopExit(env, kind)
    it.loop_hooks[(func_name, ordinal)] = hook


# --------------------------------------------------------------------------------------
# static scan for loop-carried state (evidence for the generic-row rule)
# --------------------------------------------------------------------------------------
_MUTATORS = {"add", "append", "extend", "insert", "update", "setdefault", "pop", "popitem", "remove", "discard", "clear", "sort", "reverse",
             "appendleft", "__setitem__"}


def loop_carried(fn):
    """For every for/while loop of the real function `fn` (ordinals as in Interp.loop_ordinal): the local
    names through which one iteration can influence a later one -
      * names assigned in the body that may be read in the body before being (re)assigned in the same
        iteration (counters, previous-item variables, flags), and
      * names bound outside the loop on which the body calls a mutating method / stores an item AND which
        the body also reads otherwise (seen-sets, caches; pure accumulators that are only appended to are
        not reported).
    Returns {ordinal: sorted names}.  Conservative in both directions (syntactic); it documents what the
    generic-row rule assumes and is reported in the evidence, it is not an obligation."""
    import ast
    from .interp import func_ast
    node = func_ast(fn)
    out = {}
    k = 0
    for n in ast.walk(node):
        if isinstance(n, (ast.For, ast.While)):
            out[k] = sorted(_carried(n))
            k += 1
    return out


def _carried(loop):
    import ast
    body = loop.body
    target_names = {t.id for t in ast.walk(loop.target) if isinstance(t, ast.Name)} if isinstance(loop, ast.For) else set()
    stored, mutated, loads_other = set(), set(), set()
    comp_names = set()
    for st in body:
        for x in ast.walk(st):
            if isinstance(x, (ast.ListComp, ast.SetComp, ast.DictComp, ast.GeneratorExp)):
                for g in x.generators:
                    comp_names |= {t.id for t in ast.walk(g.target) if isinstance(t, ast.Name)}
    for st in body:
        for x in ast.walk(st):
            if isinstance(x, ast.Name) and isinstance(x.ctx, (ast.Store, ast.Del)):
                stored.add(x.id)
            if isinstance(x, ast.Call) and isinstance(x.func, ast.Attribute) and x.func.attr in _MUTATORS and isinstance(x.func.value, ast.Name):
                mutated.add(x.func.value.id)
            if isinstance(x, (ast.Subscript, ast.Attribute)) and isinstance(x.ctx, (ast.Store, ast.Del)) and isinstance(x.value, ast.Name):
                mutated.add(x.value.id)
            if isinstance(x, ast.AugAssign) and isinstance(x.target, ast.Name):
                stored.add(x.target.id)
    # reads that are not the receiver of a mutating call
    receivers = set()
    for st in body:
        for x in ast.walk(st):
            if isinstance(x, ast.Call) and isinstance(x.func, ast.Attribute) and x.func.attr in _MUTATORS and isinstance(x.func.value, ast.Name):
                receivers.add(id(x.func.value))
    for st in body:
        for x in ast.walk(st):
            if isinstance(x, ast.Name) and isinstance(x.ctx, ast.Load) and id(x) not in receivers:
                loads_other.add(x.id)
    carried = set()
    # (1) read-before-write of a name assigned in the body
    assigned = set(target_names)

    def scan(stmts, assigned):
        for st in stmts:
            if isinstance(st, (ast.If,)):
                for x in ast.walk(st.test):
                    if isinstance(x, ast.Name) and isinstance(x.ctx, ast.Load) and x.id in stored and x.id not in assigned:
                        carried.add(x.id)
                a1 = scan(st.body, set(assigned))
                a2 = scan(st.orelse, set(assigned))
                assigned = a1 & a2
                continue
            if isinstance(st, (ast.For, ast.While, ast.Try, ast.With)):
                inner = set(assigned)
                for x in ast.walk(st):
                    if isinstance(x, ast.Name) and isinstance(x.ctx, ast.Load) and x.id in stored and x.id not in inner:
                        # may be assigned earlier inside the compound statement: only flag when never assigned before in it
                        first_store = min([y.lineno * 10000 + y.col_offset for y in ast.walk(st) if isinstance(y, ast.Name) and isinstance(y.ctx, ast.Store) and y.id == x.id] or [10 ** 12])
                        if x.lineno * 10000 + x.col_offset < first_store:
                            carried.add(x.id)
                continue
            # simple statement: loads happen before the stores of the same statement (AugAssign loads its target)
            if isinstance(st, ast.AugAssign) and isinstance(st.target, ast.Name) and st.target.id not in assigned:
                carried.add(st.target.id)
            val = getattr(st, "value", None)
            for part in ([val] if val is not None else []) + ([st] if not isinstance(st, (ast.Assign, ast.AugAssign, ast.AnnAssign)) else []):
                for x in ast.walk(part):
                    if isinstance(x, ast.Name) and isinstance(x.ctx, ast.Load) and x.id in stored and x.id not in assigned:
                        carried.add(x.id)
            for x in ast.walk(st):
                if isinstance(x, ast.Name) and isinstance(x.ctx, ast.Store):
                    assigned.add(x.id)
        return assigned
    scan(body, assigned)
    # (2) containers bound outside the loop, mutated and also read in the body
    for name in mutated:
        if name not in stored and name not in target_names and name in loads_other:
            carried.add(name)
    return carried - comp_names - {"self"}


# --------------------------------------------------------------------------------------
# a property's check discharges, itself, the contracts it ASSUMES from another property's check
# --------------------------------------------------------------------------------------
class RenamedUnit(object):
    """proxy of a runner.Unit that files every obligation `<src>.xyz` as `<dst>.xyz`: lets the check of one property run the
    unit of another property whose contract it relies on (the obligations are generated and discharged again, on the same
    real functions; only their ids differ)"""

    def __init__(self, U, src, dst):
        object.__setattr__(self, "_U", U)
        object.__setattr__(self, "_src", src)
        object.__setattr__(self, "_dst", dst)

    def _r(self, oid):
        return self._dst + oid[len(self._src):] if isinstance(oid, str) and oid.startswith(self._src + ".") else oid

    def __getattr__(self, k):
        return getattr(self._U, k)

    def __setattr__(self, k, v):
        setattr(self._U, k, v)

    def prove(self, oid, *a, **k):
        return self._U.prove(self._r(oid), *a, **k)

    def cover(self, oid, *a, **k):
        return self._U.cover(self._r(oid), *a, **k)

    def bounded_result(self, oid, *a, **k):
        return self._U.bounded_result(self._r(oid), *a, **k)


def dep_unit(module, unit_fn_name, src, dst, doc):
    """unit function that runs `props.<module>.<unit_fn_name>` with its obligations renamed from <src>.* to <dst>.*"""
    def unit(U):
        import importlib
        m = importlib.import_module("props." + module)
        getattr(m, unit_fn_name)(RenamedUnit(U, src, dst))
    unit.__doc__ = doc
    return unit


def require_loop_state(fn, expected, rule):
    """Side condition of the fold rule and of the generic-row rule, CHECKED on the real source: the loops of `fn` carry
    no local state from one iteration to the next other than the names in `expected` ({ordinal: names}; the state the
    unit's invariant speaks about / the state known to be harmless on the unchanged tree).  A loop that now carries a
    further name (a counter, a seen-set, a previous-item variable) is outside what the rule proves: the unit is then
    UNDECIDED (never a violation by itself - a violation needs a failing clause).  Call it at the END of the unit, so that
    clauses that fail with a replayed input are reported first.  The scan is syntactic (loop_carried)."""
    try:
        lc = loop_carried(fn)
    except Exception as e:         # source not available / not a plain function any more
        raise Undecided("%s: cannot scan the loops of %s (%s)" % (rule, getattr(fn, "__qualname__", fn), e))
    extra = []
    for k, names in lc.items():
        more = sorted(set(names) - set(expected.get(k, ())))
        if more:
            extra.append("loop %d carries %s" % (k, ", ".join(more)))
    if extra:
        raise Undecided("%s is not applicable to %s as it stands: %s (state carried between iterations that the invariant does not speak about)"
                        % (rule, getattr(fn, "__qualname__", fn), "; ".join(extra)))
    return lc
