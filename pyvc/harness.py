"""Helpers shared by the per-property harnesses: models, concretisation, path validation."""
import z3
from .core import Sym, SInt, SBool, SStr, SSet, SSeq, MSet, Lit, IntLit, Val, Rep, SetLit, SeqLit, Pct, Undecided


def model_of(constraints, rlimit=20000000):
    s = z3.Solver()
    s.set("rlimit", rlimit)
    s.add(*constraints)
    if s.check() != z3.sat:
        return None
    return s.model()


def ev(model, term):
    v = model.eval(term, model_completion=True)
    if z3.is_int_value(v):
        return v.as_long()
    if z3.is_true(v):
        return True
    if z3.is_false(v):
        return False
    if z3.is_string_value(v):
        return v.as_string()
    raise Undecided("cannot evaluate %s in model (got %s)" % (term, v))


def concretize(v, model, depth=0):
    """Engine value -> plain python value under a model."""
    if isinstance(v, SInt):
        return ev(model, v.e)
    if isinstance(v, SBool):
        return ev(model, v.e)
    if isinstance(v, SStr):
        out = []
        for a in v.atoms:
            if isinstance(a, Lit):
                out.append(a.s)
            elif isinstance(a, IntLit):
                out.append(str(ev(model, a.e)))
            elif isinstance(a, Val):
                out.append(ev(model, a.v))
            elif isinstance(a, SetLit):
                out.append(a.sep.join(map(str, sorted(concretize(a.sset, model)))))
            elif isinstance(a, SeqLit):
                out.append(a.sep.join(str(x) for x in concretize(a.seq, model)))
            elif isinstance(a, Pct):
                import gffutils.parser as P
                out.append("".join(P.quoter[c] for c in ev(model, a.u.v)))
            elif isinstance(a, Rep):
                n = ev(model, a.seq.length)
                out.append(a.sep.join([a.pattern] * n))
            else:
                raise Undecided("concretize atom %r" % (a,))
        return "".join(out)
    if isinstance(v, MSet):
        s = set(set.__iter__(v))
        for lo, hi in v.ranges:
            l, h = ev(model, lo), ev(model, hi)
            if h - l > 200000:
                raise Undecided("range too large to concretise")
            s.update(range(l, h + 1))
        return s
    if isinstance(v, SSet):
        if v.witness is None:
            raise Undecided("abstract set without witness function")
        return v.witness(model)
    if isinstance(v, SSeq) and v.kind == "setlist":
        from .models import seq_witness
        w = seq_witness(v)
        if w is None:
            raise Undecided("abstract list without witness")
        return sorted(w(model))
    if isinstance(v, SSeq):
        n = ev(model, v.length)
        if n > 10000:
            raise Undecided("sequence too long to concretise")
        return [concretize(v.elem(z3.IntVal(i)), model) for i in range(n)]
    if isinstance(v, list):
        return [concretize(x, model) for x in v]
    if isinstance(v, tuple):
        return tuple(concretize(x, model) for x in v)
    if isinstance(v, dict):
        return {k: concretize(x, model) for k, x in v.items()}
    return v


def split_atoms(s, sep):
    """Structural split of a string with holes at the occurrences of `sep` inside literal atoms
    (post-processing of results by the harnesses; the caller guarantees holes exclude sep)."""
    from .core import mkstr
    s = SStr.of(s)
    pieces = [[]]
    for a in s.atoms:
        if isinstance(a, Lit):
            chunks = a.s.split(sep)
            pieces[-1].append(Lit(chunks[0]))
            for c in chunks[1:]:
                pieces.append([Lit(c)])
        else:
            pieces[-1].append(a)
    return [mkstr(SStr(p)) for p in pieces]


def install_loop_body_hook(it, func_name, ordinal, setup):
    """Fold rule (DESIGN.md 2.3 d): when the interpreter reaches loop `ordinal` of function
    `func_name`, `setup(env, ctx, iterable)` havocs the loop-carried variables and returns the
    item to bind; the body is executed exactly once; execution then stops with LoopExit carrying
    the environment after the body and how the body ended ('next' | 'continue' | 'break')."""
    from .interp import LoopExit, _Continue, _Break, _Return
    from .core import Ctx

    def hook(interp, env, node, iterable):
        ctx = Ctx.current
        item = setup(env, ctx, iterable)
        interp.assign(node.target, item, env)
        kind = "next"
        try:
            interp.exec_block(node.body, env)
        except _Continue:
            kind = "continue"
        except _Break:
            kind = "break"
        except _Return as r:
            kind = "return"
        raise LoopExit(env, kind)
    it.loop_hooks[(func_name, ordinal)] = hook
