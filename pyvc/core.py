"""pyvc core: symbolic values, path context with decision replay, path exploration.

Design (DESIGN.md section 2): every symbolic branch consults a decision vector; after
a path ends the last open decision is flipped and the function is re-executed from
the start.  No state copying; infeasible successors are pruned by a solver call.
"""
import itertools
import z3


class EngineSignal(BaseException):
    """Base of everything the engine raises that interpreted code must never catch."""


class Undecided(EngineSignal):
    """Construct outside the supported subset / abstraction too coarse: exit code 2."""


class PathLimit(EngineSignal):
    pass


class Infeasible(EngineSignal):
    """An assumption made the current path infeasible; the path is dropped."""


# --------------------------------------------------------------------------------------
# symbolic values
# --------------------------------------------------------------------------------------
_NATIVE_API = frozenset(n for t in (str, int, list, set, dict, tuple, bytes) for n in dir(t) if not n.startswith("_"))


class Sym(object):
    """Base class.  Native Python code must never inspect a symbolic value."""
    __slots__ = ()

    def _native(self, *a, **k):
        raise Undecided("native inspection of symbolic value %r" % (self,))

    __bool__ = __len__ = __iter__ = __int__ = __index__ = _native
    __lt__ = __le__ = __gt__ = __ge__ = __contains__ = _native

    def __getattr__(self, name):
        # natively executed code asking a symbolic value for a method of the python type it stands for (s.startswith,
        # n.bit_length, xs.append ...): the answer is unknown to it - undecided, never an AttributeError of the code
        if name in _NATIVE_API:
            raise Undecided("native attribute access .%s on the symbolic value %r" % (name, self))
        raise AttributeError(name)

    # While the interpreter runs a NATIVE operation on behalf of the interpreted code (STRICT > 0), python's own
    # machinery must not compare or hash a symbolic value: identity is not equality there (a dict lookup with a key
    # holding a symbolic string would silently miss).  Outside (engine and unit code) == is identity.
    STRICT = 0

    def __eq__(self, other):
        if self is other:
            return True
        if Sym.STRICT:
            raise Undecided("native comparison with the symbolic value %r" % (self,))
        return False

    def __ne__(self, other):
        return not self.__eq__(other)

    def __hash__(self):
        if Sym.STRICT:
            raise Undecided("native hashing of the symbolic value %r" % (self,))
        return id(self)


class SInt(Sym):
    __slots__ = ("e",)

    def __init__(self, e):
        self.e = z3.simplify(e) if not z3.is_const(e) else e

    def __repr__(self):
        return "SInt(%s)" % self.e


class SBool(Sym):
    __slots__ = ("e",)

    def __init__(self, e):
        self.e = e

    def __repr__(self):
        return "SBool(%s)" % self.e


class SSet(Sym):
    """Abstract finite set of ints: membership predicate + symbolic cardinality."""
    __slots__ = ("member", "card", "name", "witness")

    def __init__(self, member, card, name="set", witness=None):
        self.member = member      # python callable: z3 Int -> z3 Bool
        self.card = card          # z3 Int
        self.name = name
        self.witness = witness    # optional callable(model) -> concrete python set

    def __repr__(self):
        return "SSet(%s)" % self.name


class SSetStr(Sym):
    """set(...) of possibly-equal symbolic strings: only its members are known; order and
    cardinality are abstracted (1 <= card <= len(items) when non-empty)."""
    __slots__ = ("items",)

    def __init__(self, items):
        self.items = list(items)

    def __repr__(self):
        return "SSetStr(%d items)" % len(self.items)


class SSetOfSeq(Sym):
    """set(<abstract sequence of strings>): only its cardinality class is modelled (0, 1, several)"""
    __slots__ = ("seq",)

    def __init__(self, seq):
        self.seq = seq

    def __repr__(self):
        return "SSetOfSeq(%r)" % (self.seq,)


class SSeq(Sym):
    """Abstract finite sequence with symbolic length.  `elem` maps a z3 Int index to a
    value (Sym or concrete) ; `member` optionally gives membership for set-derived lists."""
    __slots__ = ("length", "elem", "name", "member", "kind", "rng", "src")

    def __init__(self, length, elem, name="seq", member=None, kind="list", rng=None, src=None):
        self.src = src            # kind == "map-tuple": (sequence mapped over, generic index, element at that index)
        self.length = length
        self.elem = elem
        self.name = name
        self.member = member
        self.kind = kind
        self.rng = rng            # (lo, hi) z3 ints for kind == "range": lo <= x < hi

    def __repr__(self):
        return "SSeq(%s,len=%s)" % (self.name, self.length)


# ---- strings with holes ---------------------------------------------------------------
class Atom(object):
    __slots__ = ()


class Lit(Atom):
    __slots__ = ("s",)

    def __init__(self, s):
        self.s = s

    def __repr__(self):
        return "Lit(%r)" % self.s


class IntLit(Atom):
    """Canonical decimal rendering of an integer expression (str(e))."""
    __slots__ = ("e",)

    def __init__(self, e):
        self.e = e

    def __repr__(self):
        return "IntLit(%s)" % self.e


class Val(Atom):
    """Opaque symbolic string.  excl: characters that cannot occur; nonempty flag;
    excl_first / excl_last: characters that cannot be first / last."""
    __slots__ = ("v", "excl", "nonempty", "excl_first", "excl_last", "tag")

    def __init__(self, v, excl=frozenset(), nonempty=False, excl_first=frozenset(),
                 excl_last=frozenset(), tag=None):
        self.v = v                # z3 String expr
        self.excl = frozenset(excl)
        self.nonempty = nonempty
        self.excl_first = frozenset(excl_first)
        self.excl_last = frozenset(excl_last)
        self.tag = tag

    def __repr__(self):
        return "Val(%s)" % self.v

    def light_constraints(self):
        """only what the solver needs for residual branch conditions; the character classes are
        used structurally (barrier rule) and need not burden the string solver"""
        return [z3.Length(self.v) > 0] if self.nonempty else []

    def constraints(self):
        cs = []
        for c in sorted(self.excl):
            cs.append(z3.Not(z3.Contains(self.v, z3.StringVal(c))))
        if self.nonempty:
            cs.append(z3.Length(self.v) > 0)
        for c in sorted(self.excl_first - self.excl):
            cs.append(z3.Not(z3.PrefixOf(z3.StringVal(c), self.v)))
        for c in sorted(self.excl_last - self.excl):
            cs.append(z3.Not(z3.SuffixOf(z3.StringVal(c), self.v)))
        return cs


class Pct(Atom):
    """pct(u): the string obtained from the decoded value u (a Val) by replacing every reserved
    character c by '%XX' (parser.quoter[c]) - justified char by char by the exhaustive lemma
    C08.quoter.char on the real parser.quoter."""
    __slots__ = ("u",)

    def __init__(self, u):
        self.u = u            # a Val

    def __repr__(self):
        return "Pct(%s)" % self.u.v


class SChar(Sym):
    """an arbitrary character of the symbolic string held by Val v (comprehension over characters)"""
    __slots__ = ("v",)

    def __init__(self, v):
        self.v = v


class QChar(Sym):
    """fobj[c] for an arbitrary character c of Val v"""
    __slots__ = ("fobj", "v")

    def __init__(self, fobj, v):
        self.fobj, self.v = fobj, v


class Rep(Atom):
    """sep.join(pattern for _ in seq): pattern is a concrete string."""
    __slots__ = ("pattern", "sep", "seq")

    def __init__(self, pattern, sep, seq):
        self.pattern, self.sep, self.seq = pattern, sep, seq

    def __repr__(self):
        return "Rep(%r,%r,%r)" % (self.pattern, self.sep, self.seq)


class SetLit(Atom):
    """sep.join(map(str, S)) for an abstract int set S."""
    __slots__ = ("sset", "sep")

    def __init__(self, sset, sep=","):
        self.sset, self.sep = sset, sep

    def __repr__(self):
        return "SetLit(%r)" % (self.sset,)


class SeqLit(Atom):
    """sep.join(map(str, Q)) for an abstract sequence Q of ints."""
    __slots__ = ("seq", "sep")

    def __init__(self, seq, sep=","):
        self.seq, self.sep = seq, sep

    def __repr__(self):
        return "SeqLit(%r)" % (self.seq,)


class SStr(Sym):
    """A string with holes: a sequence of atoms (adjacent literals merged)."""
    __slots__ = ("atoms",)

    def __init__(self, atoms):
        out = []
        for a in atoms:
            if isinstance(a, Lit):
                if a.s == "":
                    continue
                if out and isinstance(out[-1], Lit):
                    out[-1] = Lit(out[-1].s + a.s)
                    continue
            out.append(a)
        self.atoms = tuple(out)

    def __repr__(self):
        return "SStr(%s)" % (list(self.atoms),)

    @staticmethod
    def of(x):
        if isinstance(x, SStr):
            return x
        if isinstance(x, str):
            return SStr([Lit(x)])
        raise Undecided("not a string: %r" % (x,))

    def concrete(self):
        """Return the python str if no holes, else None."""
        if not self.atoms:
            return ""
        if len(self.atoms) == 1 and isinstance(self.atoms[0], Lit):
            return self.atoms[0].s
        return None

    def z3(self):
        """Lower to a z3 String expression (IntLit / Val / Lit only)."""
        parts = []
        for a in self.atoms:
            if isinstance(a, Lit):
                parts.append(z3.StringVal(a.s))
            elif isinstance(a, Val):
                parts.append(a.v)
            elif isinstance(a, IntLit):
                parts.append(z3.If(a.e >= 0, z3.IntToStr(a.e),
                                   z3.Concat(z3.StringVal("-"), z3.IntToStr(-a.e))))
            else:
                raise Undecided("cannot lower %r to a solver string" % (a,))
        if not parts:
            return z3.StringVal("")
        if len(parts) == 1:
            return parts[0]
        return z3.Concat(*parts)


def mkstr(x):
    """Normalise: an SStr without holes becomes a python str."""
    if isinstance(x, SStr):
        c = x.concrete()
        return c if c is not None else x
    return x


class MSet(set):
    """A real python set that may additionally contain symbolic integer ranges
    (lo <= x <= hi, z3 terms).  Created by the set() model so that in-place update() with a
    symbolic range (bins.bins) is expressible.  With no ranges it behaves as a plain set."""

    def __init__(self, *a):
        set.__init__(self, *a)
        self.ranges = []
        self.sitems = []          # symbolic strings added one by one; pairwise distinct (and distinct from
                                  # the concrete members) under the path condition, because add() branches

    def member(self, b):
        conds = [b == z3.IntVal(c) for c in sorted(x for x in set.__iter__(self) if isinstance(x, int))]
        conds += [z3.And(lo <= b, b <= hi) for lo, hi in self.ranges]
        return z3.Or(*conds) if conds else z3.BoolVal(False)


def is_sym(x):
    return isinstance(x, Sym) or (isinstance(x, MSet) and bool(x.ranges or x.sitems))


def has_sym(x, depth=3):
    if isinstance(x, Sym) or (isinstance(x, MSet) and (x.ranges or x.sitems)):
        return True
    if depth <= 0:
        return False
    if isinstance(x, (list, tuple, set, frozenset)):
        return any(has_sym(i, depth - 1) for i in x)
    if isinstance(x, dict):
        return any(has_sym(k, depth - 1) or has_sym(v, depth - 1) for k, v in x.items())
    return False


# --------------------------------------------------------------------------------------
# path context
# --------------------------------------------------------------------------------------
class Decision(object):
    __slots__ = ("value", "forced", "flipped", "label")

    def __init__(self, value, forced, flipped=False, label=None):
        self.value, self.forced, self.flipped, self.label = value, forced, flipped, label

    def __repr__(self):
        return "%s%s" % ("T" if self.value else "F", "!" if self.forced else ("'" if self.flipped else ""))


_fresh = itertools.count()


class Ctx(object):
    """State of one path: path condition, decision trace, effect log, obligations."""
    current = None

    def __init__(self, decisions=(), rlimit=2000000, max_decisions=400):
        self.replay = list(decisions)
        self.trace = []
        self.pc = []                 # list of z3 Bool
        self.solver = z3.Solver()
        self.solver.set("rlimit", rlimit)
        self.solver.set("timeout", 4000)      # feasibility checks only: 'unknown' counts as feasible (sound over-approximation)
        self.max_decisions = max_decisions
        self.effects = []            # ordered log of externally visible effects
        self.writes = []             # heap writes (obj, field)
        self.safety = []             # (label, z3 condition that must hold) collected on the path
        self.notes = []              # human-readable trace of branch labels
        self.solver_calls = 0
        self.assumed_models = set()  # names of library models used
        self.inlined = set()         # qualified names of functions interpreted
        self.generators = []         # interpreted generators created on this path (closed at path end)
        self.stash = {}              # harness objects created on this path (symbolic inputs, ghost state)
        self.truncated = 0           # >0: part of the input space of this path was cut off (bounded)

    # -- fresh symbols
    def fresh_int(self, name="i"):
        return z3.Int("%s!%d" % (name, next(_fresh)))

    def fresh_bool(self, name="b"):
        return z3.Bool("%s!%d" % (name, next(_fresh)))

    def fresh_str(self, name="s"):
        return z3.String("%s!%d" % (name, next(_fresh)))

    # -- assumptions
    def assume(self, cond, light=False):
        """light=True: the fact goes into the path condition (hypothesis of every obligation of the path)
        but not into the feasibility solver - used for string refinements, on which z3's sequence solver
        may not return within its budget.  Feasibility is then over-approximated, which is sound: an
        infeasible path only yields obligations with contradictory hypotheses."""
        if isinstance(cond, bool):
            if not cond:
                raise Infeasible()
            return
        if light:
            self.pc.append(cond)
            return
        cond = z3.simplify(cond)
        if z3.is_true(cond):
            return
        if z3.is_false(cond):
            raise Infeasible()
        self.pc.append(cond)
        self.solver.add(cond)

    def _sat(self, cond):
        self.solver.push()
        self.solver.add(cond)
        self.solver_calls += 1
        r = self.solver.check()
        self.solver.pop()
        return r != z3.unsat          # unknown counts as feasible (sound over-approximation)

    def branch_light(self, cond, label=None):
        """fork on cond WITHOUT asking the solver (both outcomes taken as feasible) and without adding it
        to the feasibility solver; see assume(light=True)"""
        i = len(self.trace)
        if i >= self.max_decisions:
            raise PathLimit("more than %d decisions on one path" % self.max_decisions)
        if i < len(self.replay):
            d = self.replay[i]
            d = Decision(d.value, d.forced, d.flipped, label)
        else:
            d = Decision(True, False, False, label)
        self.trace.append(d)
        self.pc.append(cond if d.value else z3.Not(cond))
        if label:
            self.notes.append("%s=%s" % (label, d.value))
        return d.value

    def branch(self, cond, label=None):
        """Return a python bool for the symbolic condition, forking the exploration."""
        if isinstance(cond, bool):
            return cond
        cond = z3.simplify(cond)
        if z3.is_true(cond):
            return True
        if z3.is_false(cond):
            return False
        i = len(self.trace)
        if i >= self.max_decisions:
            raise PathLimit("more than %d decisions on one path" % self.max_decisions)
        if i < len(self.replay):
            d = self.replay[i]
            d = Decision(d.value, d.forced, d.flipped, label)
        else:
            t = self._sat(cond)
            f = self._sat(z3.Not(cond))
            if t and f:
                d = Decision(True, False, False, label)
            elif t:
                d = Decision(True, True, False, label)
            elif f:
                d = Decision(False, True, False, label)
            else:
                raise Infeasible()
        self.trace.append(d)
        c = cond if d.value else z3.Not(cond)
        self.pc.append(c)
        self.solver.add(c)
        if label:
            self.notes.append("%s=%s" % (label, d.value))
        return d.value

    def must(self, cond):
        """True iff cond is valid under the path condition (no fork)."""
        if isinstance(cond, bool):
            return cond
        return not self._sat(z3.Not(cond))

    def may(self, cond):
        if isinstance(cond, bool):
            return cond
        return self._sat(cond)

    def effect(self, *e):
        self.effects.append(e)


class PathResult(object):
    __slots__ = ("pc", "kind", "value", "ctx", "index", "extra")

    def __init__(self, ctx, kind, value, index, extra=None):
        self.pc = list(ctx.pc)
        self.kind = kind             # "return" | "raise"
        self.value = value
        self.ctx = ctx
        self.index = index
        self.extra = extra

    def __repr__(self):
        return "<path %d %s %r | %s>" % (self.index, self.kind, self.value, ",".join(self.ctx.notes))


PATH_RESET_HOOKS = []     # callables run before every path: module-level state of the code under analysis is put back
PATH_END_HOOKS = []       # callables run when a path returns: each yields the names of module-level state that now differs


def explore(run, max_paths=5000, rlimit=2000000):
    """Enumerate all feasible paths of `run(ctx)`.  Interpreted exceptions (ordinary python
    exceptions raised by the code under analysis) are path outcomes of kind 'raise'."""
    decisions = []
    index = 0
    while True:
        ctx = Ctx(decisions, rlimit=rlimit)
        Ctx.current = ctx
        for hook in PATH_RESET_HOOKS:
            hook()
        try:
            try:
                v = run(ctx)
                ctx.module_changes = [c for hook in PATH_END_HOOKS for c in hook()]
                yield PathResult(ctx, "return", v, index)
                index += 1
            except Infeasible:
                pass
            except EngineSignal:
                raise
            except RecursionError:
                raise Undecided("recursion limit in interpreter")
            except Exception as e:          # exception raised by the code under analysis
                yield PathResult(ctx, "raise", e, index)
                index += 1
        finally:
            try:
                for g in list(ctx.generators):
                    try:
                        g.close()
                    except BaseException:
                        pass
            finally:
                Ctx.current = None
        if index > max_paths:
            raise PathLimit("more than %d paths" % max_paths)
        tr = ctx.trace
        while tr and (tr[-1].forced or tr[-1].flipped):
            tr.pop()
        if not tr:
            return
        last = tr[-1]
        tr[-1] = Decision(not last.value, False, True)
        decisions = tr
