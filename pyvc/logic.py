"""Dual-mode logic: the same specification text is evaluated on z3 terms (proof) and on
python values (replay, path validation, bounded stand-ins)."""
import z3
from .core import SInt, SBool, Sym


def _sym(*xs):
    return any(isinstance(x, (z3.ExprRef, Sym)) for x in xs)


def Z(x):
    """unwrap engine values to z3 / python"""
    if isinstance(x, (SInt, SBool)):
        return x.e
    return x


def zb(x):
    x = Z(x)
    if isinstance(x, bool):
        return z3.BoolVal(x)
    return x


def zi(x):
    x = Z(x)
    if isinstance(x, bool):
        return z3.IntVal(int(x))
    if isinstance(x, int):
        return z3.IntVal(x)
    return x


def And(*xs):
    xs = [Z(x) for x in xs]
    if _sym(*xs):
        return z3.And(*[zb(x) for x in xs])
    return all(xs)


def Or(*xs):
    xs = [Z(x) for x in xs]
    if _sym(*xs):
        return z3.Or(*[zb(x) for x in xs])
    return any(xs)


def Not(x):
    x = Z(x)
    if _sym(x):
        return z3.Not(x)
    return not x


def Implies(a, b):
    a, b = Z(a), Z(b)
    if _sym(a, b):
        return z3.Implies(zb(a), zb(b))
    return (not a) or b


def Iff(a, b):
    a, b = Z(a), Z(b)
    if _sym(a, b):
        return zb(a) == zb(b)
    return bool(a) == bool(b)


def Ite(c, a, b):
    c, a, b = Z(c), Z(a), Z(b)
    if _sym(c):
        if not _sym(a) and not _sym(b) and isinstance(a, bool):
            return z3.If(c, zb(a), zb(b))
        return z3.If(c, zi(a) if not isinstance(a, z3.ExprRef) else a, zi(b) if not isinstance(b, z3.ExprRef) else b)
    return a if c else b


def Eq(a, b):
    a, b = Z(a), Z(b)
    if _sym(a, b):
        return zi(a) == zi(b)
    return a == b


def shr(x, k):
    """x >> k (floor division by 2**k), dual mode."""
    x = Z(x)
    if _sym(x):
        return x / z3.IntVal(2 ** k)
    return x >> k


def Min(a, b):
    a, b = Z(a), Z(b)
    if _sym(a, b):
        return z3.If(zi(a) < zi(b), zi(a), zi(b))
    return min(a, b)


def Max(a, b):
    a, b = Z(a), Z(b)
    if _sym(a, b):
        return z3.If(zi(a) > zi(b), zi(a), zi(b))
    return max(a, b)
