"""Runs the units of one property, decides the verdict, writes evidence and replay files."""
import hashlib
import importlib
import json
import multiprocessing
import os
import random
import shutil
import subprocess
import sys
import tempfile
import time
import traceback

import z3

from .core import Ctx, EngineSignal, Undecided, PathLimit, explore
from .interp import Interp
from . import prove
from .prove import Oblig, Result, DISCHARGED, FAILED, UNKNOWN, ERROR

VERIF = os.path.dirname(os.path.dirname(os.path.abspath(__file__)))
REPO = "/repo"


class Unit(object):
    """Context handed to a unit function.  Everything recorded here is picklable."""

    def __init__(self, prop, name, tier, seed, known):
        self.prop, self.name, self.tier, self.seed = prop, name, tier, seed
        self.known = known
        self.rng = random.Random((seed, name).__repr__())
        self.results = []
        self.functions = set()       # qualified names of real functions interpreted / under contract
        self.models_used = set()
        self.paths = 0
        self.path_validations = 0
        self.solver_calls = 0
        self.bounded = []            # dicts describing bounded stand-ins
        self.samples = []
        self.notes = []
        self.preconditions = []
        self.truncated = 0
        self.module_changes = []     # module-level / class-level state of gffutils found changed at the end of a returning path

    failed = 0

    @property
    def thorough(self):
        return self.tier == "thorough"

    # -- symbolic exploration of a real function -------------------------------------------
    def explore(self, run, interp=None, max_paths=5000):
        out = []
        for p in explore(run, max_paths=max_paths):
            out.append(p)
            if p.kind == "return":
                for c in getattr(p.ctx, "module_changes", None) or []:
                    if c not in self.module_changes:
                        self.module_changes.append(c)
            self.functions |= p.ctx.inlined
            self.models_used |= p.ctx.assumed_models
            self.solver_calls += p.ctx.solver_calls
            self.truncated += p.ctx.truncated
        self.paths += len(out)
        if not out:
            raise Undecided("no feasible path (contradictory precondition?) in unit %s" % self.name)
        return out

    # -- obligations -------------------------------------------------------------------------
    def prove(self, oid, clause, hyps, goal, vars=None, replay=None, kind="vc", rlimit=20000000):
        ob = Oblig(oid, clause, hyps, goal, vars=vars, replay=replay, kind=kind)
        r = prove.discharge(ob, known=self.known, prop=self.prop, rlimit=rlimit)
        self.results.append(r)
        if r.status == prove.FAILED and not getattr(r, "known", None):
            self.failed += 1
            if self.failed >= MAX_FAILED_PER_UNIT:
                # a breaking change can multiply the paths of a unit (every refinement fork fails its clause);
                # the verdict is settled, further enumeration only costs time
                raise StopUnit("stopped after %d failed obligations" % self.failed)
        if len(self.samples) < 3 and r.status == DISCHARGED:
            self.samples.append({"obligation": oid, "clause": clause,
                                 "hyps": [str(h)[:300] for h in hyps[:6]], "goal": str(goal)[:600],
                                 "backend": r.backend, "time_s": round(r.time_s, 4)})
        return r

    def cover(self, oid, hyps, what):
        """Reachability / non-vacuity: hyps must be satisfiable."""
        s = z3.Solver()
        s.set("rlimit", 20000000)
        s.add(*hyps)
        r = s.check()
        st = DISCHARGED if r == z3.sat else (UNKNOWN if r == z3.unknown else FAILED)
        res = Result(oid, "cover: " + what, st, kind="cover")
        if st == FAILED:
            res.detail = "vacuous: hypothesis set unsatisfiable"
        self.results.append(res)
        return res

    def refuted(self, oid, hyps, goal, what):
        """Canary: an assertion that MUST fail (guards against contradictory hypotheses)."""
        st, be, m, secs = prove.check_valid(hyps, goal)
        res = Result(oid, "canary (must be refuted): " + what, DISCHARGED if st == FAILED else (UNKNOWN if st == UNKNOWN else FAILED),
                     be, secs, kind="canary")
        if st == DISCHARGED:
            res.detail = "canary was proved: hypotheses are contradictory"
        self.results.append(res)
        return res

    def validated(self, n=1):
        self.path_validations += n

    def engine_mismatch(self, oid, detail):
        self.results.append(Result(oid, "path validation", ERROR, detail=detail, kind="validation"))

    # -- bounded stand-ins ---------------------------------------------------------------------
    def bounded_result(self, oid, clause, scope, cases, failures, exhaustive=False, distinct=None, sample=None):
        """failures: list of dicts {case:…, expected:…, observed:…}"""
        fresh = []
        known_hits = []
        for f in failures:
            kf = self._known_case(oid, f)
            if kf:
                known_hits.append(kf)
            else:
                fresh.append(f)
        st = DISCHARGED if not fresh else FAILED
        r = Result(oid, clause, st, backend="native-bounded", kind="bounded", cases=cases)
        if known_hits:
            r.known = sorted(set(known_hits))
        if fresh:
            r.replay = {"violates": True, "inputs": fresh[0].get("case"), "expected": fresh[0].get("expected"),
                        "observed": fresh[0].get("observed"), "more_failures": len(fresh) - 1}
        self.results.append(r)
        self.bounded.append({"id": oid, "clause": clause, "scope": scope, "cases": cases,
                             "exhaustive": exhaustive, "distinct": distinct if distinct is not None else cases,
                             "failures": len(fresh), "known_finding_hits": len(known_hits),
                             "label": "bounded - not counted as proved", "sample": sample})
        return r

    def _known_case(self, oid, f):
        if not self.known:
            return None
        for e in self.known.matching(self.prop, oid):
            w = e.get("witness_py")
            if not w:
                continue
            try:
                if eval(w, {}, {"case": f.get("case"), "f": f}):
                    return e["what"]
            except Exception:
                continue
        return None


def _level_text(prop):
    """the claim as registered in MANIFEST.json (props/registry.py), so that evidence and manifest say the same thing"""
    try:
        from props import registry
        for c in registry.CHECKS:
            if c.get("property_id", c.get("id")) == prop:
                return c.get("text")
    except Exception:
        return None
    return None


MAX_FAILED_PER_UNIT = 40


class StopUnit(Exception):
    pass


def _run_unit(arg):
    prop, modname, uname, tier, seed = arg
    t0 = time.time()
    known = prove.KnownFindings(os.path.join(VERIF, "known_findings.jsonl"))
    U = Unit(prop, uname, tier, seed, known)
    status = "ok"
    err = None
    old_env, old_td = os.environ.get("TMPDIR"), tempfile.tempdir
    tmp = tempfile.mkdtemp(prefix="pyvc_%s_" % prop)
    os.environ["TMPDIR"] = tmp
    tempfile.tempdir = tmp
    # wall-clock budget per unit: a unit that does not come back (path explosion or a solver call that ignores its own
    # time-out on changed code) is UNDECIDED, never a hanging check
    budget = _unit_budget(tier)
    old_handler = None
    try:
        import signal as _signal
        import threading as _threading
        if _threading.current_thread() is _threading.main_thread():
            def _on_alarm(signum, frame):
                raise Undecided("unit time budget of %d s exceeded" % budget)
            old_handler = _signal.signal(_signal.SIGALRM, _on_alarm)
            _signal.alarm(budget)
    except Exception:
        old_handler = None
    try:
        mod = importlib.import_module(modname)
        fn = dict(mod.UNITS)[uname]
        fn(U)
        if U.paths:
            # generic frame condition of every symbolically executed call that returns: the module-level and class-level
            # state of gffutils (constants, switches, templates, class attributes) is what it was at import
            ch = list(U.module_changes)
            U.prove("%s.%s.module_state" % (prop, uname), "no returning path of this unit leaves module-level or class-level state of gffutils changed (constants, switches, SQL templates, class attributes)%s"
                    % ((": changed " + ", ".join(ch[:6])) if ch else ""), [], z3.BoolVal(not ch), {})
    except StopUnit as e:
        U.notes.append(str(e))
    except Undecided as e:
        status, err = "undecided", "%s" % (e,)
    except PathLimit as e:
        status, err = "undecided", "path limit: %s" % (e,)
    except EngineSignal as e:
        status, err = "crash", "engine signal escaped: %r" % (e,)
    except Exception:
        status, err = "crash", traceback.format_exc()
    finally:
        try:
            import signal as _signal
            _signal.alarm(0)
            if old_handler is not None:
                _signal.signal(_signal.SIGALRM, old_handler)
        except Exception:
            pass
        shutil.rmtree(tmp, ignore_errors=True)
        # a unit run in-process (single unit, --jobs 1) must not leave the removed directory as the temp dir
        if old_env is None:
            os.environ.pop("TMPDIR", None)
        else:
            os.environ["TMPDIR"] = old_env
        tempfile.tempdir = old_td
    return {
        "unit": uname, "status": status, "error": err, "wall_s": time.time() - t0,
        "results": [r.as_dict() for r in U.results], "functions": sorted(U.functions),
        "models_used": sorted(U.models_used), "paths": U.paths, "path_validations": U.path_validations,
        "solver_calls": U.solver_calls, "bounded": U.bounded, "samples": U.samples, "notes": U.notes,
        "preconditions": U.preconditions, "truncated": U.truncated,
    }


def repo_state():
    try:
        head = subprocess.run(["git", "-C", REPO, "rev-parse", "--short", "HEAD"], capture_output=True, text=True).stdout.strip()
        dirty = subprocess.run(["git", "-C", REPO, "status", "--porcelain", "--untracked-files=no"], capture_output=True, text=True).stdout.strip()
        return head + ("+dirty" if dirty else "")
    except Exception:
        return "unknown"


def source_hashes(functions):
    out = {}
    for q in functions:
        mod = q.split(":")[0]
        try:
            m = importlib.import_module(mod)
            out.setdefault(mod, hashlib.sha256(open(m.__file__, "rb").read()).hexdigest()[:12])
        except Exception:
            pass
    return out


def run_property(prop, tier="quick", seed=0, only_units=None, jobs=None):
    t0 = time.time()
    modname = "props.%s" % prop
    mod = importlib.import_module(modname)
    units = [u for u, _ in mod.UNITS if (not only_units or u in only_units)]
    if getattr(mod, "THOROUGH_ONLY", None) and tier != "thorough":
        units = [u for u in units if u not in mod.THOROUGH_ONLY]
    jobs = jobs or min(16, max(1, len(units)))
    args = [(prop, modname, u, tier, seed) for u in units]
    if jobs == 1 or len(units) == 1:
        outs = [_run_unit(a) for a in args]
    else:
        outs = _run_units(args, jobs, tier)
    return finish(prop, mod, tier, seed, outs, time.time() - t0)


def _unit_budget(tier):
    return int(os.environ.get("PYVC_UNIT_BUDGET", "0") or 0) or (3000 if tier == "thorough" else 300)


def _child(conn, arg):
    try:
        out = _run_unit(arg)
    except BaseException:
        out = {"unit": arg[2], "status": "crash", "error": traceback.format_exc(), "wall_s": 0.0, "results": [], "functions": [], "models_used": [],
               "paths": 0, "path_validations": 0, "solver_calls": 0, "bounded": [], "samples": [], "notes": [], "preconditions": [], "truncated": 0}
    try:
        conn.send(out)
    finally:
        conn.close()


def _run_units(args, jobs, tier):
    """one forked process per unit, at most `jobs` at a time.  The unit stops itself at its wall-clock budget (SIGALRM ->
    undecided); a unit that cannot even do that (stuck inside a solver call that ignores its own time-out) is KILLED a minute
    later and counts as undecided - a check never hangs."""
    ctxm = multiprocessing.get_context("fork")
    hard = _unit_budget(tier) + 60
    pending = list(enumerate(args))
    running = {}
    outs = [None] * len(args)

    def blank(arg, status, err, wall):
        return {"unit": arg[2], "status": status, "error": err, "wall_s": wall, "results": [], "functions": [], "models_used": [], "paths": 0,
                "path_validations": 0, "solver_calls": 0, "bounded": [], "samples": [], "notes": [], "preconditions": [], "truncated": 0}
    while pending or running:
        while pending and len(running) < jobs:
            i, a = pending.pop(0)
            rd, wr = ctxm.Pipe(duplex=False)
            pr = ctxm.Process(target=_child, args=(wr, a))
            pr.start()
            wr.close()
            running[i] = (pr, rd, a, time.time())
        done = []
        for i, (pr, rd, a, t0) in running.items():
            if rd.poll(0):
                try:
                    outs[i] = rd.recv()
                except EOFError:
                    outs[i] = blank(a, "crash", "unit process ended without a result (exit code %r)" % (pr.exitcode,), time.time() - t0)
                done.append(i)
            elif not pr.is_alive():
                if rd.poll(0.2):
                    continue
                outs[i] = blank(a, "crash", "unit process ended without a result (exit code %r)" % (pr.exitcode,), time.time() - t0)
                done.append(i)
            elif time.time() - t0 > hard:
                pr.terminate()
                pr.join(5)
                if pr.is_alive():
                    pr.kill()
                outs[i] = blank(a, "undecided", "unit killed after %d s (it did not stop at its time budget)" % int(time.time() - t0), time.time() - t0)
                done.append(i)
        for i in done:
            pr, rd, a, t0 = running.pop(i)
            pr.join(5)
            try:
                rd.close()
            except Exception:
                pass
        if not done:
            time.sleep(0.05)
    return outs


def load_ledger():
    p = os.path.join(VERIF, "obligations.lock.json")
    if os.path.exists(p):
        return json.load(open(p))
    return {}


def clause_id(oid):
    import re
    return re.sub(r"\[[^\]]*\]", "", oid.split("#")[0])


def finish(prop, mod, tier, seed, outs, wall):
    ledger = load_ledger().get(prop, {})
    known = prove.KnownFindings(os.path.join(VERIF, "known_findings.jsonl"))
    lines = []
    violations = []
    undecided = []
    crashes = []
    results = []
    for o in outs:
        if o["status"] == "undecided":
            undecided.append("unit %s: %s" % (o["unit"], o["error"]))
        elif o["status"] == "crash":
            crashes.append("unit %s: %s" % (o["unit"], o["error"]))
        for r in o["results"]:
            r["unit"] = o["unit"]
            results.append(r)
    for o in outs:
        if o.get("truncated"):
            undecided.append("unit %s: %d path(s) explored only up to a refinement bound (not a proof for this tree)" % (o["unit"], o["truncated"]))
    vcs = [r for r in results if r["kind"] in ("vc", "lemma")]
    aux = [r for r in results if r["kind"] in ("cover", "canary", "validation")]
    bnd = [r for r in results if r["kind"] == "bounded"]
    replay_dir = os.path.join(VERIF, "replays", prop)
    known_printed = set()

    def write_replay(r, suffix=None):
        os.makedirs(replay_dir, exist_ok=True)
        fn = os.path.join(replay_dir, r["oid"].replace("/", "_").replace(" ", "_")[:150] + ".json")
        rp = r.get("replay") or {}
        doc = {"property": prop, "obligation": r["oid"], "clause": r["clause"], "tree": repo_state(),
               "inputs": rp.get("inputs"), "call": rp.get("call"), "expected": rp.get("expected"),
               "observed": rp.get("observed"),
               "solver": {"backend": r["backend"], "result": "sat (obligation refuted)" if r["kind"] != "bounded" else "n/a (bounded native run)",
                          "model": r.get("model"), "time_s": r["time_s"]},
               "native_confirmed": bool(rp.get("violates")), "suffix": suffix,
               "replay_cmd": "./check %s --replay %s" % (prop, os.path.relpath(fn, VERIF))}
        json.dump(doc, open(fn, "w"), indent=1, default=str)
        return fn

    for r in vcs + bnd:
        if r.get("known"):
            for k in r["known"]:
                known_printed.add(k)
        if r["status"] == DISCHARGED:
            continue
        if r["status"] == FAILED:
            rp = r.get("replay") or {}
            if rp.get("violates"):
                fn = write_replay(r)
                violations.append((r, fn, None))
            elif clause_id(r["oid"]) in ledger:
                fn = write_replay(r, "no-failing-input-found")
                violations.append((r, fn, "no-failing-input-found"))
            else:
                undecided.append("obligation %s refuted by the solver but the model does not replay natively (%s) and the clause is not in the ledger" % (
                    r["oid"], (rp.get("error") or "clause true natively")))
        elif r["status"] == UNKNOWN:
            undecided.append("obligation %s: solver unknown/timeout" % r["oid"])
        else:
            crashes.append("obligation %s: %s" % (r["oid"], r.get("detail")))
    for r in aux:
        if r["status"] == DISCHARGED:
            continue
        if r["kind"] == "validation":
            crashes.append("path validation mismatch %s: %s" % (r["oid"], r.get("detail")))
        elif r["status"] == FAILED:
            crashes.append("vacuity guard %s failed: %s" % (r["oid"], r.get("detail")))
        else:
            undecided.append("guard %s undecided" % r["oid"])
    # ledger completeness: every clause that discharged on the pinned tree must still be generated
    seen = {clause_id(r["oid"]) for r in vcs + bnd}
    if ledger and not undecided and not crashes and not getattr(mod, "PARTIAL", False):
        missing = sorted(set(ledger) - seen)
        units_run = {o["unit"] for o in outs}
        missing = [m for m in missing if ledger[m].get("unit") in units_run and (tier == "thorough" or not ledger[m].get("thorough_only"))]
        if missing:
            undecided.append("clauses in the ledger were not generated by this run: %s" % ", ".join(missing[:8]))
    if not vcs and not bnd:
        crashes.append("no obligation was generated")

    # known findings: replay the stored witnesses
    kf_lines = []
    for e in known.entries:
        if e.get("kind") == "known" and e["property"] == prop:
            still = None
            rp = getattr(mod, "replay_known", None)
            if rp is not None:
                try:
                    still = rp(e)
                except Exception as ex:
                    still = None
                    undecided.append("stored witness of known finding %r could not be replayed: %s" % (e["what"], ex))
            if still is False:
                kf_lines.append("NOTE: known finding no longer reproduces (fixed upstream?): property=%s %s" % (prop, e["what"]))
            else:
                kf_lines.append("KNOWN-FINDING: property=%s %s" % (prop, e["what"]))

    n_ob = len(vcs)
    n_dis = sum(1 for r in vcs if r["status"] == DISCHARGED)
    bcases = sum(r.get("cases", 0) for r in bnd)
    level = mod.LEVEL
    functions = sorted(set(sum([o["functions"] for o in outs], [])) | set(getattr(mod, "FUNCTIONS", [])))
    models_used = sorted(set(sum([o["models_used"] for o in outs], [])))
    backends = {}
    for r in vcs:
        backends[r["backend"]] = backends.get(r["backend"], 0) + 1
    samples = sum([o["samples"] for o in outs], [])[:6]
    if not samples:
        samples = [{"obligation": r["oid"], "clause": r["clause"], "status": r["status"]} for r in (vcs + bnd)[:3]]
    for v, fn, suf in violations[:3]:
        samples.append({"counterexample": v["oid"], "model": v.get("model"), "replay": v.get("replay")})
    cov = {
        "obligations": n_ob, "discharged": n_dis,
        "checker_cmd": "./check %s --tier %s" % (prop, tier),
        "trusted_base": list(getattr(mod, "TRUSTED", [])) + ["T1 pyvc symbolic semantics of the Python subset + library models used: " + ", ".join(models_used or ["none"]),
                                                             "T2 z3 %s (cvc5 1.0.3 for z3-unknown string VCs)" % z3.get_version_string()],
        "explanation": _level_text(prop) or mod.EXPLANATION,
        "evaluations": n_ob + bcases,
        "distinct_nontrivial": len({r["oid"] for r in vcs}) + sum(b.get("distinct", 0) for o in outs for b in o["bounded"]),
        "rule": "one obligation per (clause, feasible path of the real function, argument shape); bounded stand-ins enumerate the stated scope; distinct = distinct obligation ids + distinct bounded cases",
        "samples": samples,
        "exhaustive": False,
        "functions_under_contract": functions,
        "source_hashes": source_hashes(functions),
        "repo_tree": repo_state(),
        "paths_explored": sum(o["paths"] for o in outs),
        "path_validations": sum(o["path_validations"] for o in outs),
        "feasibility_solver_calls": sum(o["solver_calls"] for o in outs),
        "backends": backends,
        "solver_time_s": round(sum(r["time_s"] for r in vcs), 3),
        "guards": {"covers_and_canaries": len(aux), "failed": sum(1 for r in aux if r["status"] != DISCHARGED)},
        "bounded_standins": sum([o["bounded"] for o in outs], []),
        "bounded_cases": bcases,
        "known_findings_printed": sorted(known_printed),
        "preconditions": sorted(set(sum([o["preconditions"] for o in outs], []) + list(getattr(mod, "PRECONDITIONS", [])))),
        "undecided": undecided[:20], "crashes": [c[:2000] for c in crashes[:10]],
        "units": [{"unit": o["unit"], "status": o["status"], "wall_s": round(o["wall_s"], 2), "obligations": len([r for r in o["results"] if r["kind"] in ("vc", "lemma")])} for o in outs],
        "notes": sum([o["notes"] for o in outs], [])[:20],
    }
    ev = {"property_id": prop, "tier": tier, "seed": int(seed), "level": level, "coverage": cov,
          "assumptions": list(getattr(mod, "ASSUMPTIONS", [])), "wall_s": round(wall, 2),
          "violations": len(violations)}
    os.makedirs(os.path.join(VERIF, "evidence"), exist_ok=True)
    json.dump(ev, open(os.path.join(VERIF, "evidence", prop + ".json"), "w"), indent=1, default=str)

    # native replays may have left an unterminated progress line on stderr ("\r12 of 40 (30%)"): when both streams go
    # to one terminal or pipe, the verdict lines must still start at the beginning of a line
    try:
        sys.stdout.flush()
        sys.stderr.write("\n")
        sys.stderr.flush()
    except Exception:
        pass
    for l in kf_lines:
        print(l)
    for i, (v, fn, suf) in enumerate(violations):
        print("VIOLATION property=%s replay=%s%s" % (prop, os.path.relpath(fn, VERIF), (" " + suf) if suf else ""))
        if i < 4:
            print("  obligation %s: %s" % (v["oid"], v["clause"][:300]))
            if v.get("model"):
                print("  model: %s" % json.dumps(v["model"], default=str)[:500])
            if v.get("replay"):
                print("  replay: %s" % json.dumps(v["replay"], default=str)[:700])
    for u in undecided[:12]:
        print("UNDECIDED: " + u[:600])
    for c in crashes[:6]:
        print("CHECKER-ERROR: " + c[:3000])
    print("property=%s tier=%s obligations=%d discharged=%d bounded_cases=%d undecided=%d paths=%d wall=%.1fs" % (
        prop, tier, n_ob, n_dis, bcases, len(undecided), cov["paths_explored"], wall))
    if os.environ.get("PYVC_UPDATE_LEDGER") == "1":
        if violations or crashes or undecided:
            print("ledger NOT updated: the run is not green")
        else:
            full = load_ledger()
            cur = full.get(prop, {})
            if tier == "thorough":
                cur = {}
            for r in vcs + bnd:
                if r["status"] == DISCHARGED:
                    cid = clause_id(r["oid"])
                    e = cur.setdefault(cid, {"unit": r["unit"], "kind": r["kind"]})
                    if tier == "thorough" and cid not in quick_ids(prop):
                        e["thorough_only"] = True
            full[prop] = cur
            json.dump(full, open(os.path.join(VERIF, "obligations.lock.json"), "w"), indent=0, sort_keys=True)
            print("ledger updated: %d clauses for %s" % (len(cur), prop))
    if violations:
        return 1
    if crashes:
        return 3
    if undecided:
        return 2
    return 0


def quick_ids(prop):
    p = os.path.join(VERIF, ".ledger_quick_%s.json" % prop)
    if os.path.exists(p):
        return set(json.load(open(p)))
    return set()
