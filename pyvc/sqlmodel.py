"""SQL model (DESIGN.md 2.4, trusted part T3, assumed contract A-S1 on sqlite3).

A statement reaching execute() is a string with holes (core.SStr) plus positional arguments.
It is parsed by a small lark grammar (holes are atoms) and translated into
  * for SELECT / DELETE / UPDATE: a *row predicate* over a symbolic row (three-valued logic,
    collapsed at the top: NULL => row not selected), optional join with `relations`,
    DISTINCT flag, ORDER BY term list, projected columns;
  * for INSERT: the row of values.
The same parsed statement can be evaluated on concrete rows, which is how the translation is
cross-validated against the real sqlite3 on every run (differential validation)."""
import re
import sqlite3

import lark
import z3

from .core import SStr, SInt, SBool, SSet, SSeq, Lit, IntLit, Val, Rep, SetLit, Sym, Undecided, MSet

GRAMMAR = r"""
start: select | delete | update | insert | noeffect

select: SELECT DISTINCT? sel_list FROM source join* where? order? limit?
limit: LIMIT expr (OFFSET expr)?
sel_list: sel_item ("," sel_item)*
sel_item: expr (AS NAME)?
source: NAME (AS? NAME)?                 -> src_table
      | "(" select ")" AS? NAME          -> src_sub
join: INNER? JOIN NAME (AS? NAME)? ON expr
where: WHERE expr
order: ORDER BY order_item ("," order_item)* DIRECTION?
order_item: expr

delete: DELETE FROM NAME where?
update: UPDATE NAME SET assign ("," assign)* where?
assign: NAME "=" expr
insert: INSERT (OR CONFLICT)? INTO NAME ("(" NAME ("," NAME)* ")")? VALUES "(" expr ("," expr)* ")"
noeffect: NOEFFECT

?expr: or_expr
?or_expr: and_expr (OR and_expr)*
?and_expr: not_expr (AND not_expr)*
?not_expr: NOT not_expr -> not_
         | cmp_expr
?cmp_expr: add_expr
         | add_expr CMP add_expr            -> cmp
         | add_expr IN "(" select ")"       -> in_select
         | add_expr IN "(" [expr ("," expr)*] ")" -> in_list
         | add_expr BETWEEN add_expr AND add_expr -> between
?add_expr: atom
         | add_expr ADDOP atom              -> arith
?atom: QMARK                               -> qmark
     | NAMEDPARAM                          -> named
     | HOLE                                -> hole
     | INT                                 -> int_
     | STRING                              -> str_
     | func
     | colref
     | "(" expr ")"
     | atom COLLATE NAME                   -> collate
func: NAME "(" [expr ("," expr)*] ")"
    | NAME "(" STAR ")"
colref: NAME ("." NAME)?

SELECT.2: /select\b/i
DISTINCT.2: /distinct\b/i
FROM.2: /from\b/i
JOIN.2: /join\b/i
INNER.2: /inner\b/i
BETWEEN.2: /between\b/i
STAR: "*"
ON.2: /on\b/i
WHERE.2: /where\b/i
ORDER.2: /order\b/i
BY.2: /by\b/i
AS.2: /as\b/i
AND.2: /and\b/i
OR.2: /or\b/i
NOT.2: /not\b/i
IN.2: /in\b/i
DELETE.2: /delete\b/i
UPDATE.2: /update\b/i
SET.2: /set\b/i
INSERT.2: /insert\b/i
INTO.2: /into\b/i
VALUES.2: /values\b/i
CONFLICT.2: /ignore\b|replace\b/i
DIRECTION.2: /asc\b|desc\b/i
LIMIT.2: /limit\b/i
OFFSET.2: /offset\b/i
COLLATE.2: /collate\b/i
NOEFFECT.3: /__NOEFFECT__/
CMP: "==" | "=" | "<=" | ">=" | "<>" | "!=" | "<" | ">"
ADDOP: "+" | "-"
QMARK: "?"
NAMEDPARAM: /:[A-Za-z_]+/
HOLE: /__H[ISR][0-9]+__/
INT: /[0-9]+/
STRING: /'[^']*'/
NAME: /(?!__H)[A-Za-z_][A-Za-z_0-9]*/
%import common.WS
%ignore WS
"""

_parser = lark.Lark(GRAMMAR, parser="earley", lexer="dynamic", maybe_placeholders=False)
_expr_parser = lark.Lark(GRAMMAR, parser="earley", lexer="dynamic", maybe_placeholders=False, start="expr")
_DDL = re.compile(r"^\s*CREATE\s+TABLE\s+(IF\s+NOT\s+EXISTS\s+)?(\w+)", re.I)
_NOEFFECT = re.compile(r"^\s*(PRAGMA|CREATE\s+INDEX|DROP\s+INDEX|ANALYZE|CREATE\s+UNIQUE\s+INDEX|SELECT\s+\w+\s+FROM\s+sqlite_master)\b", re.I)

FEATURE_COLS = ["id", "seqid", "source", "featuretype", "start", "end", "score", "strand", "frame",
                "attributes", "extra", "bin"]
INT_COLS = {"start", "end", "bin", "level", "n", "rowid", "file_order"}
TABLE_COLS = {
    "features": FEATURE_COLS + ["rowid"],
    "relations": ["parent", "child", "level"],
    "duplicates": ["idspecid", "newid"],
    "autoincrements": ["base", "n"],
    "directives": ["directive"],
    "meta": ["dialect", "version"],
}


class Stmt(object):
    """Parsed statement."""

    def __init__(self, text, holes, tree):
        self.text, self.holes, self.tree = text, holes, tree
        self.kind = tree.children[0].data if isinstance(tree.children[0], lark.Tree) else "noeffect"
        self.node = tree.children[0]

    def __repr__(self):
        return "<Stmt %s %r>" % (self.kind, self.text[:80])


def render(query):
    """SStr / str -> (text with hole tokens, {token: atom})."""
    if isinstance(query, str):
        return query, {}
    holes = {}
    out = []
    for a in query.atoms:
        if isinstance(a, Lit):
            out.append(a.s)
        else:
            k = {"IntLit": "I", "SetLit": "S", "Rep": "R"}.get(type(a).__name__)
            if k is None:
                raise Undecided("SQL text contains an opaque string hole: %r" % (a,))
            tok = "__H%s%d__" % (k, len(holes))
            holes[tok] = a
            out.append(" " + tok + " " if k != "I" else tok)
    return "".join(out), holes


_cache = {}


def parse(query):
    text, holes = render(query)
    norm = " ".join(text.split())
    if _NOEFFECT.match(norm):
        t = lark.Tree("start", [lark.Tree("noeffect", [])])
        return Stmt(norm, holes, t)
    m = _DDL.match(norm)
    if m and ";" not in norm.rstrip("; "):
        # one CREATE TABLE statement run on its own: kind "ddl" (creates the table; raises if it exists and no IF NOT EXISTS)
        t = lark.Tree("start", [lark.Tree("ddl", [lark.Token("NAME", m.group(2)), lark.Token("IFNOTEXISTS", "1" if m.group(1) else "")])])
        return Stmt(norm, holes, t)
    key = norm
    if key not in _cache:
        try:
            _cache[key] = _normalise_aliases(_parser.parse(norm))
        except lark.exceptions.LarkError as e:
            raise SQLSyntax("SQL outside the modelled subset or malformed: %r (%s)" % (norm[:200], str(e)[:200]))
    return Stmt(norm, holes, _cache[key])


def _normalise_aliases(tree):
    """`FROM features AS f ... f.start` -> `FROM features ... features.start`, per SELECT (sub-selects have their own
    scope but see the outer names, as in SQL).  Only when each table occurs once in that SELECT (no self-join):
    then an alias is a pure renaming.  Otherwise the tree is left as it is (and the alias stays unknown to the
    row environments, i.e. undecided)."""
    def walk(node, outer):
        if not isinstance(node, lark.Tree):
            return
        scope = dict(outer)
        if node.data == "select":
            tabs, al = [], {}
            for ch in node.children:
                if isinstance(ch, lark.Tree) and ch.data in ("src_table", "join"):
                    names = [x for x in ch.children if isinstance(x, lark.Token) and x.type == "NAME"]
                    tabs.append(str(names[0]))
                    if len(names) > 1:
                        al[str(names[1])] = (str(names[0]), ch, names[1])
            if len(set(tabs)) == len(tabs):
                for a, (t, ch, tok) in al.items():
                    scope[a] = t
                    ch.children = [x for x in ch.children if x is not tok and not (isinstance(x, lark.Token) and x.type == "AS")]
        elif node.data == "colref" and len(node.children) == 2 and str(node.children[0]) in scope:
            node.children[0] = lark.Token("NAME", scope[str(node.children[0])])
        for ch in node.children:
            walk(ch, scope)
    walk(tree, {})
    return tree


class SQLSyntax(Undecided):
    """The text is not SQL of the modelled subset (or is malformed).  An engine signal: interpreted code can
    never catch it; where a unit catches it explicitly it becomes a failed 'valid SQL' clause, anywhere else
    the unit is undecided."""


# --------------------------------------------------------------------------------------
# evaluation environments
# --------------------------------------------------------------------------------------
class V(object):
    """SQL value: (kind, term, null) with kind in {'int','text'}; term is a z3 term or python
    value; null is a z3 Bool / python bool."""
    __slots__ = ("kind", "term", "null")

    def __init__(self, kind, term, null=False):
        self.kind, self.term, self.null = kind, term, null


class TV(object):
    """three-valued truth: t (is true), f (is false)"""
    __slots__ = ("t", "f")

    def __init__(self, t, f):
        self.t, self.f = t, f


def _and(*xs):
    xs = [x for x in xs if x is not True]
    if any(x is False for x in xs):
        return False
    if not xs:
        return True
    if all(isinstance(x, bool) for x in xs):
        return all(xs)
    return z3.And(*[_zb(x) for x in xs])


def _or(*xs):
    xs = [x for x in xs if x is not False]
    if any(x is True for x in xs):
        return True
    if not xs:
        return False
    if all(isinstance(x, bool) for x in xs):
        return any(xs)
    return z3.Or(*[_zb(x) for x in xs])


def _not(x):
    if isinstance(x, bool):
        return not x
    return z3.Not(x)


def _zb(x):
    return z3.BoolVal(x) if isinstance(x, bool) else x


class RowEnv(object):
    """Binds table/alias names to symbolic or concrete rows: {alias: {col: V}}."""

    def __init__(self, rows, args, holes, named=None):
        self.rows = rows
        self.args = list(args)
        self.pos = 0
        self.holes = holes
        self.named = named or {}
        self.subselect = None      # callable(select_node, env) -> membership function
        self.side = []             # side conditions for the statement to be valid SQL

    def col(self, table, name):
        if table is not None:
            if table not in self.rows:
                raise Undecided("unknown table alias %s" % table)
            r = self.rows[table]
            if name not in r:
                raise SQLSyntax("no such column: %s.%s" % (table, name))
            return r[name]
        hits = [r[name] for r in self.rows.values() if name in r]
        if not hits:
            raise SQLSyntax("no such column: %s" % name)
        if len(hits) > 1 and not all(h is hits[0] for h in hits):
            raise SQLSyntax("ambiguous column name: %s" % name)
        return hits[0]

    def next_arg(self):
        if self.pos >= len(self.args):
            raise SQLArgs("Incorrect number of bindings supplied: statement needs more than %d" % len(self.args))
        a = self.args[self.pos]
        self.pos += 1
        return a


class SQLArgs(Exception):
    pass


def to_V(a):
    """python / engine value used as an SQL parameter -> V"""
    if a is None:
        return V("null", None, True)
    if isinstance(a, V):
        return a
    if isinstance(a, bool):
        return V("int", z3.IntVal(int(a)))
    if isinstance(a, int):
        return V("int", a)
    if isinstance(a, SInt):
        return V("int", a.e)
    if isinstance(a, str):
        return V("text", a)
    if isinstance(a, SStr):
        if len(a.atoms) == 1 and isinstance(a.atoms[0], IntLit):
            return V("numtext", a.atoms[0].e)       # canonical decimal text
        return V("text", a.z3())
    if isinstance(a, z3.ExprRef):
        return V("int" if a.sort() == z3.IntSort() else "text", a)
    raise Undecided("SQL parameter %r" % (a,))


def _term(v):
    t = v.term
    if isinstance(t, bool):
        return z3.BoolVal(t)
    if isinstance(t, int):
        return z3.IntVal(t)
    if isinstance(t, str):
        return z3.StringVal(t)
    return t


def _is_conc(*vs):
    return all(not isinstance(v.term, z3.ExprRef) and isinstance(v.null, bool) for v in vs)


def compare(op, a, b):
    """SQL comparison with affinity rules for the modelled cases -> TV"""
    if a.kind == "null" or b.kind == "null":
        return TV(False, False)
    ka, kb = a.kind, b.kind
    # integer-affinity column vs canonical decimal text: numeric comparison
    if ka == "numtext" and kb == "int":
        ka = "int"
    if kb == "numtext" and ka == "int":
        kb = "int"
    if ka == "numtext":
        raise Undecided("decimal text compared with %s" % kb)
    if kb == "numtext":
        raise Undecided("decimal text compared with %s" % ka)
    if ka != kb and _is_conc(a, b) and {ka, kb} == {"int", "text"}:
        # INTEGER-affinity column vs TEXT value: numeric affinity is applied to well-formed integer text;
        # otherwise INTEGER sorts before TEXT
        ia, ib = (a, b) if ka == "int" else (b, a)
        try:
            num = int(ib.term)
            wf = str(num) == ib.term.strip() or ib.term.strip().lstrip("+-").isdigit()
        except ValueError:
            wf = False
        if wf:
            nb = V("int", num, ib.null)
            return compare(op, a, nb) if ka == "int" else compare(op, nb, b)
        lt = ka == "int"           # a < b iff a is the integer
        nn = (not a.null) and (not b.null)
        r = {"=": False, "==": False, "!=": True, "<>": True, "<": lt, "<=": lt, ">": not lt, ">=": not lt}[op]
        return TV(nn and r, nn and not r)
    if ka != kb:
        raise Undecided("comparison between %s and %s" % (ka, kb))
    nn = _and(_not(a.null), _not(b.null))
    if _is_conc(a, b):
        x, y = a.term, b.term
        if ka == "text":
            x, y = x.encode("utf-8"), y.encode("utf-8")
        r = {"=": x == y, "==": x == y, "<": x < y, "<=": x <= y, ">": x > y, ">=": x >= y, "!=": x != y, "<>": x != y}[op]
        return TV(nn and r, nn and not r)
    x, y = _term(a), _term(b)
    if ka == "text" and op not in ("=", "==", "!=", "<>"):
        raise Undecided("ordering comparison of symbolic text")
    r = {"=": x == y, "==": x == y, "!=": x != y, "<>": x != y}.get(op)
    if r is None:
        r = {"<": x < y, "<=": x <= y, ">": x > y, ">=": x >= y}[op]
    return TV(_and(nn, r), _and(nn, _not(r)))


def eval_expr(n, env):
    """-> V (value) or TV (boolean)"""
    if isinstance(n, lark.Token):
        raise Undecided("unexpected token %r" % (n,))
    d = n.data
    c = n.children
    if d == "qmark":
        return to_V(env.next_arg())
    if d == "named":
        name = str(c[0])[1:]
        if name not in env.named:
            raise SQLArgs("You did not supply a value for binding %s" % name)
        return to_V(env.named[name])
    if d == "hole":
        a = env.holes[str(c[0])]
        if isinstance(a, IntLit):
            return V("int", a.e)
        if isinstance(a, Rep) and a.sep.strip().lower() == "or":
            # "<col> = ?" repeated once per element of an abstract sequence, joined by OR
            pt = _expr_parser.parse(a.pattern)
            if pt.data == "cmp" and str(pt.children[1]) in ("=", "==") and isinstance(pt.children[2], lark.Tree) and pt.children[2].data == "qmark":
                col = eval_expr(pt.children[0], env)
                nxt = env.next_arg()
                same_len = isinstance(nxt, Splice) and (nxt.seq.length is a.seq.length or z3.eq(nxt.seq.length, a.seq.length) or _must_equal(nxt.seq.length, a.seq.length))
                if not same_len:
                    raise SQLArgs("placeholder list and argument list out of lock-step")
                tv = member_seq(col, nxt.seq)
                # an empty sequence renders "( )": a syntax error in sqlite
                env.side.append(a.seq.length >= 1)
                return tv
        raise Undecided("hole %r in value position" % (a,))
    if d == "int_":
        return V("int", int(str(c[0])))
    if d == "str_":
        return V("text", str(c[0])[1:-1])
    if d == "colref":
        names = [str(x) for x in c]
        if len(names) == 2:
            return env.col(names[0], names[1])
        return env.col(None, names[0])
    if d == "arith":
        a, op, b = eval_expr(c[0], env), str(c[1]), eval_expr(c[2], env)
        if not isinstance(a, V) or not isinstance(b, V) or a.kind != "int" or b.kind != "int":
            raise Undecided("arithmetic on non-integers")
        null = _or(a.null, b.null)
        if _is_conc(a, b):
            return V("int", (a.term + b.term) if op == "+" else (a.term - b.term), null)
        return V("int", (_term(a) + _term(b)) if op == "+" else (_term(a) - _term(b)), null)
    if d == "cmp":
        a, op, b = eval_expr(c[0], env), str(c[1]), eval_expr(c[2], env)
        return compare(op, a, b)
    if d == "or_expr":
        parts = [as_tv(eval_expr(x, env)) for x in c if not isinstance(x, lark.Token)]
        return TV(_or(*[p.t for p in parts]), _and(*[p.f for p in parts]))
    if d == "and_expr":
        parts = [as_tv(eval_expr(x, env)) for x in c if not isinstance(x, lark.Token)]
        return TV(_and(*[p.t for p in parts]), _or(*[p.f for p in parts]))
    if d == "not_":
        p = as_tv(eval_expr(c[-1], env))
        return TV(p.f, p.t)
    if d == "in_list":
        a = eval_expr(c[0], env)
        items = [x for x in c[2:] if not isinstance(x, lark.Token)]
        if len(items) == 1 and isinstance(items[0], lark.Tree) and items[0].data == "hole":
            h = env.holes[str(items[0].children[0])]
            return in_hole(a, h, env)
        tvs = [compare("=", a, eval_expr(x, env)) for x in items]
        if not tvs:
            return TV(False, _not(a.null) if not isinstance(a.null, bool) else (not a.null))
        return TV(_or(*[t.t for t in tvs]), _and(*[t.f for t in tvs]))
    if d == "in_select":
        a = eval_expr(c[0], env)
        sel = [x for x in c if isinstance(x, lark.Tree) and x.data == "select"][0]
        if env.subselect is None:
            raise Undecided("sub-select without a relation model")
        return env.subselect(a, sel, env)
    if d == "between":
        # x BETWEEN lo AND hi  ==  x >= lo AND x <= hi   (SQL definition)
        ex = [x for x in c if not isinstance(x, lark.Token)]
        x, lo, hi = eval_expr(ex[0], env), eval_expr(ex[1], env), eval_expr(ex[2], env)
        p1, p2 = as_tv(compare(">=", x, lo)), as_tv(compare("<=", x, hi))
        return TV(_and(p1.t, p2.t), _or(p1.f, p2.f))
    if d == "func":
        raise Undecided("SQL function %s in a row predicate" % c[0])
    raise Undecided("SQL expression node %s" % d)


def in_hole(a, h, env):
    """col IN ( <hole> ) where hole is a SetLit (literal list of an abstract int set) or a Rep of '?'."""
    if isinstance(h, SetLit):
        s = h.sset
        m = s.member(_term(a)) if not isinstance(a.term, int) else s.member(z3.IntVal(a.term))
        nn = _not(a.null)
        return TV(_and(nn, m), _and(nn, _not(m)))
    if isinstance(h, Rep) and h.pattern.strip() == "?":
        seq = h.seq
        # consumes len(seq) arguments: the next argument must be the splice marker of this seq
        nxt = env.next_arg()
        if not (isinstance(nxt, Splice) and nxt.seq is seq):
            raise SQLArgs("placeholder list and argument list out of lock-step")
        return member_seq(a, seq)
    raise Undecided("IN (%r)" % (h,))


def _must_equal(x, y):
    """the two lengths are equal on every state of the current path (asked of the path's solver)"""
    from .core import Ctx
    c = Ctx.current
    try:
        return c is not None and c.must(x == y)
    except Exception:
        return False


class Splice(Sym):
    """Marks a run of len(seq) elements taken from an abstract sequence inside a concrete list
    (list.extend(<abstract sequence>)).  Consumed by the SQL argument matcher, by set(), len() and `in`;
    any other use of such a list (iteration, indexing, sorting) is undecided."""

    def __init__(self, seq):
        self.seq = seq


def member_seq(a, seq):
    """a == seq[i] for some i"""
    if seq.member is not None and a.kind == "int":
        m = seq.member(_term(a))
        nn = _not(a.null)
        return TV(_and(nn, m), _and(nn, _not(m)))
    i = z3.Int("i!%s" % seq.name)
    el = seq.elem(i)
    tv = compare("=", a, to_V(el))
    ex = z3.Exists([i], z3.And(i >= 0, i < seq.length, _zb(tv.t)))
    return TV(ex, _and(_not(a.null), z3.Not(ex)))


def as_tv(x):
    if isinstance(x, TV):
        return x
    if isinstance(x, V):
        # integer used as boolean
        if x.kind == "int":
            if _is_conc(x):
                return TV((not x.null) and x.term != 0, (not x.null) and x.term == 0)
            return TV(_and(_not(x.null), _term(x) != 0), _and(_not(x.null), _term(x) == 0))
    raise Undecided("non-boolean SQL expression used as a condition")


# --------------------------------------------------------------------------------------
# statement-level views
# --------------------------------------------------------------------------------------
class SelectInfo(object):
    def __init__(self):
        self.distinct = False
        self.columns = []        # list of (expr-node, alias)
        self.source = None       # ("table", name, alias) | ("sub", node, alias)
        self.joins = []          # [(table, on-node)]
        self.join_aliases = []   # alias of each join (== table name when none / rewritten)
        self.where = None
        self.order = []          # [expr-node]
        self.direction = None
        self.limit = None        # the LIMIT node, if any


def select_info(node, allow_limit=False):
    """allow_limit: a LIMIT clause truncates the row set, so every obligation that equates the selected
    rows with a specified set must not silently accept one; callers that only classify the statement
    (reads / frame conditions) pass allow_limit=True"""
    si = SelectInfo()
    for ch in node.children:
        if isinstance(ch, lark.Token):
            if ch.type == "DISTINCT":
                si.distinct = True
            continue
        if ch.data == "sel_list":
            for it in ch.children:
                ex = it.children[0]
                alias = str(it.children[-1]) if len(it.children) > 1 else None
                si.columns.append((ex, alias))
        elif ch.data == "src_table":
            names = [str(x) for x in ch.children if isinstance(x, lark.Token) and x.type == "NAME"]
            si.source = ("table", names[0], names[-1])
        elif ch.data == "src_sub":
            sub = [x for x in ch.children if isinstance(x, lark.Tree)][0]
            alias = [str(x) for x in ch.children if isinstance(x, lark.Token) and x.type == "NAME"][-1]
            si.source = ("sub", sub, alias)
        elif ch.data == "join":
            # INNER JOIN == JOIN; an alias has been rewritten to the table name by _normalise_aliases
            names_ = [str(x) for x in ch.children if isinstance(x, lark.Token) and x.type == "NAME"]
            name = names_[0]
            on = [x for x in ch.children if isinstance(x, lark.Tree)][0]
            si.joins.append((name, on))
            si.join_aliases.append(names_[-1])
        elif ch.data == "where":
            si.where = [x for x in ch.children if isinstance(x, lark.Tree)][0]
        elif ch.data == "order":
            for it in ch.children:
                if isinstance(it, lark.Tree):
                    si.order.append(it.children[0])
                elif it.type == "DIRECTION":
                    si.direction = str(it).upper()
        elif ch.data == "limit":
            si.limit = ch
    if si.limit is not None and not allow_limit:
        raise SQLSyntax("LIMIT clause: the statement returns a truncated row set, which no row-set specification allows")
    return si


def count_params(node):
    n = 0
    for t in node.scan_values(lambda v: isinstance(v, lark.Token) and v.type == "QMARK"):
        n += 1
    return n


def expr_text(node):
    """canonical text of an expression node (for ORDER BY term comparison)"""
    if isinstance(node, lark.Token):
        return str(node)
    if node.data == "colref":
        return ".".join(str(c) for c in node.children)
    if node.data == "arith":
        return "(%s %s %s)" % (expr_text(node.children[0]), node.children[1], expr_text(node.children[2]))
    if node.data == "hole":
        return str(node.children[0])
    if node.data in ("int_", "str_", "qmark", "named"):
        return str(node.children[0])
    if node.data == "func":
        # function names are case-insensitive; count(*) and count() are the same aggregate (rows of the result)
        args = [c for c in node.children[1:] if not (isinstance(c, lark.Token) and c.type == "STAR")]
        return "%s(%s)" % (str(node.children[0]).lower(), ",".join(expr_text(c) for c in args))
    return "%s[%s]" % (node.data, ",".join(expr_text(c) for c in node.children))


def select_cols(si):
    """canonical texts of the projected columns; in a single-table SELECT `<table>.<col>` and `<col>` name the same
    column, so the qualifier is dropped there"""
    out = []
    for c, _ in si.columns:
        t = expr_text(c)
        if not si.joins and si.source is not None and si.source[0] == "table" and t.startswith(si.source[1] + ".") and t.count(".") == 1:
            t = t.split(".", 1)[1]
        out.append(t)
    return out


def sym_row(table, prefix, nullable=("start", "end", "bin")):
    """A symbolic row of `table`: {col: V}; returns (row, vars dict)."""
    row, vars_ = {}, {}
    for col in TABLE_COLS[table]:
        nm = "%s.%s" % (prefix, col)
        if col in INT_COLS:
            t = z3.Int(nm)
            if col in nullable:
                nl = z3.Bool(nm + ".isnull")
                vars_[nm + ".isnull"] = nl
            else:
                nl = False
            row[col] = V("int", t, nl)
        else:
            t = z3.String(nm)
            row[col] = V("text", t, False)
        vars_[nm] = t
    if table == "features":
        row["file_order"] = row["rowid"]
    return row, vars_


def conc_row(table, values):
    """concrete row {col: python value} -> {col: V}"""
    row = {}
    for col in TABLE_COLS[table]:
        v = values.get(col)
        if col in INT_COLS:
            row[col] = V("int", v if v is not None else 0, v is None)
        else:
            row[col] = V("text", v if v is not None else "", v is None)
    if table == "features":
        row["file_order"] = row["rowid"]
    return row


def where_predicate(stmt_node_where, rows, args, holes, named=None, subselect=None):
    """Evaluate a WHERE/ON node; returns (is-true condition, env)"""
    env = RowEnv(rows, args, holes, named)
    env.subselect = subselect
    if stmt_node_where is None:
        return True, env
    tv = as_tv(eval_expr(stmt_node_where, env))
    return tv.t, env
