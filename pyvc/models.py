"""Library models: semantics of builtins / str / list / dict operations on symbolic operands.
Everything here is part of the trusted base T1 (DESIGN.md section 7); every model used on a
path is recorded in ctx.assumed_models and lands in the evidence."""
import ast
import builtins
import copy
import functools
import itertools
import operator
import types

import z3

from .core import (Ctx, Undecided, Sym, SInt, SBool, SStr, SSet, SSeq, Lit, IntLit, Val, Rep, Pct, SChar, QChar,
                   SetLit, SeqLit, MSet, SSetStr, SSetOfSeq, mkstr, has_sym, is_sym)

# builtins that only look at the *structure* of their (concrete) container arguments and never
# at the elements: safe to run natively even if elements are symbolic.
STRUCTURAL = {
    builtins.list, builtins.tuple, builtins.zip, builtins.enumerate, builtins.iter, builtins.next,
    builtins.reversed, builtins.id, builtins.type, builtins.callable, builtins.hasattr,
    builtins.vars, builtins.print, builtins.repr, builtins.dir, builtins.slice,
    itertools.chain, copy.copy,
}
STRUCTURAL_METHODS = {
    (list, "append"), (list, "extend"), (list, "pop"), (list, "insert"), (list, "copy"), (list, "reverse"),
    (list, "clear"),
    (dict, "items"), (dict, "keys"), (dict, "values"), (dict, "get"), (dict, "setdefault"), (dict, "pop"),
    (dict, "update"), (dict, "copy"), (dict, "clear"), (dict, "__contains__"),
    (tuple, "__len__"),
}


def _z(x):
    """python int/bool or SInt/SBool -> z3 term"""
    if isinstance(x, SInt) or isinstance(x, SBool):
        return x.e
    if isinstance(x, bool):
        return z3.BoolVal(x)
    if isinstance(x, int):
        return z3.IntVal(x)
    raise Undecided("cannot convert %r to a solver term" % (x,))


def _b(x):
    if isinstance(x, SBool):
        return x.e
    if isinstance(x, bool):
        return z3.BoolVal(x)
    raise Undecided("not a bool: %r" % (x,))


class BoundModel(object):
    """obj.method for a symbolic obj."""

    def __init__(self, models, obj, name):
        self.models, self.obj, self.name = models, obj, name

    def __repr__(self):
        return "<model %s.%s>" % (type(self.obj).__name__, self.name)


class Models(object):
    def __init__(self, interp):
        self.interp = interp
        self.table = {}
        self.register_defaults()

    @property
    def ctx(self):
        return self.interp.ctx

    def used(self, name):
        self.ctx.assumed_models.add(name)

    # ------------------------------------------------------------------ lookup / native
    def lookup(self, fn):
        if isinstance(fn, BoundModel):
            return lambda a, k: self.call_method(fn.obj, fn.name, a, k)
        try:
            m = self.table.get(fn)
        except TypeError:
            m = None
        if m is not None:
            return lambda a, k: m(*a, **k)
        if isinstance(fn, functools._lru_cache_wrapper):
            # functools.lru_cache: the wrapped function is interpreted once per distinct argument tuple and the SAME
            # result object is handed out again (that aliasing is the point of modelling it).  Concrete hashable
            # arguments are compared by value, symbolic ones by identity (two different symbolic strings that happen
            # to be equal miss the cache here: fewer hits than natively, never more).
            interp = self.interp

            def cached(a, k, fn=fn):
                def part(x):
                    if isinstance(x, SStr):
                        # structurally equal strings with holes are equal strings (same literals, same holes)
                        sig = []
                        for at in x.atoms:
                            if isinstance(at, Lit):
                                sig.append(("L", at.s))
                            elif isinstance(at, Val):
                                sig.append(("V", str(at.v)))
                            elif isinstance(at, Pct):
                                sig.append(("P", str(at.u.v)))
                            elif isinstance(at, IntLit):
                                sig.append(("I", str(at.e)))
                            else:
                                sig.append(("?", id(at)))
                        return ("sstr", tuple(sig))
                    if isinstance(x, Sym):
                        return ("sym", id(x))
                    try:
                        hash(x)
                        return ("val", type(x).__name__, x)
                    except TypeError:
                        raise TypeError("unhashable type: '%s'" % type(x).__name__)
                key = (id(fn), tuple(part(x) for x in a), tuple(sorted((kk, part(v)) for kk, v in k.items())))
                store = self.ctx.stash.setdefault("$lru_cache", {})
                if key not in store:
                    store[key] = interp.call(fn.__wrapped__, list(a), dict(k))
                    self.used("functools.lru_cache (same object returned for the same arguments)")
                return store[key]
            return cached
        if isinstance(fn, operator.itemgetter):
            keys = fn.__reduce__()[1]
            if len(keys) == 1:
                return lambda a, k: self.interp.getitem(a[0], keys[0])
            return lambda a, k: tuple(self.interp.getitem(a[0], kk) for kk in keys)
        if isinstance(fn, operator.attrgetter):
            names = fn.__reduce__()[1]
            if len(names) == 1 and "." not in names[0]:
                return lambda a, k: self.interp.getattr(a[0], names[0])
        if isinstance(fn, types.BuiltinMethodType) or isinstance(fn, types.MethodWrapperType):
            slf = getattr(fn, "__self__", None)
            name = getattr(fn, "__name__", None)
            if slf is not None and not isinstance(slf, types.ModuleType):
                if isinstance(slf, str) and name in _STR_METHODS:
                    return lambda a, k: self.str_method(slf, name, a, k)
                if isinstance(slf, (list, dict, set)) and name in ("extend", "update", "__iadd__", "sort", "index", "count", "remove", "__contains__", "add", "union", "intersection", "difference", "get", "setdefault", "pop"):
                    return lambda a, k: self.container_method(slf, name, a, k)
        return None

    def native_call(self, fn, args, kwargs):
        if has_sym(args, 2) or has_sym(kwargs, 2):
            ok = fn in STRUCTURAL or fn in self.interp.native_ok or getattr(getattr(fn, "__self__", None), "_pyvc_model", False) \
                or getattr(fn, "_pyvc_model", False)
            if not ok and isinstance(fn, (types.BuiltinMethodType, types.MethodWrapperType)):
                slf = getattr(fn, "__self__", None)
                for base in type(slf).__mro__:
                    if (base, fn.__name__) in STRUCTURAL_METHODS:
                        ok = True
                        break
            if not ok and isinstance(fn, type) and issubclass(fn, BaseException):
                ok = True
            if not ok:
                raise Undecided("no model for %r applied to symbolic arguments" % (fn,))
        if getattr(fn, "_pyvc_model", False) or getattr(getattr(fn, "__self__", None), "_pyvc_model", False) or isinstance(fn, (types.FunctionType, types.MethodType, type)):
            return fn(*args, **kwargs)              # harness / model code, python-level callables: not python's own machinery
        # a repository function handed to python's own machinery as a callback (itertools, functools.reduce, re.sub ...)
        # must still be INTERPRETED when that machinery calls it: running it natively would let it inspect symbolic values
        args = [self._callback(a) for a in args]
        kwargs = {k: self._callback(v) for k, v in kwargs.items()}
        Sym.STRICT += 1
        try:
            return fn(*args, **kwargs)
        finally:
            Sym.STRICT -= 1

    def _callback(self, a):
        f = a.__func__ if isinstance(a, types.MethodType) else a
        if isinstance(f, types.FunctionType) and not getattr(f, "_pyvc_model", False) and self.interp.should_interpret(f):
            interp = self.interp

            def cb(*x, **k):
                return interp.call(a, list(x), k)
            cb._pyvc_model = True
            cb.__wrapped__ = a
            cb.__name__ = getattr(f, "__name__", "callback")
            return cb
        return a

    # ------------------------------------------------------------------ truth / bool
    def truth(self, v, label=None):
        ctx = self.ctx
        if isinstance(v, SBool):
            return ctx.branch(v.e, label)
        if isinstance(v, SInt):
            return ctx.branch(v.e != 0, label)
        if isinstance(v, SStr):
            return self.str_nonempty(v, label)
        if isinstance(v, SSet):
            return ctx.branch(v.card > 0, label)
        if isinstance(v, SSeq):
            return ctx.branch(v.length > 0, label)
        raise Undecided("truth of %r" % (v,))

    def and_(self, a, b):
        if isinstance(a, Sym) or isinstance(b, Sym):
            return SBool(z3.And(_b(a), _b(b)))
        return a and b

    # ------------------------------------------------------------------ arithmetic
    def binop(self, op, a, b):
        if isinstance(a, (SInt, SBool)) or isinstance(b, (SInt, SBool)):
            if isinstance(a, (SInt, SBool, int)) and isinstance(b, (SInt, SBool, int)):
                return self.int_binop(op, a, b)
        if op is ast.Add and (isinstance(a, (SStr, str)) and isinstance(b, (SStr, str))):
            return self.concat([a, b])
        if op is ast.Mod and isinstance(a, (str, SStr)):
            return self.percent_format(a, b)
        if op is ast.Add and isinstance(a, list) and isinstance(b, list):
            return a + b
        if op is ast.Add and (isinstance(a, (list, SSeq)) and isinstance(b, (list, SSeq))):
            return self.seq_concat(a, b)
        if op is ast.Mult and isinstance(a, (str, list)) and isinstance(b, int):
            return a * b
        if op is ast.Mult and isinstance(b, list) and isinstance(a, SInt):
            a, b = b, a
        if op is ast.Mult and isinstance(a, list) and len(a) == 1 and isinstance(a[0], str) and isinstance(b, SInt):
            # [<constant>] * n  ==  [<constant> for _ in range(n)] : abstract sequence of that constant
            n = b.e if self.ctx.must(b.e >= 0) else z3.If(b.e > 0, b.e, z3.IntVal(0))
            return SSeq(n, a[0], name="const*n", kind="const")
        if op is ast.Add and (isinstance(a, str) != isinstance(b, str)) and (isinstance(a, (SInt, int)) or isinstance(b, (SInt, int))):
            raise TypeError("can only concatenate str (not \"int\") to str")
        if (a is None or b is None) and op in (ast.Add, ast.Sub, ast.Mult, ast.RShift, ast.LShift):
            raise TypeError("unsupported operand type(s): %r and %r" % (type(a).__name__, type(b).__name__))
        raise Undecided("binop %s on %r, %r" % (op.__name__, a, b))

    def int_binop(self, op, a, b):
        za = _int(a)
        zb = _int(b)
        if op is ast.Add:
            return SInt(za + zb)
        if op is ast.Sub:
            return SInt(za - zb)
        if op is ast.Mult:
            if isinstance(a, Sym) and isinstance(b, Sym):
                self.used("nonlinear-mult")
            return SInt(za * zb)
        if op in (ast.RShift, ast.LShift, ast.FloorDiv, ast.Mod):
            if isinstance(b, Sym):
                raise Undecided("symbolic shift/divisor")
            if op is ast.RShift:
                if b < 0:
                    raise ValueError("negative shift count")
                return SInt(za / z3.IntVal(2 ** b))       # floor division (positive divisor)
            if op is ast.LShift:
                if b < 0:
                    raise ValueError("negative shift count")
                return SInt(za * z3.IntVal(2 ** b))
            if b == 0:
                raise ZeroDivisionError("integer division or modulo by zero")
            if b < 0:
                raise Undecided("negative divisor")
            if op is ast.FloorDiv:
                return SInt(za / z3.IntVal(b))
            return SInt(za % z3.IntVal(b))
        raise Undecided("int binop %s" % op.__name__)

    def compare(self, op, a, b):
        # None comparisons
        if a is None or b is None:
            if op is ast.Eq:
                return False
            if op is ast.NotEq:
                return True
            raise TypeError("'%s' not supported between instances of '%s' and '%s'" % (
                _OPSYM[op], _tname(a), _tname(b)))
        if isinstance(a, (SInt, SBool, int)) and isinstance(b, (SInt, SBool, int)):
            za, zb = _int(a), _int(b)
            return SBool({ast.Eq: za == zb, ast.NotEq: za != zb, ast.Lt: za < zb, ast.LtE: za <= zb,
                          ast.Gt: za > zb, ast.GtE: za >= zb}[op])
        if isinstance(a, (SStr, str)) and isinstance(b, (SStr, str)):
            if op is ast.Eq:
                return self.str_eq(a, b)
            if op is ast.NotEq:
                r = self.str_eq(a, b)
                return SBool(z3.Not(r.e)) if isinstance(r, SBool) else (not r)
            # code-point lexicographic order (z3 str.< / str.<= ; same order as Python's str comparison)
            za = mkstr(a).z3() if isinstance(a, SStr) else z3.StringVal(a)
            zb = mkstr(b).z3() if isinstance(b, SStr) else z3.StringVal(b)
            self.used("string-order(z3 str.<, code-point lexicographic)")
            return SBool({ast.Lt: za < zb, ast.LtE: za <= zb, ast.Gt: zb < za, ast.GtE: zb <= za}[op])
        # mixed types: int vs str etc.
        if op is ast.Eq:
            if _kind(a) != _kind(b):
                return False
        if op is ast.NotEq:
            if _kind(a) != _kind(b):
                return True
        if op in (ast.Lt, ast.LtE, ast.Gt, ast.GtE) and _kind(a) != _kind(b):
            raise TypeError("'%s' not supported between instances of '%s' and '%s'" % (
                _OPSYM[op], _tname(a), _tname(b)))
        raise Undecided("compare %s on %r, %r" % (op.__name__, a, b))

    def compare_containers(self, op, a, b):
        if op not in (ast.Eq, ast.NotEq):
            raise Undecided("ordering of containers with symbolic members")
        if type(a) is not type(b) and not (isinstance(a, (list, tuple)) and type(a) is type(b)):
            if isinstance(a, (list, tuple, dict)) and isinstance(b, (list, tuple, dict)):
                r = False
                return r if op is ast.Eq else (not r)
        if isinstance(a, (list, tuple)) and isinstance(b, (list, tuple)):
            if len(a) != len(b):
                return op is ast.NotEq
            conj = []
            for x, y in zip(a, b):
                r = self.interp.compare(ast.Eq, x, y)
                conj.append(_b(r) if isinstance(r, (SBool, bool)) else _b(self.interp.truth(r)))
            e = z3.And(*conj) if conj else z3.BoolVal(True)
            return SBool(e if op is ast.Eq else z3.Not(e))
        raise Undecided("container comparison")

    def contains(self, container, item):
        ctx = self.ctx
        if isinstance(container, SSet):
            return SBool(container.member(_int(item)))
        if isinstance(container, MSet) and isinstance(item, (str, SStr)) and not container.ranges:
            # string members: concrete ones of the real set + the symbolic ones added on this path
            disj = []
            for x in sorted((m for m in set.__iter__(container) if isinstance(m, str))) + list(container.sitems):
                r = self.interp.compare(ast.Eq, item, x)
                if isinstance(r, SBool):
                    disj.append(r.e)
                elif r:
                    return True
            return SBool(z3.Or(*disj)) if disj else False
        if isinstance(container, MSet) and (container.ranges or isinstance(item, Sym)):
            return SBool(container.member(_int(item)))
        if isinstance(container, SSetStr) and isinstance(item, (str, SStr)):
            # set(<symbolic strings>): x is a member iff it equals one of the strings the set was built from
            return self.contains(list(container.items), item)
        if isinstance(container, SSeq):
            if container.member is not None:
                return SBool(container.member(_int(item)))
            raise Undecided("membership in abstract sequence")
        if isinstance(container, (list, tuple)):
            disj = []
            for x in container:
                if _is_splice(x):
                    if x.seq.member is None:
                        raise Undecided("membership in a list holding an abstract run")
                    disj.append(x.seq.member(_int(item)))
                    continue
                r = self.interp.compare(ast.Eq, item, x)
                if isinstance(r, SBool):
                    disj.append(r.e)
                elif r:
                    return True
            if not disj:
                return False
            return SBool(z3.Or(*disj))
        if isinstance(container, (str, SStr)) and isinstance(item, (str, SStr)):
            return self.str_contains(container, item)
        if isinstance(container, dict):
            if isinstance(item, Sym):
                if isinstance(item, SStr):
                    disj = []
                    for k in container:
                        if isinstance(k, (str, SStr)):
                            r = self.str_eq(item, k)
                            if isinstance(r, SBool):
                                disj.append(r.e)
                            elif r:
                                return True
                    return SBool(z3.Or(*disj)) if disj else False
                raise Undecided("symbolic key lookup")
            if has_sym(item, 2):
                # a tuple key with symbolic parts: membership among the (concrete) keys by component-wise equality
                return self.contains(list(container.keys()), item)
            return item in container
        if isinstance(container, (set, frozenset)) and isinstance(item, SStr):
            return self.contains(sorted(container, key=repr), item)
        if isinstance(container, (set, frozenset)) and isinstance(item, SInt):
            return self.contains(sorted(container, key=repr), item)
        if hasattr(container, "__next__") and not isinstance(container, (str, bytes)):
            # `x in <iterator>`: the iterator is advanced until an equal item is met (python semantics; it stays consumed)
            for y in self.interp.iterate(container):
                r = self.interp.compare(ast.Eq, item, y)
                if r is True or (isinstance(r, SBool) and self.ctx.branch(r.e, "in-iterator")):
                    return True
            return False
        if getattr(container, "_pyvc_model", False):
            return container.__contains__(item)
        f = getattr(type(container), "__contains__", None)
        if isinstance(f, types.FunctionType) and self.interp.should_interpret(f):
            return self.interp.call(f, [container, item], {})
        raise Undecided("membership of %r in %r" % (item, container))

    # ------------------------------------------------------------------ strings
    def to_str(self, v):
        if isinstance(v, (str, SStr)):
            return v
        if isinstance(v, SInt):
            return SStr([IntLit(v.e)])
        if isinstance(v, SBool):
            raise Undecided("str of symbolic bool")
        if isinstance(v, Sym):
            raise Undecided("str of %r" % (v,))
        tp = type(v)
        f = getattr(tp, "__str__", None)
        if isinstance(f, types.FunctionType) and self.interp.should_interpret(f):
            return self.interp.call(f, [v], {})
        if has_sym(v):
            raise Undecided("str of container with symbolic members")
        return str(v)

    def concat(self, parts):
        atoms = []
        for p in parts:
            if isinstance(p, str):
                atoms.append(Lit(p))
            elif isinstance(p, SStr):
                atoms.extend(p.atoms)
            else:
                raise Undecided("concat of %r" % (p,))
        return mkstr(SStr(atoms))

    def percent_format(self, fmt, arg):
        if isinstance(fmt, SStr):
            raise Undecided("%-format with symbolic format string")
        if isinstance(arg, tuple):
            args = list(arg)
        elif isinstance(arg, dict):
            raise Undecided("%-format with mapping")
        else:
            args = [arg]
        out = []
        i = 0
        n = 0
        while i < len(fmt):
            c = fmt[i]
            if c != "%":
                out.append(c)
                i += 1
                continue
            spec = fmt[i + 1] if i + 1 < len(fmt) else ""
            if spec == "%":
                out.append("%")
                i += 2
                continue
            if spec in ("s", "d", "r"):
                if n >= len(args):
                    raise TypeError("not enough arguments for format string")
                a = args[n]
                n += 1
                if spec == "d" and isinstance(a, (str, SStr)):
                    raise TypeError("%d format: a real number is required, not str")
                if spec == "r":
                    if has_sym(a):
                        raise Undecided("%r of symbolic")
                    out.append(repr(a))
                else:
                    out.append(self.to_str(a))
                i += 2
                continue
            # anything else: only if all concrete
            if has_sym(args):
                raise Undecided("format spec %%%s with symbolic argument" % spec)
            return fmt % arg
        if n != len(args):
            raise TypeError("not all arguments converted during string formatting")
        return self.concat(out)

    def str_format(self, fmt, args, kwargs):
        """str.format with {name}, {0}, {}, {name.attr}, {0.attr} fields (no format specs)."""
        import string
        out = []
        auto = 0
        for lit, field, spec, conv in string.Formatter().parse(fmt):
            out.append(lit)
            if field is None:
                continue
            if conv == "s" and not spec:
                conv = None                  # '{!s}' is str(x): what '{}' gives for the strings, numbers and None handled below
            if spec or conv:
                if has_sym(args) or has_sym(kwargs):
                    raise Undecided("format spec with symbolic arguments")
                return fmt.format(*args, **kwargs)
            first, rest = field, []
            # split attribute path
            parts = field.replace("[", ".[").split(".")
            first = parts[0]
            rest = parts[1:]
            if first == "":
                v = args[auto]
                auto += 1
            elif first.isdigit():
                v = args[int(first)]
            else:
                v = kwargs[first]
            for r in rest:
                if r.startswith("["):
                    k = r[1:-1]
                    v = self.interp.getitem(v, int(k) if k.isdigit() else k)
                else:
                    v = self.interp.getattr(v, r)
            out.append(self.to_str(v))
        return self.concat(out)

    def str_eq(self, a, b):
        a, b = mkstr(a), mkstr(b)
        if isinstance(a, str) and isinstance(b, str):
            return a == b
        sa, sb = SStr.of(a), SStr.of(b)
        r = _struct_eq(sa, sb)
        if r is not None:
            return r
        self.used("z3-strings")
        return SBool(sa.z3() == sb.z3())

    def str_nonempty(self, s, label=None):
        for a in s.atoms:
            if isinstance(a, Lit) and a.s:
                return True
            if isinstance(a, IntLit):
                return True
            if isinstance(a, Val) and a.nonempty:
                return True
            if isinstance(a, Pct) and a.u.nonempty:
                return True
        conds = []
        for a in s.atoms:
            if isinstance(a, Val):
                conds.append(z3.Length(a.v) > 0)
            elif isinstance(a, Pct):
                conds.append(z3.Length(a.u.v) > 0)
            elif isinstance(a, Rep):
                if a.pattern:
                    conds.append(a.seq.length > 0)
                else:
                    conds.append(a.seq.length > 1)
            elif isinstance(a, SetLit):
                conds.append(a.sset.card > 0)
            elif isinstance(a, SeqLit):
                conds.append(a.seq.length > 0)
        return self.ctx.branch(z3.Or(*conds) if conds else z3.BoolVal(False), label)

    def str_len(self, s):
        total = z3.IntVal(0)
        for a in s.atoms:
            if isinstance(a, Lit):
                total = total + len(a.s)
            elif isinstance(a, Val):
                total = total + z3.Length(a.v)
            elif isinstance(a, IntLit):
                self.used("z3-strings")
                total = total + z3.Length(SStr([a]).z3())
            elif isinstance(a, Pct):
                n = self.ctx.fresh_int("pctlen")
                self.ctx.assume(n >= z3.Length(a.u.v))          # escaping never shortens
                total = total + n
            else:
                raise Undecided("len of %r" % (a,))
        return SInt(total)

    def str_contains(self, hay, needle):
        hay, needle = mkstr(hay), mkstr(needle)
        if isinstance(needle, SStr):
            # symbolic needle: only for plain holes (no escaped parts), by z3's str.contains
            hs = SStr.of(hay)
            if all(isinstance(a, (Lit, Val, IntLit)) for a in needle.atoms) and all(isinstance(a, (Lit, Val, IntLit)) for a in hs.atoms):
                self.used("z3-strings")
                return SBool(z3.Contains(hs.z3(), needle.z3()))
            raise Undecided("symbolic needle")
        if isinstance(hay, str):
            return needle in hay
        r = self._occurs(hay, needle)
        if r is not None:
            return r
        self.used("z3-strings")
        return SBool(z3.Contains(hay.z3(), z3.StringVal(needle)))

    def _occurs(self, s, needle):
        """Structural: does `needle` occur in s?  True / False / None (unknown)."""
        if needle == "":
            return True
        for a in s.atoms:
            if isinstance(a, Lit) and needle in a.s:
                return True
        if self._barrier_ok(s, needle):
            return False
        return None

    def _barrier_ok(self, s, sep):
        """True if no occurrence of sep can overlap a hole of s (so all occurrences lie inside
        literal runs) and sep does not occur inside any non-literal atom."""
        atoms = s.atoms
        for i, a in enumerate(atoms):
            if isinstance(a, Lit):
                continue
            allowed = _allowed_fn(a)
            if allowed is None:
                return False
            if not any(allowed(ch, w) for ch in sep for w in ("first", "last", "any")):
                # no character of sep can occur in this hole at all; an empty hole joining two
                # literals is handled below for Val, impossible for the other atoms (non-empty
                # or separated renderings are checked by the caller's grammar)
                if isinstance(a, Val) and not a.nonempty:
                    left = atoms[i - 1].s if i > 0 and isinstance(atoms[i - 1], Lit) else ""
                    right = atoms[i + 1].s if i + 1 < len(atoms) and isinstance(atoms[i + 1], Lit) else ""
                    L = len(sep)
                    if L > 1 and sep in (left[-(L - 1):] + right[:L - 1]):
                        return False
                if isinstance(a, (Rep, SetLit)):
                    # may render as the empty string: adjacent literals could join
                    left = atoms[i - 1].s if i > 0 and isinstance(atoms[i - 1], Lit) else ""
                    right = atoms[i + 1].s if i + 1 < len(atoms) and isinstance(atoms[i + 1], Lit) else ""
                    L = len(sep)
                    if L > 1 and sep in (left[-(L - 1):] + right[:L - 1]):
                        return False
                continue
            # sep inside the hole or overlapping its borders: every alignment needs at least one
            # character of sep inside the hole; excluded if every char of sep is disallowed there
            # position-independent approximation: if ANY character of sep may appear in the hole,
            # check alignments more carefully
            first_ok = lambda ch: allowed(ch, "first")
            last_ok = lambda ch: allowed(ch, "last")
            any_ok = lambda ch: allowed(ch, "any")
            L = len(sep)
            left = atoms[i - 1].s if i > 0 and isinstance(atoms[i - 1], Lit) else ("" if i == 0 else None)
            right = atoms[i + 1].s if i + 1 < len(atoms) and isinstance(atoms[i + 1], Lit) else ("" if i + 1 == len(atoms) else None)
            # (1) sep entirely inside the hole
            if all(any_ok(ch) for ch in sep):
                return False
            # (2) sep = suffix-of-left ++ prefix-of-hole(…)
            for k in range(1, L):          # k chars from the left context, L-k from the hole (or beyond)
                if left is None:
                    return False
                if not left.endswith(sep[:k]) and not (len(left) < k and sep[:k].endswith(left) and i - 1 > 0):
                    continue
                rest = sep[k:]
                # rest starts at the first char of the hole
                if first_ok(rest[0]) and all(any_ok(ch) for ch in rest[1:]):
                    return False
                # hole could also be shorter than rest and continue into right literal: need every
                # char inside the hole allowed; conservative: if first char allowed -> not ok
                if first_ok(rest[0]):
                    return False
            # (3) sep = suffix-of-hole ++ prefix-of-right
            at_end = (i + 1 == len(atoms))
            for k in range(1, L):
                if at_end:
                    break                  # nothing follows the hole: an occurrence cannot run past the end
                if right is None:
                    return False
                need = sep[L - k:]
                if not right.startswith(need) and not (len(right) < k and need.startswith(right) and i + 2 < len(atoms)):
                    continue
                head = sep[:L - k]
                if last_ok(head[-1]):
                    return False
            # empty hole: left+right literal adjacency could form sep
            if isinstance(a, Val) and not a.nonempty and left is not None and right is not None:
                joined = left[-(L - 1):] + right[:L - 1] if L > 1 else ""
                if sep in joined:
                    return False
            if isinstance(a, (Rep, SetLit)):
                return False
        return True

    def str_split_ws(self, s, maxsplit):
        """s.split(None, maxsplit): holes before the last piece must exclude white space"""
        pieces = []
        cur = []
        atoms = list(s.atoms)
        i = 0
        while i < len(atoms):
            a = atoms[i]
            if maxsplit >= 0 and len(pieces) >= maxsplit:
                break
            if isinstance(a, Lit):
                j = 0
                txt = a.s
                while j < len(txt):
                    if maxsplit >= 0 and len(pieces) >= maxsplit:
                        break
                    if txt[j].isspace():
                        if cur:
                            pieces.append(cur)
                            cur = []
                        j += 1
                    else:
                        k = j
                        while k < len(txt) and not txt[k].isspace():
                            k += 1
                        cur.append(Lit(txt[j:k]))
                        j = k
                if j < len(txt):
                    atoms[i] = Lit(txt[j:])
                    break
                i += 1
            else:
                fn = _allowed_fn(a)
                if fn is None or any(fn(c, w) for c in _WS for w in ("first", "last", "any")):
                    raise Undecided("split(None): a hole may contain white space")
                cur.append(a)
                i += 1
        rest = atoms[i:]
        if maxsplit >= 0 and len(pieces) >= maxsplit:
            if cur:
                raise Undecided("split(None, n): internal state")
            tail = SStr(rest)
            tail = SStr.of(self.str_strip(tail, "lstrip", _WS)) if rest else SStr([])
            if tail.atoms:
                pieces.append(list(tail.atoms))
        else:
            if cur:
                pieces.append(cur)
        self.used("tmpl-split-whitespace")
        return [mkstr(SStr(p)) for p in pieces]

    def str_split(self, s, sep, maxsplit=-1):
        if sep is None and not isinstance(maxsplit, Sym):
            return self.str_split_ws(s, maxsplit)
        if isinstance(sep, SStr) or sep is None or isinstance(maxsplit, Sym) or not isinstance(maxsplit, int):
            raise Undecided("split with symbolic / default separator")
        if not self._barrier_ok(s, sep):
            s = self._refine_for_split(s, sep)
        self.used("tmpl-split-barrier")
        pieces = [[]]
        for a in s.atoms:
            if isinstance(a, Lit):
                chunks = a.s.split(sep)
                pieces[-1].append(Lit(chunks[0]))
                for c in chunks[1:]:
                    pieces.append([Lit(c)])
            else:
                pieces[-1].append(a)
        if maxsplit >= 0 and len(pieces) > maxsplit + 1:
            # the separator occurs only in literals (barrier rule), so the occurrences are known: cut at the first
            # `maxsplit` of them and leave the rest of the text in the last piece
            tail = list(pieces[maxsplit])
            for extra in pieces[maxsplit + 1:]:
                tail.append(Lit(sep))
                tail.extend(extra)
            pieces = pieces[:maxsplit] + [tail]
        return [mkstr(SStr(p)) for p in pieces]

    def str_rpartition(self, s, sep):
        """s.rpartition(c) for a one-character separator: (head, c, tail) of the LAST occurrence, ('', '', s) if there
        is none.  Atoms are visited from the right; a hole that may hold c forks (refinement): it holds none, or it
        is v1 ++ c ++ v2 with v2 free of c - then the last occurrence is found."""
        ctx = self.ctx
        atoms = list(s.atoms)
        for i in range(len(atoms) - 1, -1, -1):
            a = atoms[i]
            if isinstance(a, Lit):
                k = a.s.rfind(sep)
                if k >= 0:
                    head = atoms[:i] + ([Lit(a.s[:k])] if a.s[:k] else [])
                    tail = ([Lit(a.s[k + 1:])] if a.s[k + 1:] else []) + atoms[i + 1:]
                    return (mkstr(SStr(head)), sep, mkstr(SStr(tail)))
                continue
            fn = _allowed_fn(a)
            if fn is None:
                raise Undecided("rpartition(%r) on %r" % (sep, s))
            if not any(fn(sep, w) for w in ("first", "last", "any")):
                continue
            if not isinstance(a, Val):
                raise Undecided("rpartition(%r): separator may occur inside %r" % (sep, a))
            self.used("tmpl-split-refinement-fork")
            if ctx.branch(z3.Contains(a.v, z3.StringVal(sep)), "hole-contains-%r" % sep):
                v1, v2 = ctx.fresh_str("pre"), ctx.fresh_str("post")
                ctx.assume(a.v == z3.Concat(v1, z3.StringVal(sep), v2))
                ctx.assume(z3.Not(z3.Contains(v2, z3.StringVal(sep))))
                n1 = Val(v1, excl=a.excl, excl_first=a.excl_first, nonempty=False)
                n2 = Val(v2, excl=a.excl | {sep}, excl_last=a.excl_last, nonempty=False)
                for c in n1.constraints() + n2.constraints():
                    ctx.assume(c)
                return (mkstr(SStr(atoms[:i] + [n1])), sep, mkstr(SStr([n2] + atoms[i + 1:])))
            atoms[i] = Val(a.v, excl=a.excl | {sep}, nonempty=a.nonempty, excl_first=a.excl_first, excl_last=a.excl_last, tag=a.tag)
        return ("", "", mkstr(SStr(atoms)))

    def str_isdigit(self, s, name):
        """str.isdigit / isdecimal / isnumeric of a string with holes: an unknown truth value b constrained from both
        sides by what is certain in every Unicode version: all-ASCII-digit non-empty ==> b, and b ==> non-empty with no
        ASCII character other than a digit.  (Non-ASCII digits exist, so nothing more is claimed.)"""
        ctx = self.ctx
        t = s.z3()
        b = ctx.fresh_bool(name)
        digit = z3.Range("0", "9")
        ascii_other = z3.Union(z3.Range("\x00", "/"), z3.Range(":", "\x7f"))
        anyc = z3.Star(z3.AllChar(z3.ReSort(z3.StringSort())))
        ctx.assume(z3.Implies(z3.InRe(t, z3.Plus(digit)), b), light=True)
        ctx.assume(z3.Implies(b, z3.And(z3.Length(t) > 0, z3.Not(z3.InRe(t, z3.Concat(anyc, ascii_other, anyc))))), light=True)
        return SBool(b)

    def _refine_for_split(self, s, sep, budget=3):
        """Fork with a refinement (DESIGN.md 2.4b): a hole that may contain the single-character
        separator either does not contain it, or is v1 ++ sep ++ v2 with v1 free of sep."""
        if len(sep) != 1:
            raise Undecided("split(%r): separator may occur inside a hole of %r" % (sep, s))
        ctx = self.ctx
        for _ in range(budget + 1):
            if self._barrier_ok(s, sep):
                return s
            atoms = list(s.atoms)
            changed = False
            for i, a in enumerate(atoms):
                if isinstance(a, Val) and sep not in a.excl and _allowed_fn(a)(sep, "any"):
                    self.used("tmpl-split-refinement-fork")
                    if ctx.branch(z3.Contains(a.v, z3.StringVal(sep)), "hole-contains-%r" % sep):
                        v1, v2 = ctx.fresh_str("pre"), ctx.fresh_str("post")
                        ctx.assume(a.v == z3.Concat(v1, z3.StringVal(sep), v2))
                        ctx.assume(z3.Not(z3.Contains(v1, z3.StringVal(sep))))
                        n1 = Val(v1, excl=a.excl | {sep}, excl_first=a.excl_first, nonempty=False)
                        n2 = Val(v2, excl=a.excl, excl_last=a.excl_last, nonempty=False)
                        for c in n1.constraints() + n2.constraints():
                            ctx.assume(c)
                        atoms[i:i + 1] = [n1, Lit(sep), n2]
                    else:
                        atoms[i] = Val(a.v, excl=a.excl | {sep}, nonempty=a.nonempty, excl_first=a.excl_first, excl_last=a.excl_last, tag=a.tag)
                    changed = True
                    break
            if not changed:
                break
            s = SStr(atoms)
        if self._barrier_ok(s, sep):
            return s
        # budget exhausted: explore only strings with no further separator in the remaining holes
        # (bounded on this dimension; the path is marked truncated and never counts as proved)
        atoms = list(s.atoms)
        for i, a in enumerate(atoms):
            if isinstance(a, Val) and sep not in a.excl and _allowed_fn(a)(sep, "any"):
                ctx.assume(z3.Not(z3.Contains(a.v, z3.StringVal(sep))))
                atoms[i] = Val(a.v, excl=a.excl | {sep}, nonempty=a.nonempty, excl_first=a.excl_first, excl_last=a.excl_last, tag=a.tag)
        ctx.truncated += 1
        s = SStr(atoms)
        if self._barrier_ok(s, sep):
            return s
        raise Undecided("split(%r): separator may occur inside a hole of %r" % (sep, s))

    def str_method(self, s, name, args, kwargs):
        """str method where self and/or arguments may be symbolic."""
        s = mkstr(s)
        args = [mkstr(a) for a in args]
        if name == "join" and args and not isinstance(args[0], (list, tuple, SSeq, SSetStr, str, SStr, dict, set, frozenset)):
            args[0] = list(self.interp.iterate(args[0]))      # materialise iterators (map objects, generators)
        if isinstance(s, str) and not has_sym(args) and not has_sym(kwargs):
            return getattr(s, name)(*args, **kwargs)
        ctx = self.ctx
        if name == "format":
            return self.str_format(s, args, kwargs)
        if name == "join":
            return self.str_join(s, args[0])
        if name == "startswith":
            return self.str_startswith(s, args[0])
        if name == "endswith":
            return self.str_endswith(s, args[0])
        if name == "split":
            return self.str_split(SStr.of(s), *args, **kwargs)
        if name == "partition" and len(args) == 1 and isinstance(args[0], str) and args[0]:
            # s.partition(sep) == (head, sep, tail) of the first occurrence, (s, '', '') if there is none
            parts = self.str_split(SStr.of(s), args[0], 1)
            if isinstance(parts, list) and len(parts) == 2:
                return (parts[0], args[0], parts[1])
            if isinstance(parts, list) and len(parts) == 1:
                return (parts[0], "", "")
            raise Undecided("str.partition on a string with holes")
        if name in ("removeprefix", "removesuffix") and len(args) == 1 and isinstance(args[0], str):
            # s.removeprefix(p) == s[len(p):] if s.startswith(p) else s    (and the mirror image)
            pre = name == "removeprefix"
            if args[0] == "":
                return s
            r = self.str_startswith(s, args[0]) if pre else self.str_endswith(s, args[0])
            if not self.interp.truth(r, name) if isinstance(r, Sym) else not r:
                return s
            return self.getitem(s, slice(len(args[0]), None) if pre else slice(None, -len(args[0])))
        if name == "rpartition" and len(args) == 1 and isinstance(args[0], str) and len(args[0]) == 1 and isinstance(s, SStr):
            return self.str_rpartition(s, args[0])
        if name in ("isdigit", "isdecimal", "isnumeric") and not args and isinstance(s, SStr):
            return self.str_isdigit(s, name)
        if name == "count":
            if isinstance(s, str):
                raise Undecided("count with symbolic needle")
            if self._barrier_ok(s, args[0]):
                return sum(a.s.count(args[0]) for a in s.atoms if isinstance(a, Lit))
            raise Undecided("count: needle may occur in a hole")
        if name == "splitlines" and isinstance(s, SStr):
            breaks = "\n\r\x0b\x0c\x1c\x1d\x1e\x85\u2028\u2029"
            for a in s.atoms:
                if isinstance(a, Lit):
                    if any(c in a.s for c in breaks):
                        raise Undecided("splitlines: literal line break inside a string with holes")
                else:
                    fn = _allowed_fn(a)
                    if fn is None or any(fn(c, w) for c in breaks for w in ("first", "last", "any")):
                        raise Undecided("splitlines: a hole may contain a line break character")
            return [s]
        if name == "lower" and isinstance(s, SStr):
            raise Undecided("lower() of symbolic string")
        if name in ("rstrip", "strip", "lstrip"):
            return self.str_strip(SStr.of(s), name, args[0] if args else None)
        if name == "replace":
            old, new = args[0], args[1]
            if isinstance(old, SStr) or isinstance(new, SStr):
                raise Undecided("replace with symbolic pattern")
            if isinstance(s, SStr) and self._barrier_ok(s, old):
                return mkstr(SStr([Lit(a.s.replace(old, new)) if isinstance(a, Lit) else a for a in s.atoms]))
            raise Undecided("replace: pattern may occur in a hole")
        if name == "encode":
            raise Undecided("encode of symbolic string")
        raise Undecided("str.%s on symbolic operands" % name)

    def _strip_refine(self, atoms, idx, a, chars, where):
        """refinement fork for strip()/rstrip()/lstrip() with ONE stripped character ch at a hole that may
        begin/end with it: either the hole does not (class refined), or one ch is peeled off the hole
        (u = ch ++ u' / u' ++ ch) and stripping continues; after one peel the path is truncated (the rest is assumed not to begin/end with ch).
        For an escaped hole pct(u) this needs ch to be a character the quoter leaves alone and that
        cannot be part of an escape ('%', hex digits): then pct(u) begins/ends with ch <=> u does."""
        if len(chars) != 1:
            return None
        ch = chars
        if where == "first" and isinstance(a, Val):
            return None                      # handled by the older lstrip rule below
        u = a.u if isinstance(a, Pct) else a
        if isinstance(a, Pct) and (ch in reserved_chars() or ch == "%" or ch in "0123456789abcdefABCDEF"):
            return None
        if getattr(self, "_peel_budget", 1) <= 0:
            return None
        self.used("tmpl-strip-refinement-fork")
        lit = z3.StringVal(ch)
        cond = z3.SuffixOf(lit, u.v) if where == "last" else z3.PrefixOf(lit, u.v)
        wrap = (lambda v: Pct(v)) if isinstance(a, Pct) else (lambda v: v)
        if self.ctx.branch_light(cond, "hole-%s-is-%r" % (where, ch)):
            v2 = self.ctx.fresh_str("rest")
            self.ctx.assume(u.v == (z3.Concat(v2, lit) if where == "last" else z3.Concat(lit, v2)), light=True)
            self._peel_budget = getattr(self, "_peel_budget", 1) - 1
            if where == "last":
                nu = Val(v2, excl=u.excl, nonempty=False, excl_first=u.excl_first, tag=u.tag)
            else:
                nu = Val(v2, excl=u.excl, nonempty=False, excl_last=u.excl_last, tag=u.tag)
            if self._peel_budget == 0:
                self.ctx.assume(z3.Not(z3.SuffixOf(lit, v2) if where == "last" else z3.PrefixOf(lit, v2)), light=True)
                self.ctx.truncated += 1
                if where == "last":
                    nu = Val(v2, excl=u.excl, nonempty=False, excl_first=u.excl_first, excl_last=frozenset({ch}), tag=u.tag)
                else:
                    nu = Val(v2, excl=u.excl, nonempty=False, excl_first=frozenset({ch}), excl_last=u.excl_last, tag=u.tag)
            atoms[idx] = wrap(nu)
            return "continue"
        if where == "last":
            nu = Val(u.v, excl=u.excl, nonempty=u.nonempty, excl_first=u.excl_first, excl_last=u.excl_last | {ch}, tag=u.tag)
        else:
            nu = Val(u.v, excl=u.excl, nonempty=u.nonempty, excl_first=u.excl_first | {ch}, excl_last=u.excl_last, tag=u.tag)
        atoms[idx] = wrap(nu)
        if not nu.nonempty:
            return None                      # an empty hole exposes its neighbour: leave that to the rules below
        return "break"

    def str_strip(self, s, which, chars):
        self._lstrip_budget = 3
        self._peel_budget = 1
        if chars is None:
            chars = _WS
        atoms = list(s.atoms)
        if which in ("rstrip", "strip"):
            while atoms:
                a = atoms[-1]
                if isinstance(a, Lit):
                    t = a.s.rstrip(chars)
                    if t:
                        atoms[-1] = Lit(t)
                        break
                    atoms.pop()
                    continue
                if isinstance(a, IntLit):
                    if any(c in "0123456789-" for c in chars):
                        raise Undecided("strip digits")
                    break
                if isinstance(a, (Val, Pct)):
                    allowed = _allowed_fn(a)
                    nonempty_ = a.nonempty if isinstance(a, Val) else a.u.nonempty
                    if nonempty_ and not any(allowed(c, "last") for c in chars):
                        break
                    r = self._strip_refine(atoms, -1, a, chars, "last")
                    if r == "continue":
                        continue
                    if r == "break":
                        break
                    a = atoms[-1]
                    allowed = _allowed_fn(a)
                    nonempty_ = a.nonempty if isinstance(a, Val) else a.u.nonempty
                    if isinstance(a, Pct) and any(allowed(c, "last") for c in chars):
                        raise Undecided("strip: escaped hole may end with a stripped character")
                    if not any(allowed(c, "last") for c in chars):
                        # hole may be empty: if so the previous atom is exposed
                        if nonempty_ or len(atoms) == 1:
                            break
                        prev = atoms[-2]
                        if isinstance(prev, Lit) and prev.s and prev.s[-1] not in chars:
                            break           # even if the hole is empty, the exposed literal does not end with a stripped char
                        # fork on emptiness: an empty hole exposes its left neighbour
                        uu = a.u if isinstance(a, Pct) else a
                        self.used("tmpl-strip-empty-hole-fork")
                        if self.ctx.branch_light(z3.Length(uu.v) == 0, "hole-empty"):
                            atoms.pop()
                            continue
                        nu = Val(uu.v, excl=uu.excl, nonempty=True, excl_first=uu.excl_first, excl_last=uu.excl_last, tag=uu.tag)
                        atoms[-1] = Pct(nu) if isinstance(a, Pct) else nu
                        break
                    raise Undecided("strip: hole may end with a stripped character")
                raise Undecided("strip of %r" % (a,))
        if which in ("lstrip", "strip"):
            self._peel_budget = 1
            while atoms:
                a = atoms[0]
                if isinstance(a, Lit):
                    t = a.s.lstrip(chars)
                    if t:
                        atoms[0] = Lit(t)
                        break
                    atoms.pop(0)
                    continue
                if isinstance(a, (Val, Pct)):
                    allowed = _allowed_fn(a)
                    nonempty_ = a.nonempty if isinstance(a, Val) else a.u.nonempty
                    if nonempty_ and not any(allowed(c, "first") for c in chars):
                        break
                    if isinstance(a, Pct):
                        r = self._strip_refine(atoms, 0, a, chars, "first")
                        if r == "continue":
                            continue
                        if r == "break":
                            break
                    if isinstance(a, Val) and len(chars) == 1 and getattr(self, "_lstrip_budget", 3) > 0:
                        # fork with a refinement: the hole starts with the stripped character (peel it off,
                        # bounded number of times) or it does not
                        ch = chars
                        self.used("tmpl-lstrip-refinement-fork")
                        if self.ctx.branch(z3.PrefixOf(z3.StringVal(ch), a.v), "hole-starts-with-%r" % ch):
                            v2 = self.ctx.fresh_str("rest")
                            self.ctx.assume(a.v == z3.Concat(z3.StringVal(ch), v2))
                            atoms[0] = Val(v2, excl=a.excl, nonempty=False, excl_last=a.excl_last, tag=a.tag)
                            self._lstrip_budget = getattr(self, "_lstrip_budget", 3) - 1
                            try:
                                if self._lstrip_budget == 0:
                                    self.ctx.assume(z3.Not(z3.PrefixOf(z3.StringVal(ch), v2)))
                                    self.ctx.truncated += 1
                                    atoms[0] = Val(v2, excl=a.excl, nonempty=False, excl_first=a.excl_first | {ch}, excl_last=a.excl_last, tag=a.tag)
                                    break
                                continue
                            finally:
                                pass
                        else:
                            atoms[0] = Val(a.v, excl=a.excl, nonempty=a.nonempty, excl_first=a.excl_first | {ch}, excl_last=a.excl_last, tag=a.tag)
                            break
                    a = atoms[0]
                    if isinstance(a, (Val, Pct)) and not any(_allowed_fn(a)(c, "first") for c in chars):
                        uu = a.u if isinstance(a, Pct) else a
                        if uu.nonempty:
                            break
                        self.used("tmpl-strip-empty-hole-fork")
                        if self.ctx.branch_light(z3.Length(uu.v) == 0, "hole-empty"):
                            atoms.pop(0)
                            continue
                        nu = Val(uu.v, excl=uu.excl, nonempty=True, excl_first=uu.excl_first, excl_last=uu.excl_last, tag=uu.tag)
                        atoms[0] = Pct(nu) if isinstance(a, Pct) else nu
                        break
                    raise Undecided("lstrip: hole may start with a stripped character")
                if isinstance(a, IntLit):
                    if any(c in "0123456789-" for c in chars):
                        raise Undecided("strip digits")
                    break
                raise Undecided("strip of %r" % (a,))
        return mkstr(SStr(atoms))

    def str_startswith(self, s, prefix):
        if isinstance(prefix, tuple):
            rs = [self.str_startswith(s, p) for p in prefix]
            if any(r is True for r in rs):
                return True
            es = [r.e for r in rs if isinstance(r, SBool)]
            return SBool(z3.Or(*es)) if es else False
        if isinstance(prefix, SStr):
            raise Undecided("symbolic prefix")
        s = SStr.of(s)
        if prefix == "":
            return True
        if s.atoms and isinstance(s.atoms[0], Lit):
            lit = s.atoms[0].s
            if len(lit) >= len(prefix):
                return lit.startswith(prefix)
            if not prefix.startswith(lit):
                return False
        if not s.atoms:
            return False
        a = s.atoms[0]
        if isinstance(a, IntLit) and not (prefix[0].isdigit() or prefix[0] == "-"):
            return False
        if isinstance(a, Val) and a.nonempty and not _allowed_fn(a)(prefix[0], "first"):
            return False
        if isinstance(a, Pct) and a.u.nonempty:
            if not _allowed_fn(a)(prefix[0], "first"):
                return False
            if len(prefix) == 1 and prefix not in reserved_chars() and prefix != "%":
                # a character the quoter leaves alone: pct(u) starts with it  <=>  u does
                return SBool(z3.PrefixOf(z3.StringVal(prefix), a.u.v))
            raise Undecided("startswith(%r) on an escaped hole" % (prefix,))
        self.used("z3-strings")
        return SBool(z3.PrefixOf(z3.StringVal(prefix), s.z3()))

    def str_endswith(self, s, suffix):
        if isinstance(suffix, SStr) or isinstance(suffix, tuple):
            raise Undecided("symbolic suffix")
        s = SStr.of(s)
        if suffix == "":
            return True
        if s.atoms and isinstance(s.atoms[-1], Lit):
            lit = s.atoms[-1].s
            if len(lit) >= len(suffix):
                return lit.endswith(suffix)
            if not suffix.endswith(lit):
                return False
        if not s.atoms:
            return False
        a = s.atoms[-1]
        if isinstance(a, IntLit) and not suffix[-1].isdigit():
            return False
        if isinstance(a, Val) and a.nonempty and not _allowed_fn(a)(suffix[-1], "last"):
            return False
        if isinstance(a, Pct) and a.u.nonempty:
            if not _allowed_fn(a)(suffix[-1], "last"):
                return False
            if len(suffix) == 1 and suffix not in reserved_chars() and suffix != "%" and suffix not in "0123456789abcdefABCDEF":
                # a character that is neither escaped nor part of an escape: pct(u) ends with it  <=>  u does
                return SBool(z3.SuffixOf(z3.StringVal(suffix), a.u.v))
            raise Undecided("endswith(%r) on an escaped hole" % (suffix,))
        self.used("z3-strings")
        return SBool(z3.SuffixOf(z3.StringVal(suffix), s.z3()))

    def str_join(self, sep, items):
        if isinstance(sep, SStr):
            raise Undecided("symbolic join separator")
        items = _sole_run(items)
        if isinstance(items, SSetStr):
            # join of a set of symbolic strings: an unconstrained string (sound over-approximation)
            v = self.ctx.fresh_str("joined")
            return SStr([Val(v, tag="join-of-set")])
        if isinstance(items, SSeq):
            # join over an abstract sequence: only constant patterns / int renderings are supported
            e = items.elem
            if items.kind == "const":
                return SStr([Rep(items.elem, sep, items)])
            if items.kind == "setstr":
                return SStr([SetLit(e, sep)])
            if items.kind == "intstr":
                return SStr([SeqLit(items.elem, sep)])
            if items.kind == "qchars" and sep == "":
                import gffutils.parser as P
                q = items.elem
                if q.fobj is P.quoter:
                    return SStr([Pct(q.v)])
                raise Undecided("per-character map through an unknown table")
            raise Undecided("join over abstract sequence of kind %s" % items.kind)
        items = list(self.interp.iterate(items))
        parts = []
        for i, it in enumerate(items):
            if i:
                parts.append(sep)
            if not isinstance(it, (str, SStr)):
                raise TypeError("sequence item %d: expected str instance, %s found" % (i, _tname(it)))
            parts.append(it)
        return self.concat(parts)

    def str_index(self, s, idx):
        """s[idx] / s[a:b] for a string with holes."""
        s = SStr.of(s)
        atoms = s.atoms
        if isinstance(idx, slice):
            if idx.step is not None or has_sym((idx.start, idx.stop)):
                raise Undecided("symbolic slice of a string")
            a, b = idx.start, idx.stop
            # s[:1] / s[-1:] : the first / last character when that end of the string is known to be non-empty
            if atoms and ((a in (None, 0) and b == 1) or (a == -1 and b is None)):
                end = atoms[0] if b == 1 else atoms[-1]
                base = end.u if isinstance(end, Pct) else end
                if isinstance(end, Lit) or (isinstance(base, Val) and base.nonempty):
                    return self.str_index(s, 0 if b == 1 else -1)
            if not atoms and ((a in (None, 0) and b == 1) or (a == -1 and b is None)):
                return ""
            # only slices that stay inside leading / trailing literals
            res = list(atoms)
            if a is not None and a != 0:
                if a > 0 and res and isinstance(res[0], Lit) and len(res[0].s) >= a:
                    res[0] = Lit(res[0].s[a:])
                elif a > 0 and res and isinstance(res[0], Val) and a == 1 and res[0].nonempty and getattr(res[0], "tag", None) and False:
                    pass
                else:
                    return self._z3_slice(s, idx)
            if b is not None:
                if b < 0 and res and isinstance(res[-1], Lit) and len(res[-1].s) >= -b:
                    res[-1] = Lit(res[-1].s[:b])
                else:
                    return self._z3_slice(s, idx)
            return mkstr(SStr(res))
        if isinstance(idx, int):
            if idx >= 0:
                if atoms and isinstance(atoms[0], Lit) and len(atoms[0].s) > idx:
                    return atoms[0].s[idx]
            else:
                if atoms and isinstance(atoms[-1], Lit) and len(atoms[-1].s) >= -idx:
                    return atoms[-1].s[idx]
            if idx in (0, -1) and atoms:
                a = atoms[0] if idx == 0 else atoms[-1]
                base = a.u if isinstance(a, Pct) else (a if isinstance(a, Val) else None)
                if base is not None and base.nonempty:
                    # an arbitrary first / last character of a non-empty hole: a fresh one-character
                    # string that inherits the hole's exclusions at that position
                    where = "first" if idx == 0 else "last"
                    fn = _allowed_fn(a)
                    probe = set(base.excl) | set(base.excl_first) | set(base.excl_last) | set(";=,\" \t\n\r#>&") | (reserved_chars() if isinstance(a, Pct) else set())
                    excl = frozenset(ch for ch in probe if not fn(ch, where))
                    v = self.ctx.fresh_str("ch")
                    self.ctx.assume(z3.Length(v) == 1)
                    # the exclusions are used structurally (comparison with a literal); they are not
                    # handed to the string solver
                    return SStr([Val(v, excl=excl, nonempty=True, tag="char")])
            return self._z3_char(s, idx)
        raise Undecided("string index %r" % (idx,))

    def _z3_char(self, s, idx):
        self.used("z3-strings")
        zs = s.z3()
        n = z3.Length(zs)
        pos = z3.IntVal(idx) if idx >= 0 else n + idx
        inb = z3.And(pos >= 0, pos < n)
        if not self.ctx.branch(inb, "str-index-in-bounds"):
            raise IndexError("string index out of range")
        v = self.ctx.fresh_str("ch")
        self.ctx.assume(v == z3.SubString(zs, pos, 1))
        self.ctx.assume(z3.Length(v) == 1)
        return SStr([Val(v, nonempty=True)])

    def _z3_slice(self, s, idx):
        self.used("z3-strings")
        zs = s.z3()
        n = z3.Length(zs)

        def norm(x, default):
            if x is None:
                return default
            if x >= 0:
                return z3.If(z3.IntVal(x) > n, n, z3.IntVal(x))
            return z3.If(n + x < 0, z3.IntVal(0), n + x)
        a = norm(idx.start, z3.IntVal(0))
        b = norm(idx.stop, n)
        v = self.ctx.fresh_str("sl")
        self.ctx.assume(v == z3.If(b > a, z3.SubString(zs, a, b - a), z3.StringVal("")))
        return SStr([Val(v)])

    # ------------------------------------------------------------------ sequences
    def seq_concat(self, a, b):
        raise Undecided("concatenation with abstract sequence")

    def getitem(self, obj, idx):
        if isinstance(obj, (str, SStr)):
            return self.str_index(obj, idx)
        if isinstance(obj, SSeq):
            if isinstance(idx, slice):
                raise Undecided("slice of abstract sequence")
            i = _int(idx)
            n = obj.length
            pos = z3.If(i >= 0, i, n + i)
            if not self.ctx.branch(z3.And(pos >= 0, pos < n), "index-in-bounds"):
                raise IndexError("list index out of range")
            return obj.elem(z3.simplify(pos))
        if isinstance(obj, (list, tuple)) and isinstance(idx, SInt):
            raise Undecided("symbolic index into concrete list")
        if isinstance(idx, SChar) and isinstance(obj, dict):
            return QChar(obj, idx.v)
        if isinstance(obj, dict) and isinstance(idx, SStr):
            # lookup by symbolic string key among the (concrete or symbolic) string keys
            k = self._find_key(obj, idx)
            if k is not None:
                return dict.__getitem__(obj, k)
            import collections
            if isinstance(obj, collections.defaultdict) and obj.default_factory is not None:
                v = obj.default_factory()
                dict.__setitem__(obj, idx, v)
                return v
            raise KeyError(idx)
        if getattr(obj, "_pyvc_model", False):
            return obj[idx]
        f = getattr(type(obj), "__getitem__", None)
        if isinstance(f, types.FunctionType) and self.interp.should_interpret(f):
            return self.interp.call(f, [obj, idx], {})
        raise Undecided("getitem %r[%r]" % (obj, idx))

    def _find_key(self, d, idx):
        for k in list(d.keys()):
            if isinstance(k, (str, SStr)) and isinstance(idx, (str, SStr)):
                r = self.str_eq(idx, k)
                if r is True or (isinstance(r, SBool) and self.ctx.branch(r.e, "key==%s" % (k if isinstance(k, str) else "<sym>"))):
                    return k
            elif isinstance(k, tuple) and isinstance(idx, tuple) and len(k) == len(idx):
                r = self.compare_containers(ast.Eq, idx, k)
                if r is True or (isinstance(r, SBool) and self.ctx.branch(r.e, "key==%r" % (k,))):
                    return k
            elif isinstance(idx, (SInt,)) and isinstance(k, int) and not isinstance(k, bool):
                if self.ctx.branch(idx.e == k, "key==%d" % k):
                    return k
        return None

    def setitem(self, obj, idx, value):
        if getattr(obj, "_pyvc_model", False):
            obj[idx] = value
            return
        if type(obj) in (dict,) or type(obj).__name__ == "defaultdict":
            if isinstance(idx, SStr):
                k = self._find_key(obj, idx)
                self.ctx.writes.append((obj, idx))
                dict.__setitem__(obj, k if k is not None else idx, value)
                return
        f = getattr(type(obj), "__setitem__", None)
        if isinstance(f, types.FunctionType) and self.interp.should_interpret(f):
            return self.interp.call(f, [obj, idx, value], {})
        raise Undecided("setitem with symbolic key")

    def unpack_sym(self, v, n):
        if isinstance(v, SSeq):
            if not self.ctx.branch(v.length == n, "unpack-len"):
                raise ValueError("unpack length mismatch")
            return [v.elem(z3.IntVal(i)) for i in range(n)]
        raise Undecided("unpack of %r" % (v,))

    def iter_sym(self, v, node, env):
        if isinstance(v, SStr):
            c = v.concrete()
            if c is not None:
                return iter(c)
        if isinstance(v, SSeq) and node is not None and isinstance(node, ast.For) and not node.orelse \
                and all(isinstance(s, ast.Expr) for s in node.body):
            # accumulation rule (DESIGN.md 2.3 c): the body consists of expression statements only
            # (no assignment, so no loop-carried state); it is executed once for an arbitrary index
            # and its effects are logged inside a forall block.
            ctx = self.ctx
            i = ctx.fresh_int("i")
            if not ctx.branch(v.length > 0, "loop-nonempty"):
                return None
            ctx.assume(z3.And(i >= 0, i < v.length))
            # `for x in seq: acc.append(g(x))` with an int-valued g: acc gains the run [g(x) for x in seq]  (= acc.extend(map(g, seq)))
            st0 = node.body[0].value if len(node.body) == 1 else None
            if isinstance(st0, ast.Call) and isinstance(st0.func, ast.Attribute) and st0.func.attr == "append" and isinstance(st0.func.value, ast.Name) \
                    and len(st0.args) == 1 and not st0.keywords and isinstance(node.target, ast.Name):
                acc = self.interp.eval(st0.func.value, env)
                if type(acc) is list:
                    self.interp.assign(node.target, v.elem(i), env)
                    val = self.interp.eval(st0.args[0], env)
                    if isinstance(val, int) and not isinstance(val, bool):
                        val = SInt(z3.IntVal(val))
                    if isinstance(val, SInt):
                        from .sqlmodel import Splice
                        e = val.e
                        run_ = SSeq(v.length, lambda j, e=e, i=i: SInt(z3.substitute(e, (i, j if isinstance(j, z3.ExprRef) else z3.IntVal(j)))), name="map(%s)" % v.name, kind="map-int")
                        self.used("pointwise-comprehension-rule(append in a loop over an abstract sequence)")
                        acc.append(Splice(run_))
                        return None
                    raise Undecided("loop over an abstract sequence appending non-integer values to a list")
            # the body must not carry state from one iteration to the next through a container either: snapshot the local
            # containers, run the body for the generic index, and refuse if one of them changed
            snap = []
            e_ = env
            seen = set()
            while e_ is not None:
                for nm, obj in list(getattr(e_, "vars", {}).items()):
                    if type(obj) in (list, dict, set) and id(obj) not in seen:
                        seen.add(id(obj))
                        snap.append((nm, obj, len(obj)))
                e_ = getattr(e_, "parent", None)
            ctx.effect("forall-begin", v, i)
            self.used("accumulation-rule(for over abstract sequence, effect-only body)")
            self.interp.assign(node.target, v.elem(i), env)
            self.interp.exec_block(node.body, env)
            ctx.effect("forall-end", v, i)
            for nm, obj, n0 in snap:
                if len(obj) != n0:
                    raise Undecided("loop over an abstract sequence changes the local container %r (state carried between iterations)" % nm)
            return None
        raise Undecided("iteration over %r" % (v,))

    def comp_sym(self, it, g, gens, i, env, emit, node):
        """[<constant> for _ in <abstract sequence>]  ->  abstract sequence of that constant"""
        if isinstance(it, SSeq) and len(gens) == 1 and not g.ifs and isinstance(node, (ast.ListComp, ast.GeneratorExp)) \
                and isinstance(node.elt, ast.Constant) and isinstance(node.elt.value, str):
            self._comp_abstract = SSeq(it.length, node.elt.value, name="const(%s)" % it.name, kind="const")
            return True
        # [f[c] for c in <symbolic string>]  ->  per-character map (joined later)
        if isinstance(it, SStr) and len(it.atoms) == 1 and isinstance(it.atoms[0], Val) and len(gens) == 1 and not g.ifs \
                and isinstance(node, (ast.ListComp, ast.GeneratorExp)) and isinstance(g.target, ast.Name):
            from .interp import Env
            inner = Env({g.target.id}, env, env.globals, func=env.func)
            inner.vars[g.target.id] = SChar(it.atoms[0])
            v = self.interp.eval(node.elt, inner)
            if isinstance(v, QChar) and v.v is it.atoms[0]:
                self.used("per-character-map-rule")
                self._comp_abstract = SSeq(self.ctx.fresh_int("nchars"), v, name="chars", kind="qchars")
                return True
            raise Undecided("comprehension over the characters of a symbolic string")
        # [g(x) for x in <abstract sequence>] with an int-valued g  ->  abstract sequence (pointwise rule)
        if isinstance(it, SSeq) and it.kind not in ("setlist",) and len(gens) == 1 and not g.ifs \
                and isinstance(node, (ast.ListComp, ast.GeneratorExp)) and isinstance(g.target, ast.Name):
            from .interp import Env
            ctx = self.ctx
            i0 = ctx.fresh_int("j")
            if not ctx.branch(it.length > 0, "comp-nonempty"):
                self._comp_abstract = []
                return True
            ctx.assume(z3.And(i0 >= 0, i0 < it.length))
            inner = Env({g.target.id}, env, env.globals, func=env.func)
            inner.vars[g.target.id] = it.elem(i0)
            v = self.interp.eval(node.elt, inner)
            if isinstance(v, int) and not isinstance(v, bool):
                v = SInt(z3.IntVal(v))
            if isinstance(v, SInt):
                e = v.e
                self.used("pointwise-comprehension-rule(map over abstract sequence)")
                self._comp_abstract = SSeq(it.length, lambda j, e=e, i0=i0: SInt(z3.substitute(e, (i0, j if isinstance(j, z3.ExprRef) else z3.IntVal(j)))),
                                           name="map(%s)" % it.name, kind="map-int")
                return True
            if isinstance(v, SStr) and len(v.atoms) == 1 and isinstance(v.atoms[0], IntLit):
                # [str(g(x)) for x in seq]  ==  map(str, [g(x) for x in seq])
                e = v.atoms[0].e
                self.used("pointwise-comprehension-rule(map over abstract sequence)")
                m = SSeq(it.length, lambda j, e=e, i0=i0: SInt(z3.substitute(e, (i0, j if isinstance(j, z3.ExprRef) else z3.IntVal(j)))),
                         name="map(%s)" % it.name, kind="map-int")
                self._comp_abstract = SSeq(it.length, m, name="map(str,%s)" % m.name, kind="intstr")
                return True
            if isinstance(v, (tuple, list)) and all(isinstance(x, (Sym, str, int, type(None))) and not isinstance(x, (SSeq, MSet)) for x in v):
                # [(g(x), h, ...) for x in seq]: one tuple per element; kept as "the element at the generic index i0",
                # which is all a consumer working element by element (executemany) needs
                self.used("pointwise-comprehension-rule(tuple per element of an abstract sequence)")
                def _no_elem(j):
                    raise Undecided("element access into a sequence of tuples built by a comprehension over an abstract sequence")
                self._comp_abstract = SSeq(it.length, _no_elem, name="map-tuple(%s)" % it.name, kind="map-tuple", src=(it, i0, tuple(v) if isinstance(v, tuple) else list(v)))
                return True
            raise Undecided("comprehension over an abstract sequence with a non-integer element expression")
        # [str(x) for x in <abstract int collection>]  ==  map(str, <collection>);  [<constant> for _ in <collection>]
        base = _as_sset(it)
        if base is not None and len(gens) == 1 and not g.ifs and isinstance(node, (ast.ListComp, ast.GeneratorExp)) and isinstance(g.target, ast.Name):
            el = node.elt
            if isinstance(el, ast.Call) and isinstance(el.func, ast.Name) and el.func.id == "str" and len(el.args) == 1 and not el.keywords \
                    and isinstance(el.args[0], ast.Name) and el.args[0].id == g.target.id and self.interp.eval(el.func, env) is builtins.str:
                self.used("pointwise-comprehension-rule(str over abstract int set)")
                self._comp_abstract = SSeq(base.card, base, name="map(str,%s)" % base.name, kind="setstr")
                return True
            if isinstance(el, ast.Constant) and isinstance(el.value, str):
                self._comp_abstract = SSeq(base.card, el.value, name="const(%s)" % base.name, kind="const")
                return True
        # [x for x in <abstract int collection> if cond(x)]  ->  filtered abstract collection
        if base is not None and len(gens) == 1 and isinstance(node, (ast.ListComp, ast.GeneratorExp)) \
                and isinstance(g.target, ast.Name) and isinstance(node.elt, ast.Name) and node.elt.id == g.target.id:
            from .interp import Env
            b0 = self.ctx.fresh_int("elt")
            inner = Env({g.target.id}, env, env.globals, func=env.func)
            inner.vars[g.target.id] = SInt(b0)
            conds = []
            for c in g.ifs:
                v = self.interp.eval(c, inner)
                if isinstance(v, SBool):
                    conds.append(v.e)
                elif isinstance(v, bool):
                    conds.append(z3.BoolVal(v))
                else:
                    raise Undecided("filter condition of a comprehension over an abstract set is not boolean")
            cond = z3.And(*conds) if conds else z3.BoolVal(True)
            card = self.ctx.fresh_int("card")
            self.ctx.assume(z3.And(card >= 0, card <= base.card))
            member = lambda b, base=base, cond=cond, b0=b0: z3.And(base.member(b), z3.substitute(cond, (b0, b)))
            wit = None
            if base.witness is not None:
                from .harness import ev
                wit = lambda model, base=base, cond=cond, b0=b0: {x for x in base.witness(model) if ev(model, z3.substitute(cond, (b0, z3.IntVal(x))))}
            fs = SSet(member, card, name="filter(%s)" % base.name, witness=wit)
            self._comp_abstract = _as_sseq(fs)
            return True
        return NotImplemented

    _comp_abstract = None

    def comp_result(self, out, kind):
        if self._comp_abstract is not None:
            r, self._comp_abstract = self._comp_abstract, None
            return r
        return out

    def getattr_sym(self, obj, name):
        return BoundModel(self, obj, name)

    def call_method(self, obj, name, args, kwargs):
        if isinstance(obj, SStr):
            return self.str_method(obj, name, args, kwargs)
        if isinstance(obj, SSet):
            raise Undecided("method %s on abstract set" % name)
        raise Undecided("method %s on %r" % (name, obj))

    def container_method(self, slf, name, args, kwargs):
        """Methods of concrete containers whose arguments are symbolic."""
        if isinstance(slf, list) and name == "sort" and has_sym(slf, 1):
            slf[:] = self.b_sorted(list(slf), **kwargs)
            return None
        if not has_sym(args, 2) and not has_sym(kwargs, 2) and not is_sym(slf):
            return getattr(slf, name)(*args, **kwargs)
        if isinstance(slf, list) and name in ("extend", "__iadd__"):
            other = args[0]
            if isinstance(other, SSeq):
                from .sqlmodel import Splice
                slf.append(Splice(other))        # a run of len(other) elements (only meaningful as SQL arguments)
                return slf if name == "__iadd__" else None
            slf.extend(list(self.interp.iterate(other)))
            return slf if name == "__iadd__" else None
        if isinstance(slf, dict) and name in ("get", "setdefault", "pop", "update") and not has_sym(args[:1], 2):
            return getattr(slf, name)(*args, **kwargs)
        if isinstance(slf, dict) and name in ("get", "setdefault", "pop", "__getitem__") and args and has_sym(args[:1], 2) and not kwargs:
            # key with symbolic parts (a symbolic string, or a tuple holding one): find the matching concrete key by
            # branching on equality - never by python's hash
            k = self._find_key(slf, args[0])
            if k is not None:
                return getattr(slf, name)(k, *args[1:])
            if name == "get":
                return args[1] if len(args) > 1 else None
            if name == "pop" and len(args) > 1:
                return args[1]
            if name == "setdefault" and isinstance(args[0], SStr):
                dict.__setitem__(slf, args[0], args[1] if len(args) > 1 else None)
                return slf[args[0]]
            if name in ("pop", "__getitem__"):
                raise KeyError(args[0])
            raise Undecided("dict.%s with a symbolic key" % name)
        if isinstance(slf, MSet) and name == "update" and len(args) == 1 and isinstance(args[0], SSeq) and args[0].rng is not None:
            lo, hi = args[0].rng
            slf.ranges.append((lo, hi - 1))
            return None
        if isinstance(slf, set) and name == "update" and all(isinstance(a, (list, tuple, set)) and not has_sym(a) for a in args):
            return slf.update(*args)
        if isinstance(slf, (set, MSet)) and name == "union" and all((isinstance(a, SSeq) and a.rng is not None) or (isinstance(a, (list, tuple, set, frozenset, range)) and not has_sym(a)) for a in args) \
                and not has_sym(slf, 1) or (isinstance(slf, MSet) and name == "union" and not slf.sitems and all((isinstance(a, SSeq) and a.rng is not None) or (isinstance(a, (list, tuple, set, frozenset, range)) and not has_sym(a)) for a in args)):
            # s.union(r1, r2, ...): a NEW set holding s and every (possibly abstract) range - like set(s) followed by update()s
            m = MSet(set.__iter__(slf))
            m.ranges = list(getattr(slf, "ranges", []))
            for a in args:
                if isinstance(a, SSeq):
                    lo, hi = a.rng
                    m.ranges.append((lo, hi - 1))
                else:
                    set.update(m, a)
            return m
        if name == "__contains__":
            return self.contains(slf, args[0])
        if isinstance(slf, MSet) and name == "add" and len(args) == 1 and isinstance(args[0], (str, SStr)) and not slf.ranges:
            x = mkstr(args[0]) if isinstance(args[0], SStr) else args[0]
            if isinstance(x, str):
                for y in list(slf.sitems):
                    if self.interp.truth(self.interp.compare(ast.Eq, x, y), "set-add-eq"):
                        return None
                set.add(slf, x)
                return None
            if not self.interp.truth(self.contains(slf, x), "set-add-member"):
                slf.sitems.append(x)
                self.used("set-of-strings(add/in by branching on equality)")
            return None
        if isinstance(slf, list) and name == "index":
            for i, x in enumerate(slf):
                r = self.interp.compare(ast.Eq, x, args[0])
                if isinstance(r, SBool):
                    if self.ctx.branch(r.e, "index-eq"):
                        return i
                elif r:
                    return i
            raise ValueError("%r is not in list" % (args[0],))
        raise Undecided("%s.%s with symbolic arguments" % (type(slf).__name__, name))

    # ------------------------------------------------------------------ builtins
    def register_defaults(self):
        t = self.table
        t[builtins.len] = self.b_len
        t[builtins.int] = self.b_int
        t[builtins.str] = self.b_str
        t[builtins.bool] = self.b_bool
        t[builtins.isinstance] = self.b_isinstance
        t[builtins.min] = self.b_min
        t[builtins.max] = self.b_max
        t[builtins.abs] = self.b_abs
        t[builtins.all] = self.b_all
        t[builtins.any] = self.b_any
        t[builtins.map] = self.b_map
        t[builtins.sum] = self.b_sum
        t[builtins.getattr] = self.b_getattr
        t[builtins.setattr] = self.b_setattr
        t[builtins.hasattr] = self.b_hasattr
        t[builtins.sorted] = self.b_sorted
        t[builtins.set] = self.b_set
        t[builtins.list] = self.b_list
        t[builtins.tuple] = self.b_tuple
        t[builtins.dict] = self.b_dict
        t[builtins.hash] = self.b_hash
        t[builtins.filter] = self.b_filter
        t[builtins.range] = self.b_range
        t[builtins.enumerate] = self.b_enumerate
        t[builtins.iter] = self.b_iter
        t[builtins.zip] = self.b_zip
        t[itertools.islice] = self.b_islice
        import collections as _c
        t[_c.Counter.most_common] = self.b_most_common
        t[itertools.takewhile] = self.b_takewhile
        t[itertools.dropwhile] = self.b_dropwhile

    def b_len(self, x):
        if isinstance(x, SStr):
            return self.str_len(x)
        if isinstance(x, SSet):
            return SInt(x.card)
        if isinstance(x, SSetStr):
            # exact: the number of items different from every earlier item
            terms = []
            for i, a in enumerate(x.items):
                neq = []
                for b in x.items[:i]:
                    r = self.interp.compare(ast.Eq, a, b)
                    neq.append(z3.Not(r.e) if isinstance(r, SBool) else z3.BoolVal(not r))
                terms.append(z3.If(z3.And(*neq), 1, 0) if neq else z3.IntVal(1))
            return SInt(z3.Sum(*terms) if len(terms) > 1 else (terms[0] if terms else z3.IntVal(0)))
        if isinstance(x, SSetOfSeq):
            q = x.seq
            n = self.ctx.fresh_int("card")
            j = z3.Int("j!card")
            e0, ej = q.elem(z3.IntVal(0)), q.elem(j)
            t0 = e0.z3() if isinstance(e0, SStr) else z3.StringVal(e0)
            tj = ej.z3() if isinstance(ej, SStr) else z3.StringVal(ej)
            alleq = z3.ForAll([j], z3.Implies(z3.And(j >= 0, j < q.length), tj == t0))
            self.ctx.assume(z3.And(n >= 0, n <= q.length, z3.Implies(q.length >= 1, n >= 1), (n <= 1) == alleq))
            return SInt(n)
        if isinstance(x, SSeq):
            return SInt(x.length)
        if isinstance(x, MSet) and x.sitems and not x.ranges:
            return set.__len__(x) + len(x.sitems)
        if isinstance(x, MSet) and x.ranges:
            n = self.ctx.fresh_int("card")
            base = set.__len__(x)
            ub = z3.IntVal(base)
            for lo, hi in x.ranges:
                ub = ub + z3.If(hi >= lo, hi - lo + 1, 0)
            self.ctx.assume(z3.And(n >= base, n <= ub))
            return SInt(n)
        if isinstance(x, Sym):
            raise TypeError("object of type '%s' has no len()" % _tname(x))
        if isinstance(x, (list, tuple)) and any(_is_splice(i) for i in x):
            n = z3.IntVal(sum(1 for i in x if not _is_splice(i)))
            for i in x:
                if _is_splice(i):
                    n = n + i.seq.length
            return SInt(n)
        if isinstance(x, (list, tuple, dict, str, set, frozenset, range, bytes)):
            return len(x)
        if hasattr(x, "_pyvc_len"):
            return x._pyvc_len
        f = getattr(type(x), "__len__", None)
        if isinstance(f, types.FunctionType) and self.interp.should_interpret(f):
            return self.interp.len_value(self.interp.call(f, [x], {}))
        return len(x)

    def b_int(self, x=0, base=None):
        if base is not None:
            raise Undecided("int with base")
        if isinstance(x, SInt):
            return x
        if isinstance(x, SBool):
            return SInt(z3.If(x.e, 1, 0))
        if isinstance(x, SStr):
            if len(x.atoms) == 1 and isinstance(x.atoms[0], IntLit):
                return SInt(x.atoms[0].e)
            if len(x.atoms) == 1 and isinstance(x.atoms[0], Val) and x.atoms[0].tag == "nonnumeric":
                raise ValueError("invalid literal for int() with base 10")
            raise Undecided("int() of %r" % (x,))
        if x is None:
            raise TypeError("int() argument must be a string, a bytes-like object or a real number, not 'NoneType'")
        return int(x)

    def b_str(self, x=""):
        return self.to_str(x)

    def b_bool(self, x=False):
        if isinstance(x, SBool):
            return x
        return self.interp.truth(x)

    def b_isinstance(self, x, cls):
        if isinstance(x, Sym):
            if isinstance(cls, tuple):
                return any(self.b_isinstance(x, c) for c in cls)
            k = _pytype(x)
            if k is None:
                raise Undecided("isinstance of %r" % (x,))
            return issubclass(k, cls)
        return isinstance(x, cls)

    def b_min(self, *args, **kw):
        return self._minmax(args, kw, True)

    def b_max(self, *args, **kw):
        return self._minmax(args, kw, False)

    def _minmax(self, args, kw, is_min):
        if kw:
            raise Undecided("min/max with key")
        if len(args) == 1 and isinstance(args[0], SSeq):
            # min / max over an abstract sequence of integers: a fresh value bounded by every element and attained
            q = args[0]
            probe = q.elem(z3.Int("k!mm"))
            if not isinstance(probe, SInt):
                raise Undecided("min/max over an abstract sequence of non-integers")
            if not self.ctx.branch(q.length > 0, "minmax-nonempty"):
                raise ValueError("%s() arg is an empty sequence" % ("min" if is_min else "max"))
            m = self.ctx.fresh_int("min" if is_min else "max")
            k, w = z3.Int("k!mm"), self.ctx.fresh_int("argm")
            ek = q.elem(k).e
            self.ctx.assume(z3.ForAll([k], z3.Implies(z3.And(k >= 0, k < q.length), (m <= ek) if is_min else (m >= ek))))
            self.ctx.assume(z3.And(w >= 0, w < q.length, m == q.elem(w).e))
            self.used("min/max over an abstract integer sequence (bounded by all, attained by one)")
            return SInt(m)
        items = list(self.interp.iterate(args[0])) if len(args) == 1 else list(args)
        if not has_sym(items):
            return (min if is_min else max)(items)
        if not items:
            raise ValueError("min() arg is an empty sequence")
        cur = _int(items[0])
        for it in items[1:]:
            z = _int(it)
            cur = z3.If(z < cur, z, cur) if is_min else z3.If(z > cur, z, cur)
        return SInt(cur)

    def b_abs(self, x):
        if isinstance(x, SInt):
            return SInt(z3.If(x.e >= 0, x.e, -x.e))
        return abs(x)

    def b_all(self, it):
        for x in self.interp.iterate(it):
            if not self.interp.truth(x, "all"):
                return False
        return True

    def b_any(self, it):
        for x in self.interp.iterate(it):
            if self.interp.truth(x, "any"):
                return True
        return False

    def b_map(self, fn, *its):
        its = tuple(_sole_run(x) for x in its)
        if len(its) == 1 and fn is builtins.str and _as_sset(its[0]) is not None:
            ss = _as_sset(its[0])
            return SSeq(ss.card, ss, name="map(str,%s)" % ss.name, kind="setstr")
        if len(its) == 1 and isinstance(its[0], SSeq) and its[0].kind == "map-int" and fn is builtins.str:
            return SSeq(its[0].length, its[0], name="map(str,%s)" % its[0].name, kind="intstr")
        if len(its) == 1 and isinstance(its[0], SStr) and len(its[0].atoms) == 1 and isinstance(its[0].atoms[0], Val):
            # map(f, <symbolic string>): f applied to an arbitrary character (per-character map, joined later)
            a = its[0].atoms[0]
            if getattr(fn, "__name__", "") == "__getitem__" and getattr(fn, "__self__", None) is not None and not isinstance(fn, types.FunctionType):
                v = self.interp.getitem(fn.__self__, SChar(a))        # map(table.__getitem__, s)  ==  (table[c] for c in s)
            else:
                v = self.interp.call(fn, [SChar(a)], {})
            if isinstance(v, QChar) and v.v is a:
                self.used("per-character-map-rule")
                return SSeq(self.ctx.fresh_int("nchars"), v, name="chars", kind="qchars")
            raise Undecided("map over the characters of a symbolic string")
        if len(its) == 1 and isinstance(its[0], SSeq) and its[0].kind not in ("setlist", "map-tuple"):
            # map(g, <abstract sequence>) with an int-valued g  ==  [g(x) for x in seq]   (pointwise rule)
            seq = its[0]
            ctx = self.ctx
            if not ctx.branch(seq.length > 0, "map-nonempty"):
                return iter([])
            i0 = ctx.fresh_int("j")
            ctx.assume(z3.And(i0 >= 0, i0 < seq.length))
            v = self.interp.call(fn, [seq.elem(i0)], {})
            if isinstance(v, int) and not isinstance(v, bool):
                v = SInt(z3.IntVal(v))
            if isinstance(v, SInt):
                e = v.e
                self.used("pointwise-comprehension-rule(map over abstract sequence)")
                return SSeq(seq.length, lambda j, e=e, i0=i0: SInt(z3.substitute(e, (i0, j if isinstance(j, z3.ExprRef) else z3.IntVal(j)))), name="map(%s)" % seq.name, kind="map-int")
            raise Undecided("map over an abstract sequence with a non-integer result")
        if len(its) == 1 and isinstance(its[0], SSeq):
            raise Undecided("map over abstract sequence")
        lists = [list(self.interp.iterate(i)) for i in its]
        return iter([self.interp.call(fn, list(a), {}) for a in zip(*lists)])

    def b_filter(self, fn, it):
        out = []
        for x in self.interp.iterate(it):
            r = x if fn is None else self.interp.call(fn, [x], {})
            if self.interp.truth(r, "filter"):
                out.append(x)
        return iter(out)

    def b_sum(self, it, start=0):
        total = start
        for x in self.interp.iterate(it):
            total = self.interp.binop(ast.Add, total, x)
        return total

    def b_getattr(self, obj, name, *default):
        if isinstance(name, Sym):
            raise Undecided("getattr with symbolic name")
        try:
            return self.interp.getattr(obj, name)
        except AttributeError:
            if default:
                return default[0]
            raise

    def b_setattr(self, obj, name, value):
        if isinstance(name, Sym):
            raise Undecided("setattr with symbolic name")
        self.interp.setattr(obj, name, value)

    def b_hasattr(self, obj, name):
        if isinstance(obj, Sym):
            k = _pytype(obj)
            if k is None:
                raise Undecided("hasattr on %r" % (obj,))
            return hasattr(k, name)
        from .interp import IFunc
        if isinstance(obj, IFunc):
            return name in ("__call__", "__name__", "__doc__")
        return hasattr(obj, name)

    def b_sorted(self, it, key=None, reverse=False):
        if _as_sset(it) is not None and key is None:
            self.used("sorted-of-abstract-set (order abstracted; only membership is used afterwards)")
            return _as_sseq(_as_sset(it))
        items = list(self.interp.iterate(it))
        if key is not None:
            keys = [self.interp.call(key, [x], {}) for x in items]
        else:
            keys = items
        if has_sym(keys):
            allint = all(isinstance(k, (SInt, int)) and not isinstance(k, bool) for k in keys)
            allstr = all(isinstance(k, (SStr, str)) for k in keys)
            if allint or allstr:
                # stable insertion sort, branching on the comparisons
                self.used("sorted-stable(symbolic %s keys, branching)" % ("integer" if allint else "string"))
                zk = (lambda k: _int(k)) if allint else (lambda k: mkstr(k).z3() if isinstance(k, SStr) else z3.StringVal(k))
                order = []
                for i in range(len(items)):
                    pos = len(order)
                    for j in range(len(order) - 1, -1, -1):
                        a, b = zk(keys[order[j]]), zk(keys[i])
                        before = (a < b) if reverse else (b < a)        # order[j] must come after the new item
                        if self.ctx.branch(before, "sort-cmp"):
                            pos = j
                        else:
                            break
                    order.insert(pos, i)
                return [items[i] for i in order]
            raise Undecided("sorted with symbolic keys")
        order = sorted(range(len(items)), key=lambda i: keys[i], reverse=reverse)
        self.used("sorted-stable")
        return [items[i] for i in order]

    def b_set(self, it=()):
        if isinstance(it, SSet):
            return it
        if isinstance(it, MSet):
            m = MSet(set.__iter__(it))
            m.ranges = list(it.ranges)
            m.sitems = list(it.sitems)
            return m
        if isinstance(it, (list, tuple)) and any(_is_splice(x) for x in it):
            rest = [x for x in it if not _is_splice(x)]
            if has_sym(rest, 1) or any(x.seq.rng is None for x in it if _is_splice(x)):
                raise Undecided("set() of a list holding a non-range abstract run")
            m = MSet(rest)
            for x in it:
                if _is_splice(x):
                    lo, hi = x.seq.rng
                    m.ranges.append((lo, hi - 1))
            return m
        if isinstance(it, SSeq) and it.kind == "strlist":
            self.used("set-of-abstract-string-sequence (cardinality: 0 / 1 <=> all elements equal / several)")
            return SSetOfSeq(it)
        items = list(self.interp.iterate(it))
        if has_sym(items, 1):
            if all(isinstance(x, (str, SStr)) for x in items):
                self.used("set-of-symbolic-strings (order/cardinality abstracted)")
                return SSetStr(items)
            raise Undecided("set() of symbolic members")
        return MSet(items)

    def b_list(self, it=()):
        if isinstance(it, SSet):
            return _as_sseq(it)
        if isinstance(it, SSeq):
            return it
        if isinstance(it, (list, tuple)):
            return list(it)                      # structural copy (keeps abstract runs)
        return list(self.interp.iterate(it))

    def b_range(self, *args):
        if not has_sym(args):
            return range(*args)
        if len(args) == 1:
            lo, hi = z3.IntVal(0), _int(args[0])
        elif len(args) == 2:
            lo, hi = _int(args[0]), _int(args[1])
        else:
            raise Undecided("range with step")
        n = z3.If(hi > lo, hi - lo, z3.IntVal(0))
        return SSeq(n, lambda i: SInt(lo + i), name="range", kind="range", rng=(lo, hi),
                    member=lambda b: z3.And(lo <= b, b < hi))

    def _iterable(self, x):
        """an argument of a structural builtin: objects with an interpreted __iter__ are iterated by
        the interpreter, never natively"""
        if isinstance(x, (list, tuple, dict, str, set, frozenset, range)) or isinstance(x, Sym):
            return x
        f = getattr(type(x), "__iter__", None)
        if isinstance(f, types.FunctionType) and self.interp.should_interpret(f):
            return self.interp.iterate(x)
        return x

    def b_enumerate(self, it, start=0):
        it = self._iterable(it)
        if isinstance(it, SSeq):
            raise Undecided("enumerate over an abstract sequence")
        return enumerate(it, start)

    def b_most_common(self, counter, n=None):
        """collections.Counter.most_common: items sorted by count, largest first, ties in first-seen order (CPython:
        sorted(items, key=itemgetter(1), reverse=True) / heapq.nlargest, which is documented to be equivalent)"""
        if isinstance(n, Sym):
            raise Undecided("most_common with a symbolic n")
        items = self.b_sorted(list(dict.items(counter)), key=operator.itemgetter(1), reverse=True)
        return items if n is None else items[:n]

    def b_takewhile(self, pred, it):
        """itertools.takewhile: items while pred(item) is true; the first item that fails is consumed and dropped, nothing
        after it is pulled from the source.  pred runs through the interpreter, its truth value may branch."""
        interp = self.interp
        src = interp.iterate(self._iterable(it)) if not isinstance(it, Sym) else None
        if src is None:
            raise Undecided("takewhile over an abstract sequence")

        def gen():
            for x in src:
                if not interp.truth(interp.call(pred, [x], {}), "takewhile"):
                    return
                yield x
        return gen()

    def b_dropwhile(self, pred, it):
        interp = self.interp
        src = interp.iterate(self._iterable(it)) if not isinstance(it, Sym) else None
        if src is None:
            raise Undecided("dropwhile over an abstract sequence")

        def gen():
            dropping = True
            for x in src:
                if dropping and interp.truth(interp.call(pred, [x], {}), "dropwhile"):
                    continue
                dropping = False
                yield x
        return gen()

    def b_islice(self, it, *args):
        """itertools.islice(iterable, stop) / (iterable, start, stop[, step]) with symbolic bounds: the
        underlying iterator is advanced one item at a time, branching on `index < stop`"""
        it = self._iterable(it)
        if isinstance(it, Sym):
            raise Undecided("islice over an abstract sequence")
        if len(args) == 1:
            start, stop, step = 0, args[0], 1
        else:
            start, stop, step = (list(args) + [1])[:3]
            start = 0 if start is None else start
            step = 1 if step is None else step
        if isinstance(start, Sym) or isinstance(step, Sym) or step != 1:
            raise Undecided("islice with symbolic start/step")
        if not isinstance(stop, Sym):
            return itertools.islice(self.interp.iterate(it), start, stop, step)
        interp = self.interp
        src = interp.iterate(it)
        zstop = _int(stop)

        def gen():
            i = 0
            while True:
                if i >= start and not interp.truth(SBool(z3.IntVal(i) < zstop), "islice-more"):
                    return
                try:
                    x = next(src)
                except StopIteration:
                    return
                if i >= start:
                    yield x
                i += 1
        self.used("islice(symbolic stop, branching per item)")
        return gen()

    def b_iter(self, it, *a):
        it = self._iterable(it)
        if isinstance(it, Sym):
            raise Undecided("iter() of %r" % (it,))
        return iter(it, *a)

    def b_zip(self, *its):
        its = [self._iterable(i) for i in its]
        if any(isinstance(i, Sym) for i in its):
            raise Undecided("zip over an abstract sequence")
        return zip(*its)

    def b_tuple(self, it=()):
        if isinstance(it, SSeq):
            return it
        if isinstance(it, (list, tuple)):
            return tuple(it)                     # structural copy (keeps abstract runs)
        return tuple(self.interp.iterate(it))

    def b_dict(self, *args, **kw):
        if args and not isinstance(args[0], dict):
            a0 = args[0]
            f = getattr(type(a0), "keys", None)
            if f is not None and isinstance(f, types.FunctionType) and self.interp.should_interpret(f):
                d = {}
                for k in self.interp.iterate(self.interp.call(f, [a0], {})):
                    d[k] = self.interp.getitem(a0, k)
                d.update(kw)
                return d
            pairs = []
            for p in self.interp.iterate(a0):
                k, v = self.interp.unpack(p, 2)
                if isinstance(k, Sym):
                    raise Undecided("dict() with symbolic key")
                pairs.append((k, v))
            d = dict(pairs)
            d.update(kw)
            return d
        return dict(*args, **kw)

    def b_hash(self, x):
        if isinstance(x, Sym) or has_sym(x):
            raise Undecided("hash of symbolic value")
        f = getattr(type(x), "__hash__", None)
        if isinstance(f, types.FunctionType) and self.interp.should_interpret(f):
            return self.interp.call(f, [x], {})
        return hash(x)


_WS = "".join(chr(c) for c in range(0x110000) if chr(c).isspace()) if False else " \t\n\r\x0b\x0c\x1c\x1d\x1e\x1f\x85\xa0\u1680\u2000\u2001\u2002\u2003\u2004\u2005\u2006\u2007\u2008\u2009\u200a\u2028\u2029\u202f\u205f\u3000"

_STR_METHODS = {"format", "join", "startswith", "endswith", "split", "count", "rstrip", "strip", "lstrip",
                "replace", "lower", "upper", "encode", "splitlines", "find", "index", "partition", "rpartition", "isdigit", "isdecimal", "isnumeric", "removeprefix", "removesuffix"}

_OPSYM = {ast.Lt: "<", ast.LtE: "<=", ast.Gt: ">", ast.GtE: ">=", ast.Eq: "==", ast.NotEq: "!="}


def _as_sset(x):
    """view an abstract int collection (SSet, or SSeq derived from a set) as an SSet"""
    if isinstance(x, SSet):
        return x
    if isinstance(x, SSeq) and x.kind == "setlist" and x.member is not None:
        return SSet(x.member, x.length, name=x.name, witness=getattr(x.elem, "witness", None) if not callable(x.elem) else getattr(x, "_witness", None))
    return None


def _as_sseq(s):
    f = z3.Function("elem!%d" % (id(s) % 1000003), z3.IntSort(), z3.IntSort())
    q = SSeq(s.card, lambda i: SInt(f(i)), name="list(%s)" % s.name, member=s.member, kind="setlist")
    _WIT[id(q)] = (q, s.witness)
    return q


_WIT = {}


def seq_witness(q):
    e = _WIT.get(id(q))
    return e[1] if e and e[0] is q else None


def _sole_run(x):
    """a list that consists of exactly one abstract run (built by appending in a loop over / extending with an abstract
    sequence) IS that sequence"""
    if type(x) is list and len(x) == 1 and _is_splice(x[0]):
        return x[0].seq
    return x


def _is_splice(x):
    return type(x).__name__ == "Splice" and isinstance(x, Sym)


def _int(x):
    if isinstance(x, SInt):
        return x.e
    if isinstance(x, SBool):
        return z3.If(x.e, z3.IntVal(1), z3.IntVal(0))
    if isinstance(x, bool):
        return z3.IntVal(int(x))
    if isinstance(x, int):
        return z3.IntVal(x)
    raise Undecided("not an int: %r" % (x,))


def _pytype(x):
    if isinstance(x, SBool):
        return bool
    if isinstance(x, SInt):
        return int
    if isinstance(x, SStr):
        return str
    if isinstance(x, SSet):
        return set
    if isinstance(x, SSeq):
        return tuple if x.kind == "tuple" else list
    return None


def _tname(x):
    if isinstance(x, Sym):
        k = _pytype(x)
        return k.__name__ if k else type(x).__name__
    if x is None:
        return "NoneType"
    return type(x).__name__


def _kind(x):
    if isinstance(x, (SInt, SBool, int, float)):
        return "num"
    if isinstance(x, (SStr, str)):
        return "str"
    if x is None:
        return "none"
    if isinstance(x, (list, SSeq)):
        return "list"
    return type(x).__name__


def reserved_chars():
    import gffutils.parser as P
    return set(P._to_quote)


def _allowed_fn(a):
    """Returns f(ch, where) -> may character ch occur in hole a at position 'first'/'last'/'any'."""
    if isinstance(a, Pct):
        res = reserved_chars()
        u = a.u

        def f(ch, where, u=u, res=res):
            if ch in res and ch != "%":
                return False                      # escaped away
            if ch == "%":
                return True                       # every escape starts with it
            if ch in "0123456789ABCDEF":
                # hex digits also come from escapes; as *first* character only from u itself
                if where == "first":
                    return ch not in u.excl and ch not in u.excl_first
                return True
            if ch in u.excl:
                return False
            if where == "first" and ch in u.excl_first:
                return False
            if where == "last" and ch in u.excl_last:
                return False
            return True
        return f
    if isinstance(a, Val):
        def f(ch, where, a=a):
            if ch in a.excl:
                return False
            if where == "first" and ch in a.excl_first:
                return False
            if where == "last" and ch in a.excl_last:
                return False
            return True
        return f
    if isinstance(a, IntLit):
        def f(ch, where, a=a):
            if ch == "-":
                if where != "first":
                    return False
                c = Ctx.current
                return c is None or c.may(a.e < 0)
            return ch.isdigit() and ch.isascii()
        return f
    if isinstance(a, SetLit):
        def f(ch, where, a=a):
            return (ch.isdigit() and ch.isascii()) or ch == "-" or ch in a.sep
        return f
    if isinstance(a, Rep):
        def f(ch, where, a=a):
            return ch in a.pattern or ch in a.sep
        return f
    if isinstance(a, SeqLit):
        def f(ch, where, a=a):
            return (ch.isdigit() and ch.isascii()) or ch == "-" or ch in a.sep
        return f
    return None


def _struct_eq(a, b):
    """Structural (in)equality of two strings with holes: True / False / None."""
    if len(a.atoms) == len(b.atoms) and all(x is y or (isinstance(x, Lit) and isinstance(y, Lit) and x.s == y.s)
                                           or (isinstance(x, Val) and isinstance(y, Val) and (x.v is y.v or x.v.eq(y.v)))
                                           or (isinstance(x, Pct) and isinstance(y, Pct) and (x.u.v is y.u.v or x.u.v.eq(y.u.v)))
                                           or (isinstance(x, IntLit) and isinstance(y, IntLit) and z3.simplify(x.e).eq(z3.simplify(y.e)))
                                           for x, y in zip(a.atoms, b.atoms)):
        return True
    # one side concrete
    ca, cb = a.concrete(), b.concrete()
    if ca is not None and cb is None:
        a, b, ca, cb = b, a, cb, ca
    if cb is not None and ca is None:
        # a has holes, b is the literal cb
        first, last = a.atoms[0], a.atoms[-1]
        if isinstance(first, Lit) and not cb.startswith(first.s):
            return False
        if isinstance(last, Lit) and not cb.endswith(last.s):
            return False
        lits = sum(len(x.s) for x in a.atoms if isinstance(x, Lit))
        minlen = lits + sum(1 for x in a.atoms if isinstance(x, IntLit) or (isinstance(x, Val) and x.nonempty))
        if minlen > len(cb):
            return False
        # a single Val hole against a literal containing an excluded character
        if len(a.atoms) == 1 and isinstance(first, Val):
            if any(ch in first.excl for ch in cb):
                return False
            if cb == "" and first.nonempty:
                return False
            if cb and (cb[0] in first.excl_first or cb[-1] in first.excl_last):
                return False
        if len(a.atoms) == 1 and isinstance(first, IntLit):
            t = cb[1:] if cb.startswith("-") else cb
            if not (t.isdigit() and t.isascii()) or (len(t) > 1 and t[0] == "0") or cb == "-0":
                return False
    return None
