"""Obligations, discharge (z3, cvc5 fallback), units, verdicts."""
import fnmatch
import json
import os
import subprocess
import sys
import tempfile
import time
import traceback

import z3

from .core import Undecided, EngineSignal, PathLimit

DISCHARGED, FAILED, UNKNOWN, ERROR = "discharged", "failed", "unknown", "error"


class Oblig(object):
    """One verification condition: hyps |- goal."""

    def __init__(self, oid, clause, hyps, goal, vars=None, replay=None, path=None, note=None, kind="vc"):
        self.oid = oid              # "<prop>.<function>.<clause>[#path]"
        self.clause = clause        # human-readable clause text
        self.hyps = list(hyps)
        self.goal = goal
        self.vars = vars or {}      # name -> z3 term (for models, witnesses of known findings)
        self.replay = replay        # callable(model_dict) -> dict(inputs=…, expected=…, observed=…, violates=bool)
        self.path = path
        self.note = note
        self.kind = kind


class Result(object):
    """Picklable result of one obligation or bounded stand-in."""

    def __init__(self, oid, clause, status, backend="z3", time_s=0.0, model=None, replay=None,
                 detail=None, kind="vc", known=None, cases=0):
        self.oid, self.clause, self.status = oid, clause, status
        self.backend, self.time_s, self.model, self.replay = backend, time_s, model, replay
        self.detail, self.kind, self.known, self.cases = detail, kind, known, cases

    def as_dict(self):
        return dict(self.__dict__)


def _model_dict(m, vars_):
    out = {}
    for name, term in vars_.items():
        try:
            v = m.eval(term, model_completion=True)
            out[name] = _pyval(v)
        except Exception as e:           # pragma: no cover
            out[name] = "<%s>" % e
    return out


def _pyval(v):
    if z3.is_int_value(v):
        return v.as_long()
    if z3.is_true(v):
        return True
    if z3.is_false(v):
        return False
    if z3.is_string_value(v):
        return v.as_string()
    return str(v)


def check_valid(hyps, goal, rlimit=20000000, timeout_ms=60000, use_cvc5=True):
    """Returns (status, backend, model-or-None, seconds)."""
    t0 = time.time()
    s = z3.Solver()
    s.set("rlimit", rlimit)
    s.set("timeout", timeout_ms)
    for h in hyps:
        s.add(h)
    s.add(z3.Not(goal) if not isinstance(goal, bool) else z3.BoolVal(not goal))
    r = s.check()
    if r == z3.unsat:
        return DISCHARGED, "z3", None, time.time() - t0
    if r == z3.sat:
        return FAILED, "z3", s.model(), time.time() - t0
    if use_cvc5:
        st = _cvc5(s.to_smt2())
        if st == "unsat":
            return DISCHARGED, "cvc5", None, time.time() - t0
    return UNKNOWN, "z3", None, time.time() - t0


def _cvc5(smt2, tlimit=30):
    exe = "/usr/bin/cvc5"
    if not os.path.exists(exe):
        return "unknown"
    with tempfile.NamedTemporaryFile("w", suffix=".smt2", delete=False) as fh:
        fh.write("(set-logic ALL)\n" + smt2)
        name = fh.name
    try:
        p = subprocess.run([exe, "--strings-exp", "--tlimit=%d" % (tlimit * 1000), name],
                           capture_output=True, text=True, timeout=tlimit + 5)
        out = p.stdout.strip().splitlines()
        return out[0] if out else "unknown"
    except Exception:
        return "unknown"
    finally:
        os.unlink(name)


class KnownFindings(object):
    def __init__(self, path):
        self.entries = []
        if os.path.exists(path):
            for line in open(path):
                line = line.strip()
                if line and not line.startswith("#"):
                    self.entries.append(json.loads(line))

    def matching(self, prop, oid):
        return [e for e in self.entries if e.get("kind") == "known" and e["property"] == prop
                and fnmatch.fnmatch(oid, e["obligation"])]


def discharge(ob, known=None, prop=None, rlimit=20000000):
    """Discharge one obligation; on failure consult known findings and replay."""
    try:
        status, backend, model, secs = check_valid(ob.hyps, ob.goal, rlimit=rlimit)
    except z3.Z3Exception as e:
        return Result(ob.oid, ob.clause, ERROR, detail="z3: %s" % e, kind=ob.kind)
    res = Result(ob.oid, ob.clause, status, backend, secs, kind=ob.kind)
    if status != FAILED:
        return res
    # known findings: prove the obligation on the complement of each witness predicate
    kfs = known.matching(prop, ob.oid) if known else []
    if kfs:
        extra = []
        for kf in kfs:
            w = eval(kf["witness"], {"z3": z3, "And": z3.And, "Or": z3.Or, "Not": z3.Not}, dict(ob.vars))
            extra.append(z3.Not(w))
        st2, be2, m2, s2 = check_valid(ob.hyps + extra, ob.goal, rlimit=rlimit)
        res.time_s += s2
        if st2 == DISCHARGED:
            res.status = DISCHARGED
            res.known = [kf["what"] for kf in kfs]
            res.detail = "holds outside the witness predicates of the listed known findings"
            return res
        if st2 == FAILED:
            model = m2
        else:
            res.status = UNKNOWN
            return res
    res.model = _model_dict(model, ob.vars)
    if ob.replay is not None:
        try:
            res.replay = ob.replay(res.model)
        except EngineSignal as e:
            res.replay = {"error": "replay aborted: %r" % (e,), "violates": None}
        except Exception as e:
            res.replay = {"error": "replay crashed: %s" % traceback.format_exc(limit=3), "violates": None}
    return res
