#!/bin/bash
# tools/par_try.sh <abs patch.diff> <name> [Cxx ...]: try a change WITHOUT touching /repo's working tree or /verif's
# outputs: a scratch worktree of /repo HEAD gets the patch, a scratch copy of /verif (sharing .venv) runs the quick
# checks against that worktree (PYTHONPATH puts it before the installed gffutils), one line per check is printed,
# everything is removed.  Several of these can run side by side.  Development tool only: the registered commands
# always check /repo itself.
P="$1"; N="$2"; shift 2
S=/tmp/pt_$N; rm -rf "$S"; mkdir -p "$S"
# (several of these run side by side: `git worktree add` can collide on the shared .git/worktrees bookkeeping - retry)
ok=0; for try in 1 2 3 4 5 6; do if git -C /repo worktree add -q --detach "$S/repo" HEAD 2>/dev/null; then ok=1; break; fi; rm -rf "$S/repo"; git -C /repo worktree prune; sleep "0.$((RANDOM % 9 + 1))"; done
[ $ok -eq 1 ] || { echo "$N WORKTREE-FAILED"; exit 9; }
if ! git -C "$S/repo" apply "$P"; then echo "$N PATCH-DOES-NOT-APPLY"; git -C /repo worktree remove --force "$S/repo"; rm -rf "$S"; exit 8; fi
mkdir "$S/verif"
rsync -a --exclude .git --exclude .venv --exclude replays --exclude seeded /verif/ "$S/verif/"
ln -s /verif/.venv "$S/verif/.venv"
props=("$@"); [ ${#props[@]} -eq 0 ] && props=($(cd /verif && .venv/bin/python -c "import json; print(' '.join(x['property_id'] for x in json.load(open('MANIFEST.json'))['checks']))"))
cd "$S/verif"
export PYTHONDONTWRITEBYTECODE=1 PYTHONHASHSEED=0 PYTHONPATH="$S/repo:$S/verif"
where=$(.venv/bin/python -c "import gffutils; print(gffutils.__file__)" 2>/dev/null)
case "$where" in "$S/repo/"*) ;; *) echo "$N gffutils resolves to $where, not the scratch tree"; cd /; git -C /repo worktree remove --force "$S/repo"; rm -rf "$S"; exit 7;; esac
for c in "${props[@]}"; do
  timeout 1800 .venv/bin/python -m pyvc.cli "$c" > "$S/$c.out" 2>&1; rc=$?
  nv=$(grep -c '^VIOLATION' "$S/$c.out"); nu=$(grep -c '^UNDECIDED' "$S/$c.out")
  first=$(grep -m1 '^VIOLATION\|^UNDECIDED\|^CHECKER' "$S/$c.out" | cut -c1-220)
  echo "$N $c exit=$rc violations=$nv undecided=$nu :: ${first:-ok}"
done
cd /; git -C /repo worktree remove --force "$S/repo"; rm -rf "$S"
