#!/usr/bin/env python3
"""Regenerates /verif/MANIFEST.json from the per-property registry in props/registry.py."""
import json, os, sys
HERE = os.path.dirname(os.path.dirname(os.path.abspath(__file__)))
sys.path.insert(0, HERE)
from props.registry import CHECKS, NOT_APPLICABLE, NOTES

BASE = ("cd /repo && /venv/bin/python -m pytest -ra -q -p no:cacheprovider --timeout=900 "
        "--continue-on-collection-errors gffutils")
m = {
    "version": 1,
    "setup_cmd": "./setup.sh",
    "hooks": {
        "guard": "GFFUTILS_VERIF",
        "enable": "no hooks: contracts are sidecars in /verif/contracts, the verified text is re-read from /repo's working tree on every run; the guard variable is unused",
        "baseline_off_cmd": BASE,
        "source_commits": [],
        "add_only": True,
    },
    "engines": [{
        "name": "pyvc",
        "path": "pyvc/",
        "serves_properties": sorted(c["property_id"] for c in CHECKS),
        "kind_free_text": "contract-based deductive verification: path-exhaustive symbolic executor over the real AST of /repo/gffutils (re-read every run), sidecar contracts, SQL-template model, verification conditions discharged by z3 (cvc5 for strings); bounded run-time stand-ins of the same contracts where stated",
    }],
    "checks": [],
    "notes": NOTES,
    "not_applicable": NOT_APPLICABLE,
}
for c in CHECKS:
    pid = c["property_id"]
    m["checks"].append({
        "property_id": pid,
        "quick_cmd": f"./check {pid} --tier quick",
        "thorough_cmd": f"./check {pid} --tier thorough",
        "evidence_file": f"evidence/{pid}.json",
        "replay_cmd_template": f"./check {pid} --replay {{path}}",
        "engine": "pyvc",
        "level_claimed": {"category": c["category"], "text": c["text"], "design_ref": c["design_ref"]},
        "level_note": c["level_note"],
        "technique": c["technique"],
    })
json.dump(m, open(os.path.join(HERE, "MANIFEST.json"), "w"), indent=1)
import jsonschema
jsonschema.validate(m, json.load(open("/root/.vp/MANIFEST.schema.json")))
ids = {c["property_id"] for c in CHECKS} | {n["property_id"] for n in NOT_APPLICABLE}
allp = {json.loads(l)["id"] for l in open(os.path.join(HERE, "properties.jsonl"))}
assert ids == allp, (allp - ids, ids - allp)
print("MANIFEST.json ok:", len(CHECKS), "checks,", len(NOT_APPLICABLE), "not_applicable")
