#!/usr/bin/env python3
"""tools/run_standin.py Cxx [--tier quick|thorough] [--repo DIR]
Runs the bounded stand-in units of standins/Cxx.py natively against the gffutils tree in DIR
(default /repo) and prints the outcome of every U.bounded_result call."""
import sys, os, time, json, argparse
ap = argparse.ArgumentParser()
ap.add_argument("prop"); ap.add_argument("--tier", default="quick"); ap.add_argument("--repo", default="/repo"); ap.add_argument("--seed", type=int, default=0)
a = ap.parse_args()
sys.path.insert(0, os.path.dirname(os.path.dirname(os.path.abspath(__file__))))
sys.path.insert(0, a.repo)
import warnings; warnings.simplefilter("ignore")
import logging; logging.disable(logging.CRITICAL)
import tempfile, shutil
tmp = tempfile.mkdtemp(prefix="standin_"); os.environ["TMPDIR"] = tmp; tempfile.tempdir = tmp
import gffutils
print("gffutils from", gffutils.__file__)
import importlib
from pyvc import runner, prove
mod = importlib.import_module("standins." + a.prop)
known = prove.KnownFindings("/verif/known_findings.jsonl")
rc = 0
for name, fn in mod.UNITS:
    U = runner.Unit(a.prop, name, a.tier, a.seed, known)
    t = time.time()
    try:
        fn(U)
    except Exception:
        import traceback; traceback.print_exc(); rc = 3
    for r, b in zip(U.results, U.bounded):
        print("%-40s %-10s cases=%d failures=%d known_hits=%d  %.1fs" % (r.oid, r.status, r.cases, b["failures"], b["known_finding_hits"], time.time() - t))
        if r.status != "discharged":
            rc = rc or 1
            print("   first failure:", json.dumps(r.replay, default=str)[:1500])
shutil.rmtree(tmp, ignore_errors=True)
sys.exit(rc)
