#!/bin/bash
# tools/run_all.sh [tier]: run every claimed check on /repo as it is, validate the evidence files.
cd "$(dirname "$0")/.."
TIER="${1:-quick}"
if [ -n "$(git -C /repo status --porcelain --untracked-files=no)" ]; then echo "WARNING: /repo has uncommitted changes"; fi
rc=0
for c in $(.venv/bin/python -c "import json; print(' '.join(x['property_id'] for x in json.load(open('MANIFEST.json'))['checks']))"); do
  s=$(date +%s)
  timeout 3600 ./check $c --tier $TIER > /tmp/run_all_$c.out 2>&1; e=$?
  v=$(.venv/bin/python -c "
import json,jsonschema
try:
    jsonschema.validate(json.load(open('evidence/$c.json')), json.load(open('/root/.vp/EVIDENCE.schema.json'))); ev=json.load(open('evidence/$c.json'))
    ok = ev['level']!='proof' or ev['coverage']['obligations']==ev['coverage']['discharged']
    print('evidence-ok' if ok else 'evidence-MISMATCH')
except Exception as e: print('evidence-INVALID', str(e)[:80])")
  echo "$c exit=$e $v $(( $(date +%s)-s ))s :: $(tail -1 /tmp/run_all_$c.out)"
  [ $e -ne 0 ] && rc=1
done
exit $rc
