#!/bin/bash
# tools/verify_seed.sh <dir with patch.diff demo.py>: confirm a seeded change in a scratch worktree of /repo HEAD:
# demo passes without the patch; with it the 74 baseline tests still pass and the demo fails.
D="$(cd "$1" && pwd)"; W=$(mktemp -d /tmp/vseed.XXXXXX); rmdir "$W"
git -C /repo worktree add -q --detach "$W" HEAD || exit 9
cd "$W"
export PYTHONDONTWRITEBYTECODE=1
timeout 300 /venv/bin/python "$D/demo.py" > "$W/.demo0.out" 2>&1; D0=$?
if ! git apply "$D/patch.diff"; then echo "RESULT patch_applies=no"; cd /; git -C /repo worktree remove --force "$W"; exit 8; fi
T=$(timeout 900 /venv/bin/python -m pytest -q -p no:cacheprovider --timeout=900 --continue-on-collection-errors 2>&1 | tail -1)
timeout 300 /venv/bin/python "$D/demo.py" > "$W/.demo1.out" 2>&1; D1=$?
echo "RESULT demo_unchanged_exit=$D0 demo_patched_exit=$D1 tests_patched='$T'"
tail -3 "$W/.demo1.out" | cut -c1-300
cd /; git -C /repo worktree remove --force "$W"
