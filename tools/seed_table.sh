#!/bin/bash
# tools/seed_table.sh [seed-dir ...]: for every seeded change under /verif/seeded (or those named), apply it to
# /repo, run the quick check of its own property (plus the extra properties listed in meta.json "also"), undo it,
# and print one line per (seed, property): exit code, deductive / bounded / no-failing-input violation counts and
# the first failing obligation of each kind.  Writes nothing under /verif except the evidence files the checks
# rewrite -- run tools/run_all.sh afterwards to restore evidence for the unchanged tree.
cd /verif || exit 3
if [ -n "$(git -C /repo status --short --untracked-files=no)" ]; then echo "/repo is not clean"; exit 3; fi
seeds=("$@"); [ ${#seeds[@]} -eq 0 ] && seeds=(seeded/C*)
for d in "${seeds[@]}"; do
  s=$(basename "$d"); p=${s%%-*}
  also=$(python3 -c "import json,sys; print(' '.join(json.load(open('$d/meta.json')).get('also', [])))" 2>/dev/null)
  if ! git -C /repo apply "$PWD/$d/patch.diff" 2>/dev/null; then echo "$s PATCH-DOES-NOT-APPLY"; continue; fi
  for c in $p $also; do
    out=$(mktemp)
    timeout 1800 ./check "$c" > "$out" 2>&1; rc=$?
    nv=$(grep -c '^VIOLATION' "$out")
    nb=$(grep '^VIOLATION' "$out" | grep -c '\.bounded\.')
    nn=$(grep '^VIOLATION' "$out" | grep -c 'no-failing-input-found')
    fd=$(grep '^VIOLATION' "$out" | grep -v '\.bounded\.' | head -1 | sed 's/.*replay=[^ ]*\/\([^/ ]*\)\.json.*/\1/')
    fb=$(grep '^VIOLATION' "$out" | grep '\.bounded\.' | head -1 | sed 's/.*replay=[^ ]*\/\([^/ ]*\)\.json.*/\1/')
    echo "$s check=$c exit=$rc violations=$nv deductive=$((nv-nb)) bounded=$nb no-input=$nn first-deductive=${fd:--} first-bounded=${fb:--}"
    rm -f "$out"
  done
  git -C /repo checkout -- .
done
git -C /repo status --short --untracked-files=no
