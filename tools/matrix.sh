#!/bin/bash
# tools/matrix.sh [jobs]: the two regression tables of the machinery, without touching /repo's working tree:
#   seeded/<id>/patch.diff        must be caught   (exit 1 of the check of its property [+ "also" in meta.json])
#   refactorings/<Rxx>/patchN.diff must NOT alarm  (exit 0, or 2 = undecided; never 1)
# Each line: <name> <check> exit=.. violations=.. undecided=.. :: first message.  Results: seeded/matrix_seeds.txt,
# refactorings/matrix_refactorings.txt.  Uses tools/par_try.sh (scratch worktree + scratch copy of /verif per job).
J="${1:-3}"
cd /verif || exit 3
declare -A PROPS
PROPS[R01]="C12 C06"; PROPS[R02]="C06 C11 C02 C19 C10"; PROPS[R03]="C17 C15 C09 C01 C13 C16 C19"; PROPS[R04]="C07 C08 C09 C01"
PROPS[R05]="C07 C08 C12 C17 C18 C01 C13 C14"; PROPS[R06]="C13 C14 C09 C01 C20"; PROPS[R07]="C04 C05 C01 C03 C10 C02"
PROPS[R08]="C02 C03 C05 C10 C01 C20 C14"; PROPS[R09]="C06 C11 C02 C04 C19 C10 C14"; PROPS[R10]="C15 C16 C18 C10 C19 C17"
PROPS[R11]="C17 C18 C13 C08"; PROPS[R12]="C19 C20 C14 C13 C01 C05 C10"
PROPS[R13]="C10 C11 C13 C19 C04 C05 C14 C20 C02 C03"; PROPS[R14]="C12 C06 C07 C08 C09 C17 C15 C01"; PROPS[R15]="C04 C05 C10 C13 C19 C20 C11 C18 C02 C03"
PROPS[R16]="C16 C11 C09 C06 C02 C19 C15"; PROPS[R17]="C01 C02 C03 C05 C10 C14 C20"; PROPS[R18]="C17 C07 C08 C12 C18 C13 C14 C09 C01"
PROPS[R19]="C07 C08 C09 C01 C17 C02 C15"; PROPS[R20]="C13 C14 C09 C07 C01 C19 C20 C10"; PROPS[R21]="C02 C06 C11 C04 C19 C15 C16 C18 C10"
PROPS[R22]="C12 C06 C15 C01 C10 C05"; PROPS[R23]="C17 C07 C08 C12 C18 C01 C04 C15 C16"; PROPS[R24]="C04 C05 C03 C01 C10 C20 C14 C13"
PROPS[R25]="C19 C20 C10 C01 C04 C02 C11 C14 C05 C03"; PROPS[R26]="C10 C16 C19 C05 C04 C02"; PROPS[R27]="C18 C12 C02"
PROPS[R28]="C15 C12 C19 C02"; PROPS[R29]="C16 C10 C19"; PROPS[R30]="C17 C06 C11 C02 C19 C01"
PROPS[R31]="C11 C12 C06 C05 C07 C08 C16 C01 C13"; PROPS[R32]="C03 C02 C05 C10 C01 C14 C20 C04"; PROPS[R33]="C11 C06 C04 C10 C16 C17 C18 C08 C19 C02"
PROPS[R37]="C05 C04 C10 C01 C03 C02"; PROPS[R38]="C06 C04 C10 C11 C19 C16"; PROPS[R39]="C16 C10 C19 C15"; PROPS[R40]="C07 C08 C09 C01 C17"; PROPS[R41]="C17 C07 C08 C01 C18 C15 C13"; PROPS[R42]="C04 C02 C10 C05 C01 C20 C14 C19"
PROPS[R34]="C14 C13 C07 C01 C02 C09 C20 C19"; PROPS[R35]="C10 C19 C14 C04 C09 C01 C20"; PROPS[R36]="C20 C19 C02 C03 C10 C13 C14 C01"
jobs=/tmp/matrix_jobs.$$; : > $jobs
for d in seeded/C*; do
  s=$(basename $d); p=${s%%-*}
  also=$(python3 -c "import json; print(' '.join(json.load(open('$d/meta.json')).get('also', [])))" 2>/dev/null)
  echo "seed $PWD/$d/patch.diff $s $p $also" | sed "s/ *$//" >> $jobs
done
for d in refactorings/R*; do
  r=$(basename $d)
  for f in $d/patch*.diff; do n=$(basename $f .diff); echo "refac $PWD/$f ${r}_$n ${PROPS[$r]}" >> $jobs; done
done
out=/tmp/matrix_out.$$; mkdir -p $out
cat $jobs | xargs -P "$J" -d '\n' -n 1 bash -c 'set -- $0; kind=$1; patch=$2; name=$3; shift 3; /verif/tools/par_try.sh "$patch" "$name" "$@" > '"$out"'/$kind.$name.txt 2>&1'
cat $out/seed.*.txt | sort > seeded/matrix_seeds.txt
cat $out/refac.*.txt | sort > refactorings/matrix_refactorings.txt
rm -rf $jobs $out
echo "seeds not caught (no check with exit=1):"
for d in seeded/C*; do s=$(basename $d); grep -q "^$s .* exit=1 " seeded/matrix_seeds.txt || echo "  $s"; done
echo "refactorings raising an alarm (exit=1):"; grep " exit=1 " refactorings/matrix_refactorings.txt | cut -c1-200
echo "refactorings undecided / crashed:"; grep " exit=[23] " refactorings/matrix_refactorings.txt | cut -c1-200
