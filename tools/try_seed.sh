#!/bin/bash
# tools/try_seed.sh <patch.diff> <Cxx> [more props]: apply a seeded change to /repo, run the checks, undo it.
P="$1"; shift
git -C /repo apply "$P" || { echo "patch does not apply"; exit 9; }
for c in "$@"; do
  ( cd /verif && ./check "$c" > /tmp/try_seed_$c.out 2>&1; echo "$c exit=$? $(grep -c '^VIOLATION' /tmp/try_seed_$c.out) violation lines; $(tail -1 /tmp/try_seed_$c.out)"; grep -m3 -A1 '^VIOLATION\|^UNDECIDED\|^CHECKER' /tmp/try_seed_$c.out | cut -c1-300 )
done
git -C /repo checkout -- .
git -C /repo status --short --untracked-files=no
