#!/bin/bash
# tools/adopt_seed.sh <dir written by a seeder> <name, e.g. C11-b>: confirm the seeded change with
# tools/verify_seed.sh (demo passes on /repo HEAD, fails with the patch, the baseline tests still pass) and only
# then copy patch.diff / demo.py / meta.json to /verif/seeded/<name>/, recording the confirmation in meta.json.
S="$1"; N="$2"; V=/verif
R=$("$V/tools/verify_seed.sh" "$S" 2>&1 | grep '^RESULT'); echo "$N $R"
case "$R" in
  *"demo_unchanged_exit=0 demo_patched_exit=1 tests_patched='2 failed, 74 passed"*) ;;
  *) echo "$N NOT-CONFIRMED"; exit 1;;
esac
mkdir -p "$V/seeded/$N"; cp "$S/patch.diff" "$S/demo.py" "$V/seeded/$N/"
python3 - "$S/meta.json" "$V/seeded/$N/meta.json" "$N" "$(git -C /repo rev-parse --short HEAD)" "$R" <<'E'
import json, sys
src, dst, name, head, res = sys.argv[1:6]
try: m = json.load(open(src))
except Exception as e: m = {"note": "seeder meta.json unreadable: %s" % e}
m.setdefault("property", name.split("-")[0])
m["origin"] = "fresh sub-agent given only the property text, the summary of the round-1 seed (to pick a different mechanism) and a scratch worktree"
m["confirmed_by"] = "tools/verify_seed.sh in a scratch worktree of /repo HEAD %s: %s" % (head, res)
m["origin"] = m["origin"].replace("the summary of the round-1 seed", "the summaries of the earlier seeds of this property") if (name[-2:] in ("-c", "-d", "-e", "-f", "-g", "-h", "-i", "-j", "-k", "-l", "-m", "-n", "-o", "-p")) else m["origin"]
json.dump(m, open(dst, "w"), indent=1)
E
echo "$N ADOPTED"
