"""Specification of the UCSC binning scheme (DESIGN.md Appendix A.1), written from the
statement of C12.  Dual mode: z3 terms for proofs, python ints for replay / stand-ins.
Constants of the *scheme* (5 levels, 128 kb finest = 2**17, 8-fold per level) are part of the
specification; the code's OFFSETS / shifts are read from the real module by the engine."""
from pyvc.logic import And, Or, Not, Implies, Ite, Eq, shr

SH = [17, 20, 23, 26, 29]                       # level L bins have size 2**SH[L]
NB = [4096, 512, 64, 8, 1]                      # number of bins per level
OFF = [4681, 585, 73, 9, 1]                     # first bin id per level (UCSC numbering)
MAXC = 2 ** 29


def off(fmt):
    return 1 if fmt == "gff" else 0


def oor(s, e, fmt):
    return Or(s >= MAXC, e >= MAXC, s < off(fmt), e < 0)


def inrange(s, e, fmt):
    return Not(oor(s, e, fmt))


def same(s0, e, L):
    return Eq(shr(s0, SH[L]), shr(e, SH[L]))


def bin1(s, e, fmt):
    """smallest bin containing 0-based [s0, e] (= the 1-based interval plus the following base)"""
    s0 = s - off(fmt)
    r = OFF[4] + shr(s0, SH[4])
    for L in (3, 2, 1, 0):
        r = Ite(same(s0, e, L), OFF[L] + shr(s0, SH[L]), r)
    return Ite(oor(s, e, fmt), 1, r)


def binset_member(s, e, fmt, b):
    """b is in the specified bin set of the query interval"""
    s0 = s - off(fmt)
    inr = Or(*[And(OFF[L] + shr(s0, SH[L]) <= b, b <= OFF[L] + shr(e, SH[L])) for L in range(5)])
    return Ite(oor(s, e, fmt), Eq(b, 1), Or(Eq(b, 1), inr))


def bin_extent_contains(b, lo, hi):
    """bin id b (any level) has an extent [k*2^SH, (k+1)*2^SH) containing 0-based [lo, hi]"""
    cs = []
    for L in range(5):
        k = b - OFF[L]
        cs.append(And(b >= OFF[L], b < OFF[L] + NB[L], k * (2 ** SH[L]) <= lo, hi < (k + 1) * (2 ** SH[L])))
    return Or(*cs)


def bin_level_is(b, L):
    return And(b >= OFF[L], b < OFF[L] + NB[L])


def bin_overlaps(b, lo, hi):
    """bin b's extent meets 0-based closed [lo, hi]"""
    cs = []
    for L in range(5):
        k = b - OFF[L]
        cs.append(And(b >= OFF[L], b < OFF[L] + NB[L], k * (2 ** SH[L]) <= hi, lo < (k + 1) * (2 ** SH[L])))
    return Or(*cs)


def native_binset(s, e, fmt):
    """the specified set, enumerated (python ints only)"""
    if oor(s, e, fmt):
        return {1}
    out = {1}
    s0 = s - off(fmt)
    for L in range(5):
        out.update(range(OFF[L] + (s0 >> SH[L]), OFF[L] + (e >> SH[L]) + 1))
    return out
