"""Reference model of the importer (DESIGN.md Appendix A.5 / A.6), written from the statements of
C01-C05 and C10.  Pure python, used natively by the bounded stand-ins and by replay.
A database is (F: ordered id -> record, R: set of (parent, child, level), Dup, cnt)."""
import collections
import copy

COLS8 = ["seqid", "source", "featuretype", "start", "end", "score", "strand", "frame"]


class Rec(object):
    def __init__(self, f):
        self.cols = {c: getattr(f, c) for c in COLS8}
        self.attrs = collections.OrderedDict((k, list(v)) for k, v in f.attributes.items())
        self.extra = list(f.extra)

    def key(self):
        return (tuple(str(self.cols[c]) for c in COLS8), tuple((k, frozenset(v)) for k, v in sorted(self.attrs.items())))


class RefDB(object):
    def __init__(self, fmt="gff3", id_spec=None, transcript_key="transcript_id", gene_key="gene_id", subfeature="exon"):
        self.F = collections.OrderedDict()
        self.R = set()
        self.Dup = []
        self.cnt = collections.defaultdict(int)
        self.fmt = fmt
        self.id_spec = id_spec or ("ID" if fmt == "gff3" else {"gene": "gene_id", "transcript": "transcript_id"})
        self.tk, self.gk, self.sub = transcript_key, gene_key, subfeature

    # ---- keys (A.4)
    def auto(self, base):
        self.cnt[base] += 1
        return "%s_%d" % (base, self.cnt[base])

    def key(self, f):
        spec = self.id_spec
        if isinstance(spec, dict):
            if f.featuretype not in spec:
                return self.auto(f.featuretype)
            spec = spec[f.featuretype]
        if isinstance(spec, str) or callable(spec):
            spec = [spec]
        for s in spec:
            if callable(s):
                r = s(f)
                if r:
                    if r.startswith("autoincrement:"):
                        return self.auto(r[14:])
                    return r
                continue
            if len(s) > 3 and s[0] == ":" and s[-1] == ":":
                return getattr(f, s[1:-1])
            vals = f.attributes.get(s) if s in f.attributes else None
            if vals is not None and len(vals) > 1:
                raise ValueError("multi-valued id attribute")
            if vals:
                return vals[0]
        return self.auto(f.featuretype)

    # ---- one line
    def step(self, f, strategy="error", force_merge_fields=()):
        k = self.key(f)
        kk = k
        if k not in self.F:
            self.F[k] = Rec(f)
        elif strategy == "error":
            raise ValueError("Duplicate ID")
        elif strategy == "warning":
            kk = None
        elif strategy == "replace":
            # the statement keeps "the last": the replaced line's own Parent links go with it
            old = self.F[k]
            if self.fmt == "gff3":
                self.R -= {(p, k, 1) for p in old.attrs.get("Parent", [])}
            else:
                self.R -= {(t, k, 1) for t in old.attrs.get(self.tk, [])[:1]} | {(g, k, 2) for g in old.attrs.get(self.gk, [])[:1]}
            self.F[k] = Rec(f)
        elif strategy == "create_unique":
            kk = self.auto(k)
            if kk in self.F:
                raise KeyError("collision of a generated key with an explicit id")      # known finding F15
            self.F[kk] = Rec(f)
        elif strategy == "merge":
            cands = [k] + [n for (kk_, n) in self.Dup if kk_ == k]
            cmpcols = [c for c in COLS8 if c not in force_merge_fields]
            M = [c for c in cands if all(str(self.F[c].cols[x]) == str(getattr(f, x)) for x in cmpcols)]
            if not M:
                kk = self.auto(k)
                if kk in self.F:
                    raise KeyError("collision of a generated key with an explicit id")
                self.F[kk] = Rec(f)
                self.Dup.append((k, kk))
            else:
                if len(M) > 1:
                    raise NotImplementedError("several merge candidates (outside the statement)")
                kk = M[0]
                m = self.F[kk]
                for a, vs in f.attributes.items():
                    cur = m.attrs.setdefault(a, [])
                    for v in vs:
                        if v not in cur:
                            cur.append(v)
                for c in force_merge_fields:
                    seen = set(str(m.cols[c]).split(",")) | {str(getattr(f, c))}
                    m.cols[c] = ",".join(sorted(seen))
        else:
            raise ValueError("Invalid merge strategy")
        if kk is not None:
            if self.fmt == "gff3":
                for p in f.attributes.get("Parent", []):
                    self.R.add((p, kk, 1))
            else:
                t = f.attributes.get(self.tk) or None
                g = f.attributes.get(self.gk) if self.gk in f.attributes else None
                t = t[0] if t else None
                if t is not None and t != kk:
                    self.R.add((t, kk, 1))
                if g:
                    g = g[0]
                    if g != kk and t != kk:
                        self.R.add((g, kk, 2))
                    if t is not None and t != g:
                        self.R.add((g, t, 1))
        return kk

    def finish_gff(self):
        l1 = {(p, c) for (p, c, l) in self.R if l == 1}
        for (a, b) in l1:
            if a in self.F:
                for (b2, c) in l1:
                    if b2 == b:
                        self.R.add((a, c, 2))

    # ---- histories (A.6)
    def delete(self, ids):
        for i in ids:
            self.F.pop(i, None)
            self.R = {r for r in self.R if r[0] != i and r[1] != i}

    def add_relation(self, p, c, l):
        if (p, c, l) in self.R:
            raise KeyError("relation exists")
        self.R.add((p, c, l))

    def snapshot(self):
        feats = collections.OrderedDict()
        for k, r in self.F.items():
            feats[k] = (tuple(str(r.cols[c]) if r.cols[c] is not None else "None" for c in COLS8),
                        tuple(sorted((a, tuple(sorted(set(v)))) for a, v in r.attrs.items())))
        return feats, set(self.R)


def real_snapshot(db):
    feats = collections.OrderedDict()
    for f in db.all_features():
        feats[f.id] = (tuple(str(getattr(f, c)) if getattr(f, c) is not None else "None" for c in COLS8),
                       tuple(sorted((a, tuple(sorted(set(v)))) for a, v in f.attributes.items())))
    rel = set(tuple(r) for r in db.conn.execute("SELECT parent, child, level FROM relations"))
    return feats, rel
