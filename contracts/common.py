"""Contracts shared between properties (callee summaries used at call sites)."""
import z3
from pyvc.core import Ctx, SInt, SBool, SStr, SSet, IntLit, Undecided
from pyvc.harness import ev
from contracts import spec_bins as S


def bins_contract(interp, args, kwargs):
    """gffutils.bins:bins by contract (proved in C12): ints -> bin1 / binset; None -> TypeError."""
    names = ["start", "stop", "fmt", "one"]
    d = {"fmt": "gff", "one": True}
    for n, a in zip(names, args):
        d[n] = a
    d.update(kwargs)
    s, e, fmt, one = d["start"], d["stop"], d["fmt"], d["one"]
    if s is None or e is None:
        # outside the contract's domain (the statement says nothing about missing coordinates):
        # fall back to the real body
        import gffutils.bins as B
        return interp.call_real_function(B.bins, args, kwargs)
    if isinstance(one, SBool) or isinstance(fmt, SStr):
        raise Undecided("bins contract: symbolic fmt/one")

    def zi(x):
        if isinstance(x, SInt):
            return x.e
        if isinstance(x, int) and not isinstance(x, bool):
            return z3.IntVal(x)
        raise Undecided("bins contract: argument %r is not an int" % (x,))
    zs, ze = zi(s), zi(e)
    interp.ctx.assumed_models.add("contract:gffutils.bins:bins")
    if one:
        return SInt(S.bin1(zs, ze, fmt))
    ctx = interp.ctx
    card = ctx.fresh_int("nbins")
    ctx.assume(card >= 1)

    def witness(model, zs=zs, ze=ze, fmt=fmt):
        return S.native_binset(ev(model, zs), ev(model, ze), fmt)
    return SSet(lambda b: S.binset_member(zs, ze, fmt, b), card, name="bins(%s,%s)" % (zs, ze), witness=witness)


def blank_feature(**fields):
    """A Feature instance in a chosen state: built by the real __init__ with its defaults, then the fields the harness
    reasons about are set directly (they may be symbolic, which __init__ would try to convert)."""
    import gffutils.feature as F
    from gffutils import constants
    f = object.__new__(F.Feature)
    try:
        F.Feature.__init__(f)           # the REAL constructor first: instance attributes a later version adds exist
    except Exception:
        pass
    d = dict(seqid="chr1", source=".", featuretype="gene", start=None, end=None, score=".", strand="+",
             frame=".", attributes=None, extra=[], bin=None, id=None, dialect=constants.dialect,
             file_order=None, keep_order=False, sort_attribute_values=False)
    d.update(fields)
    for k, v in d.items():
        object.__setattr__(f, k, v)
    return f
