"""Attribute-column specification (DESIGN.md Appendix A.3): the writer enc(items, D), the grammar
G(D) of decoded values, the 48 consistent dialects, and the library contracts (regex prefix
match, urllib unquote) needed to run the real parser on strings with holes."""
import itertools
import re
import urllib.parse

import z3

import gffutils.parser as P
from gffutils import constants
from gffutils.attributes import Attributes

from pyvc.core import Ctx, SStr, Val, Lit, Pct, Undecided, mkstr
from pyvc.models import _WS, reserved_chars

KEYS = ["ID", "Name", "Note"]
STYLES = {
    "k=v": dict(fmt="gff3", kv="=", quoted=False),
    'k="v"': dict(fmt="gff3", kv="=", quoted=True),
    'k "v"': dict(fmt="gtf", kv=" ", quoted=True),
    "k v": dict(fmt="gff3", kv=" ", quoted=False),
}


def dialects():
    for sep, trailing, (sname, st), repeated in itertools.product((";", "; ", " ; "), (False, True), STYLES.items(), (False, True)):
        d = dict(constants.dialect)
        d.update({"field separator": sep, "trailing semicolon": trailing, "fmt": st["fmt"], "keyval separator": st["kv"],
                  "quoted GFF2 values": st["quoted"], "repeated keys": repeated, "leading semicolon": False, "multival separator": ","})
        yield "%s|%s|%s|%s" % (sname, repr(sep), "trail" if trailing else "notrail", "rep" if repeated else "norep"), d


def value_hole(name, D):
    """a decoded attribute value of the grammar G(D) (precondition of the round-trip clauses)"""
    ws = frozenset(_WS)
    excl_first = set(ws)
    excl_last = set(ws)
    excl = set()
    if not D["quoted GFF2 values"]:
        excl_first.add('"')
    if D["keyval separator"] == " ":
        excl.add(" ")                       # proof-only restriction: blanks inside space-separated styles are covered by the bounded stand-in
    if D["fmt"] != "gff3":
        excl |= set(';",') | {chr(c) for c in range(32)} | {chr(127)}
    v = z3.String(name)
    return Val(v, excl=frozenset(excl), nonempty=True, excl_first=frozenset(excl_first), excl_last=frozenset(excl_last), tag="value")


def wire(u, D):
    return Pct(u) if D["fmt"] == "gff3" else u


def enc(items, D):
    """the specified writer: items = [(key, [Val, ...]), ...] -> string with holes"""
    parts = []
    for k, vs in items:
        groups = [[v] for v in vs] if (D["repeated keys"] and len(vs) > 1) else [vs]
        for g in groups:
            if not g:
                if D["fmt"] == "gtf":
                    parts.append([Lit(k + D["keyval separator"] + '""')])
                else:
                    parts.append([Lit(k)])
                continue
            atoms = [Lit(k + D["keyval separator"])]
            if D["quoted GFF2 values"]:
                atoms.append(Lit('"'))
            for i, v in enumerate(g):
                if i:
                    atoms.append(Lit(D["multival separator"]))
                atoms.append(wire(v, D))
            if D["quoted GFF2 values"]:
                atoms.append(Lit('"'))
            parts.append(atoms)
    out = []
    for i, p in enumerate(parts):
        if i:
            out.append(Lit(D["field separator"]))
        out.extend(p)
    if D["trailing semicolon"]:
        out.append(Lit(";"))
    return mkstr(SStr(out))


def shapes(thorough=False):
    """tuples of value counts per attribute (0 = valueless flag); the first attribute carries a value"""
    base = [(1,), (2,), (3,), (1, 1), (1, 2), (2, 1), (1, 0), (2, 2), (1, 1, 1), (1, 2, 1), (2, 1, 0), (1, 0, 2)]
    if thorough:
        base += [(3, 3), (1, 3, 2), (3, 1, 1), (2, 2, 2), (3, 3, 3), (1, 0, 0)]
    return base


def make_items(shape, D, ctx=None):
    items = []
    for ai, n in enumerate(shape):
        vals = [value_hole("v%d_%d" % (ai, j), D) for j in range(n)]
        if ctx is not None:
            for v in vals:
                for c in v.light_constraints():
                    ctx.assume(c)
        items.append((KEYS[ai], vals))
    return items


def observable(D, items):
    """which dialect keys the line makes observable"""
    nparts = sum((len(vs) if (D["repeated keys"] and len(vs) > 1) else 1) for k, vs in items)
    obs = {"trailing semicolon", "keyval separator", "quoted GFF2 values", "fmt", "leading semicolon", "multival separator"}
    if nparts >= 2:
        obs.add("field separator")
    # repeated keys: observable when some key has several values
    if any(len(vs) > 1 for k, vs in items):
        obs.add("repeated keys")
    # quoting is only visible on an attribute that carries a value
    if not any(vs for k, vs in items):
        obs.discard("quoted GFF2 values")
    return obs


def install(it):
    """contracts for re / urllib used by the parser (assumptions A-R, A-U); bins by its C12 contract"""
    import gffutils.bins as B
    from contracts.common import bins_contract
    it.contracts[B.bins] = bins_contract
    def kw_match(interp, a, k):
        s = a[0]
        s = mkstr(s)
        if isinstance(s, str):
            return P.gff3_kw_pat.match(s)
        lead = s.atoms[0].s if s.atoms and isinstance(s.atoms[0], Lit) else ""
        pat = P.gff3_kw_pat.pattern
        if pat != r"\w+=":
            # the model below is the prefix semantics of THE pattern r"\w+="; for any other pattern only a match that
            # lies strictly inside the leading literal is decided (what follows cannot change it for a greedy
            # character-class prefix), everything else is undecided
            m = P.gff3_kw_pat.match(lead)
            if m is not None and m.end() < len(lead) and P.gff3_kw_pat.match(lead + "\x00") is not None and P.gff3_kw_pat.match(lead + "\x00").end() == m.end():
                return m
            raise Undecided("regex %r: prefix match on a string with holes" % (pat,))
        m = re.match(r"\w+=", lead)
        if m:
            return m
        if lead and not re.fullmatch(r"\w+", lead):
            return None                         # a non-word character precedes any '='
        raise Undecided("regex prefix match on %r" % (s,))
    it.contracts[P.gff3_kw_pat.match] = kw_match

    def unquote(interp, a, k):
        s = mkstr(a[0])
        if isinstance(s, str):
            return urllib.parse.unquote(s)
        out = []
        for at in s.atoms:
            if isinstance(at, Pct):
                out.append(at.u)                # unquote(pct(u)) == u  (lemma C08.quoter.char + A-U)
            elif isinstance(at, Lit):
                if "%" in at.s:
                    raise Undecided("unquote of a literal with '%' next to a hole")
                out.append(at)
            elif isinstance(at, Val) and "%" in at.excl:
                out.append(at)
            elif isinstance(at, Val):
                # a hole that may hold '%': without one the text is unchanged (A-U); with one the decoded text is
                # some other string - over-approximated by a fresh hole (clauses about the value then fail and the
                # model, a value holding '%', is replayed natively)
                if Ctx.current.branch_light(z3.Contains(at.v, z3.StringVal("%")), "value-holds-percent"):
                    out.append(Val(Ctx.current.fresh_str("unquoted"), tag="unquoted"))
                else:
                    out.append(Val(at.v, excl=at.excl | {"%"}, nonempty=at.nonempty, excl_first=at.excl_first, excl_last=at.excl_last, tag=at.tag))
            else:
                raise Undecided("unquote of %r" % (at,))
        interp.ctx.assumed_models.add("contract:urllib.parse.unquote(pct(u)) == u")
        return mkstr(SStr(out))
    it.contracts[urllib.parse.unquote] = unquote


def attrs_of(items):
    a = object.__new__(Attributes)
    a._d = {k: [SStr([v]) for v in vs] for k, vs in items}
    return a


def same_items(quals, items):
    """structural: the parsed mapping holds exactly the item keys in order and, per key, the same
    decoded value holes in order"""
    d = quals._d if isinstance(quals, Attributes) else quals
    if list(d.keys()) != [k for k, vs in items]:
        return False
    for k, vs in items:
        got = d[k]
        if not isinstance(got, list) or len(got) != len(vs):
            return False
        for g, v in zip(got, vs):
            g = SStr.of(g) if isinstance(g, (str, SStr)) else None
            if g is None or len(g.atoms) != 1 or not isinstance(g.atoms[0], Val) or g.atoms[0].v is not v.v:
                return False
    return True
