"""Ghost state and contracts for the importer code (create.py / interface.update): counters as a
solver array, ghost file system, blank creators, symbolic features with attribute shapes,
classification of the executed statements, and the C02 import-side units."""
import itertools
import collections
import os
import tempfile
import builtins

import lark
import z3

import gffutils
import gffutils.create as C
import gffutils.feature as F
import gffutils.helpers as H
import gffutils.interface as I
import gffutils.bins as B
from gffutils import constants
from gffutils.attributes import Attributes

from pyvc.core import Ctx, SStr, SInt, SBool, SSeq, Val, Lit, IntLit, Undecided, mkstr
from pyvc.interp import Interp
from pyvc import ghostdb, sqlmodel as Q
from pyvc.models import _WS
from pyvc.harness import model_of, ev
from contracts.common import bins_contract, blank_feature
from contracts.qharness import Renamer, native_db

IDEXCL = frozenset(_WS)          # ids contain no white space (precondition of the temp-file round trip)


def zs(x):
    if isinstance(x, str):
        return z3.StringVal(x)
    if isinstance(x, SStr):
        return x.z3()
    return x


# ------------------------------------------------------------------------------------------
# model objects
# ------------------------------------------------------------------------------------------
class OpaqueJSON(object):
    """result of helpers._jsonify(x) / argument of _unjsonify: an opaque token that remembers x"""
    _pyvc_model = True

    def __init__(self, of):
        self.of = of

    def __repr__(self):
        return "json(%r)" % (self.of,)


class SymMap(object):
    """collections.defaultdict(int) keyed by (possibly symbolic) strings: a solver array"""
    _pyvc_model = True

    def __init__(self, name="cnt", zero=False):
        self.arr = z3.K(z3.StringSort(), z3.IntVal(0)) if zero else z3.Array(name, z3.StringSort(), z3.IntSort())
        self.arr0 = self.arr
        self.writes = []

    def __getitem__(self, k):
        return SInt(z3.Select(self.arr, zs(k)))

    def __setitem__(self, k, v):
        zv = v.e if isinstance(v, SInt) else z3.IntVal(v)
        self.arr = z3.Store(self.arr, zs(k), zv)
        self.writes.append((k, v))
        Ctx.current.effect("counter-write", k, v)

    def __contains__(self, k):
        raise Undecided("membership test on the counter map")

    def items(self):
        return SSeq(Ctx.current.fresh_int("ncnt"), lambda i: ("<base>", "<n>"), name="counters.items()", kind="counter-items")


class GhostFile(object):
    _pyvc_model = True

    def __init__(self, fs, name, mode):
        self.fs, self.name, self.mode = fs, name, mode
        self.closed = False

    def __enter__(self):
        return self

    def __exit__(self, *a):
        self.closed = True
        Ctx.current.effect("close", self.name)
        return False

    def close(self):
        self.closed = True

    def write(self, s):
        if "w" not in self.mode and "a" not in self.mode:
            raise IOError("not writable")
        self.fs.files.setdefault(self.name, []).append(s)
        Ctx.current.effect("write", self.name, s)

    def writelines(self, lines):
        from pyvc.core import Sym
        if isinstance(lines, Sym):
            raise Undecided("writelines of an abstract sequence")
        for ln in lines:
            self.write(ln)

    def flush(self):
        pass

    def readlines(self):
        return list(self.fs.files.get(self.name, []))

    def __iter__(self):
        return iter(list(self.fs.files.get(self.name, [])))


class GhostFS(object):
    """temp files and opens; names are concrete and fresh by assumption A-P"""

    def __init__(self):
        self.files = {}
        self.created = []
        self.unlinked = []
        self.n = 0

    def install(self, it):
        fs = self

        class _Tmp(object):
            _pyvc_model = True

            def __init__(self, name):
                self.name = name

            def close(self):
                pass

            def flush(self):
                pass

            def __enter__(self):
                return self

            def __exit__(self, *a):
                return False            # NamedTemporaryFile(delete=False) as a context manager: closes, keeps the file

            def write(self, s):
                fs.files.setdefault(self.name, []).append(s)

            def writelines(self, lines):
                for ln in lines:
                    self.write(ln)

        def named_tmp(interp, args, kwargs):
            fs.n += 1
            suffix = kwargs.get("suffix", "") or ""
            if not isinstance(suffix, str):
                raise Undecided("symbolic temp-file suffix")
            name = "/ghost-tmp/tmp%d%s" % (fs.n, suffix)
            fs.created.append(name)
            Ctx.current.effect("tmp-create", name, bool(kwargs.get("delete", True)))
            return _Tmp(name)

        def open_(interp, args, kwargs):
            name = args[0]
            mode = args[1] if len(args) > 1 else kwargs.get("mode", "r")
            if not isinstance(name, str):
                raise Undecided("open() of a symbolic path")
            Ctx.current.effect("open", name, mode)
            return GhostFile(fs, name, mode)

        def unlink(interp, args, kwargs):
            fs.unlinked.append(args[0])
            Ctx.current.effect("unlink", args[0])

        # the shared temporary directory also holds files of OTHER processes: an intermediate file of a concurrent
        # import and an unrelated file.  Directory listings show them (and this call's own live temp files), so that
        # code which sweeps the directory is seen touching what it did not create.
        foreign = ["/ghost-tmp/tmpq7x2k_.gffutils", "/ghost-tmp/unrelated.txt"]

        def listing():
            own = [n for n in fs.created if n not in fs.unlinked]
            return foreign + own

        def glob_(interp, args, kwargs):
            import fnmatch
            pat = args[0]
            if not isinstance(pat, str):
                raise Undecided("glob of a symbolic pattern")
            Ctx.current.effect("glob", pat)
            return [n for n in listing() if fnmatch.fnmatch(n, pat)]

        def listdir(interp, args, kwargs):
            d = args[0] if args else "."
            if not isinstance(d, str):
                raise Undecided("listdir of a symbolic path")
            Ctx.current.effect("listdir", d)
            d = d.rstrip("/")
            return [n[len(d) + 1:] for n in listing() if n.startswith(d + "/") and "/" not in n[len(d) + 1:]]

        def rmtree(interp, args, kwargs):
            fs.unlinked.append(args[0])
            Ctx.current.effect("unlink", args[0])

        import glob as _glob
        import shutil as _shutil
        it.contracts[tempfile.NamedTemporaryFile] = named_tmp
        it.contracts[tempfile.gettempdir] = lambda interp, a, k: "/ghost-tmp"
        it.contracts[builtins.open] = open_
        it.contracts[os.unlink] = unlink
        it.contracts[os.remove] = unlink
        it.contracts[_glob.glob] = glob_
        it.contracts[_glob.iglob] = lambda interp, a, k: iter(glob_(interp, a, k))
        it.contracts[os.listdir] = listdir
        it.contracts[_shutil.rmtree] = rmtree


# ------------------------------------------------------------------------------------------
# blank creator / symbolic feature
# ------------------------------------------------------------------------------------------
class FakeIterator(object):
    _pyvc_model = True

    def __init__(self, dialect):
        self.dialect = dialect
        self.warnings = []
        self.directives = []


def blank_creator(cls, conn, id_spec="ID", merge_strategy="error", counters=None, **fields):
    """an importer object in a chosen state.  The object is first built by the REAL __init__ (run natively on the ghost
    connection, DataIterator answered by the fake iterator), so that instance attributes a later version of __init__
    adds exist; the fields the units reason about are then set to the chosen (possibly symbolic) values."""
    c = object.__new__(cls)
    import gffutils.iterators as _IT
    fake = FakeIterator(constants.dialect)
    real_di, lvl = _IT.DataIterator, C.logger.level
    saved = {k: getattr(conn, k) for k in ("row_factory", "text_factory") if hasattr(conn, k)}
    try:
        _IT.DataIterator = lambda *a, **k: fake
        kw = dict(transcript_key="transcript_id", gene_key="gene_id", subfeature="exon") if issubclass(cls, C._GTFDBCreator) else {}
        try:
            cls.__init__(c, data=fake, dbfn=conn, id_spec=id_spec, merge_strategy="error", verbose=False, text_factory=None, **kw)
        except Exception:
            pass            # a constructor that cannot run on the ghost connection: the fields below are all the state there is
    finally:
        _IT.DataIterator = real_di
        C.logger.setLevel(lvl)
        for k, v in saved.items():
            try:
                setattr(conn, k, v)
            except Exception:
                pass
    d = dict(conn=conn, id_spec=id_spec, merge_strategy=merge_strategy, verbose=False, force_merge_fields=[],
             default_encoding="utf-8", _keep_tempfiles=False, directives=[], disable_infer_genes=False,
             disable_infer_transcripts=False, dbfn=":ghost:", pragmas=constants.default_pragmas,
             _autoincrements=counters if counters is not None else SymMap(), iterator=fake,
             transcript_key="transcript_id", gene_key="gene_id", subfeature="exon")
    d.update(fields)
    for k, v in d.items():
        object.__setattr__(c, k, v)
    # an importer with an ARBITRARY HISTORY: integer bookkeeping the real __init__ starts at a constant (a count of rows
    # written, of lines seen, ...) is an arbitrary non-negative integer here, so that behaviour that only shows from the
    # n-th call on is on some path.  (The logger level saved by __init__ is configuration, not history.)
    if Ctx.current is not None:
        for k, v in list(vars(c).items()):
            if type(v) is int and k not in d and k not in ("_orig_logger_level",):
                h = z3.Int("hist.%s" % k)
                Ctx.current.assume(h >= 0)
                object.__setattr__(c, k, SInt(h))
    return c


def sval(name, excl=IDEXCL, nonempty=True):
    v = z3.String(name)
    return SStr([Val(v, excl=excl, nonempty=nonempty)]), v


def sym_seq_of_strings(name, excl=IDEXCL):
    """abstract list of non-empty strings with symbolic length >= 0"""
    n = z3.Int(name + ".len")
    f = z3.Function(name + ".at", z3.IntSort(), z3.StringSort())
    return SSeq(n, lambda i: SStr([Val(f(i), excl=excl, nonempty=True)]), name=name, kind="strlist"), n, f


def sym_feature(prefix="f", attrs=None):
    """A Feature with symbolic columns and an Attributes whose *keys* are concrete.
    attrs: dict key -> engine value (list of SStr, SSeq, ...)."""
    vars_ = {}
    cols = {}
    for c in ("seqid", "source", "featuretype", "score", "strand", "frame"):
        s, v = sval("%s.%s" % (prefix, c), excl=frozenset("\t\n\r"))
        cols[c] = s
        vars_["%s.%s" % (prefix, c)] = v
    st, en = z3.Int(prefix + ".start"), z3.Int(prefix + ".end")
    vars_[prefix + ".start"], vars_[prefix + ".end"] = st, en
    a = object.__new__(Attributes)
    a._d = dict(attrs or {})
    f = blank_feature(start=SInt(st), end=SInt(en), attributes=a, **cols)
    return f, vars_


# ------------------------------------------------------------------------------------------
# classification of executed statements
# ------------------------------------------------------------------------------------------
class Eff(object):
    def __init__(self, kind, table=None, stmt=None, args=None, forall=None, raw=None, how=None):
        self.kind, self.table, self.stmt, self.args, self.forall, self.raw, self.how = kind, table, stmt, args, forall, raw, how

    def __repr__(self):
        return "<Eff %s %s%s>" % (self.kind, self.table, " forall" if self.forall else "")


def insert_info(node):
    toks = [c for c in node.children if isinstance(c, lark.Token)]
    names = [str(t) for t in toks if t.type == "NAME"]
    conflict = [str(t).upper() for t in toks if t.type == "CONFLICT"]
    exprs = [c for c in node.children if isinstance(c, lark.Tree)]
    return names[0], (conflict[0] if conflict else None), names[1:] or None, exprs


def classify(effects):
    out = []
    stack = []
    for e in effects:
        k = e[0]
        if k == "forall-begin":
            stack.append((e[1], e[2]))
            continue
        if k == "forall-end":
            stack.pop()
            continue
        fa = stack[-1] if stack else None
        if k in ("execute", "executemany", "executescript"):
            q, args = e[1], e[2]
            try:
                st = Q.parse(q)
            except Q.SQLSyntax:
                if k == "executescript":
                    out.append(Eff("script", None, None, args, fa, raw=q, how=k))
                    continue
                # a statement outside the modelled SQL subset is still classified by its verb and table, so that the
                # shape clauses see that SOMETHING writes to / reads from the table (its exact effect is unknown: any
                # clause that needs it fails or is undecided, it is never skipped)
                import re as _re
                txt = " ".join(str(q).split()) if isinstance(q, str) else ""
                m = (_re.match(r"(?i)\s*(delete)\s+from\s+(\w+)", txt) or _re.match(r"(?i)\s*(update)\s+(?:or\s+\w+\s+)?(\w+)", txt)
                     or _re.match(r"(?i)\s*(insert|replace)\s+(?:or\s+\w+\s+)?into\s+(\w+)", txt) or _re.match(r"(?i)\s*(select)\b.*?\bfrom\s+(\w+)", txt))
                if not m:
                    raise
                kind = m.group(1).lower()
                out.append(Eff("insert" if kind == "replace" else kind, m.group(2), None, args, fa, raw=q, how=k))
                continue
            if st.kind == "noeffect":
                out.append(Eff("noeffect", None, st, args, fa, raw=q, how=k))
            elif st.kind == "ddl":
                out.append(Eff("ddl", str(st.node.children[0]), st, args, fa, raw=q, how=k))
            elif st.kind == "insert":
                t, conflict, cols, exprs = insert_info(st.node)
                out.append(Eff("insert", t, st, args, fa, raw=q, how=k))
            elif st.kind in ("delete", "update"):
                t = [str(c) for c in st.node.children if isinstance(c, lark.Token) and c.type == "NAME"][0]
                out.append(Eff(st.kind, t, st, args, fa, raw=q, how=k))
            elif st.kind == "select":
                si = Q.select_info(st.node, allow_limit=True)
                out.append(Eff("select", si.source[1] if si.source[0] == "table" else "<sub>", st, args, fa, raw=q, how=k))
            else:
                out.append(Eff(st.kind, None, st, args, fa, raw=q, how=k))
        else:
            out.append(Eff(k, None, None, list(e[1:]), fa))
    return out


def insert_values(eff, args=None):
    """values of an INSERT as a list of sqlmodel.V (positional or named arguments)"""
    t, conflict, cols, exprs = insert_info(eff.stmt.node)
    a = eff.args if args is None else args
    if isinstance(a, dict):
        env = Q.RowEnv({}, [], eff.stmt.holes, named=a)
    else:
        env = Q.RowEnv({}, list(a), eff.stmt.holes)
    vals = [Q.eval_expr(x, env) for x in exprs]
    if not isinstance(a, dict) and env.pos != len(env.args):
        raise Q.SQLArgs("Incorrect number of bindings supplied")
    return t, conflict, cols, vals


def veq(v, x):
    """z3 equality between an SQL value and an engine value / python constant"""
    w = Q.to_V(x)
    if v.kind == "null" or w.kind == "null":
        return z3.BoolVal(v.kind == w.kind)
    kv = "int" if v.kind in ("int",) else v.kind
    kw_ = "int" if w.kind in ("int",) else w.kind
    if kv != kw_:
        return z3.BoolVal(False)
    return Q._term(v) == Q._term(w)


def _affinity(decl):
    """column affinity of a declared type (SQLite rules, https://sqlite.org/datatype3.html 3.1)"""
    d = (decl or "").upper()
    if "INT" in d:
        return "int"
    if "CHAR" in d or "CLOB" in d or "TEXT" in d:
        return "text"
    if "BLOB" in d or d == "":
        return "blob"
    if "REAL" in d or "FLOA" in d or "DOUB" in d:
        return "real"
    return "numeric"


def schema_tables():
    """{table: ([(column, affinity)], [primary key columns], extras)} of the database that the real constants.SCHEMA creates,
    read back from sqlite itself (PRAGMA table_info / index_list and the stored DDL), so that equivalent spellings of the
    DDL (keyword case, int / integer, an inline primary key on a text column) are the same schema.  extras lists what would
    make a column more than a plain store of what it is given: NOT NULL, DEFAULT, COLLATE, CHECK, UNIQUE, GENERATED,
    REFERENCES, an INTEGER PRIMARY KEY (rowid alias), WITHOUT ROWID."""
    import re
    import sqlite3 as _sq
    conn = _sq.connect(":memory:")
    try:
        conn.executescript(constants.SCHEMA)
        out = {}
        for (name, sql) in conn.execute("SELECT name, sql FROM sqlite_master WHERE type = 'table'").fetchall():
            info = conn.execute("PRAGMA table_info(%s)" % name).fetchall()
            cols = [(r[1], _affinity(r[2])) for r in info]
            pk = [r[1] for r in sorted((r for r in info if r[5]), key=lambda r: r[5])]
            extras = []
            for r in info:
                if r[3]:
                    extras.append("NOT NULL on %s" % r[1])
                if r[4] is not None:
                    extras.append("DEFAULT on %s" % r[1])
            if len(pk) == 1 and dict(cols)[pk[0]] == "int":
                extras.append("INTEGER PRIMARY KEY (rowid alias) %s" % pk[0])
            for r in conn.execute("PRAGMA index_list(%s)" % name).fetchall():
                if r[3] != "pk":
                    extras.append("index %s (origin %s)" % (r[1], r[3]))
            body = re.sub(r"\s+", " ", sql or "")
            for kw in ("COLLATE", "CHECK", "UNIQUE", "GENERATED", "REFERENCES", "WITHOUT ROWID", "AUTOINCREMENT", " AS ("):
                if re.search(r"(?i)(?<![A-Za-z_])%s(?![A-Za-z_])" % re.escape(kw.strip()), body):
                    extras.append("%s in the DDL" % kw.strip())
            out[name] = (cols, pk, extras)
        return out
    finally:
        conn.close()


EXPECTED_SCHEMA = {
    "features": ([(c, "int" if c in ("start", "end", "bin") else "text") for c in Q.FEATURE_COLS], ["id"]),
    "relations": ([("parent", "text"), ("child", "text"), ("level", "int")], ["parent", "child", "level"]),
    "meta": ([("dialect", "text"), ("version", "text")], []),
    "directives": ([("directive", "text")], []),
    "autoincrements": ([("base", "text"), ("n", "int")], ["base"]),
    "duplicates": ([("idspecid", "text"), ("newid", "text")], ["newid"]),
}


def prove_plain_schema(U, prefix, tables):
    """The SQL model's standing assumption about the tables (A-S1), checked against the real SCHEMA text on every run: each
    column is declared `<name> text` or `<name> int` and nothing more - no COLLATE (so `=`, DISTINCT, ORDER BY and the
    primary key compare text exactly, byte for byte), no DEFAULT / CHECK / UNIQUE / generated column - with the stated key."""
    got = schema_tables()
    for t in tables:
        have = got.get(t)
        want = EXPECTED_SCHEMA[t]
        ok = have is not None and list(have[0]) == want[0] and sorted(have[1]) == sorted(want[1]) and not have[2]

        def replay(m, t=t):
            import sqlite3
            conn = sqlite3.connect(":memory:")
            conn.executescript(constants.SCHEMA)
            cols = [r[1] for r in conn.execute("PRAGMA table_info(%s)" % t)]
            textcol = [c for c, d in EXPECTED_SCHEMA[t][0] if d == "text"][0]
            vals = lambda v: [v if c == textcol else (None if c not in EXPECTED_SCHEMA[t][1] else ("k" if dict(EXPECTED_SCHEMA[t][0])[c] == "text" else 1)) for c in cols]
            obs = []
            for v in ("Abc1", "ABC1", "abc1 ", "007", "1e3", "+5"):
                try:
                    conn.execute("INSERT INTO %s VALUES (%s)" % (t, ",".join("?" * len(cols))), vals(v))
                    obs.append("stored %r" % v)
                except sqlite3.Error as e:
                    obs.append("%r refused: %s" % (v, e))
            n = conn.execute("SELECT count() FROM %s WHERE %s = ?" % (t, textcol), ("abc1",)).fetchone()[0]
            exp = ["stored 'Abc1'", "stored 'ABC1'", "stored 'abc1 '", "stored '007'", "stored '1e3'", "stored '+5'"]
            back = sorted(repr(r[0]) for r in conn.execute("SELECT %s FROM %s" % (textcol, t)))
            expback = sorted(repr(v) for v in ("Abc1", "ABC1", "abc1 ", "007", "1e3", "+5"))
            return {"inputs": {"table": t, "column": textcol, "values": ["Abc1", "ABC1", "abc1 ", "007", "1e3", "+5"], "then": "count WHERE %s = 'abc1'; read the column back" % textcol},
                    "expected": [exp, 0, expback], "observed": [obs, n, back], "violates": obs != exp or n != 0 or back != expback}
        U.prove("%s.schema.plain[%s]" % (prefix, t), "table %s: columns %s of plain text / integer affinity (no COLLATE, NOT NULL, DEFAULT, CHECK, UNIQUE, generated or rowid-alias column), primary key %r - text is compared exactly [read back from sqlite after running the real SCHEMA]" % (t, [n for n, _ in want[0]], want[1]),
                [], z3.BoolVal(bool(ok)), {}, replay=replay)


def primary_key(table):
    """PRIMARY KEY columns of a table of the real constants.SCHEMA (as sqlite reports them)"""
    t = schema_tables().get(table)
    return None if t is None else list(t[1])


# ------------------------------------------------------------------------------------------
# C02 import side
# ------------------------------------------------------------------------------------------
def _gff_interp():
    it = Interp()
    it.contracts[B.bins] = bins_contract
    it.contracts[H._jsonify] = lambda interp, a, k: OpaqueJSON(a[0])
    fs = GhostFS()
    fs.install(it)
    return it, fs


def native_gff3_relations(features, **kw):
    """real create_db on Feature objects; returns (db, set of relation triples)"""
    db = gffutils.create_db(features, ":memory:", **kw)
    rel = set(tuple(r) for r in db.conn.execute("SELECT parent, child, level FROM relations"))
    return db, rel


def expected_gff3_relations(features):
    """statement of C02: level 1 = Parent attribute; level 2 = composition of two level-1 edges
    whose top is a stored feature"""
    ids = {f.attributes["ID"][0] for f in features}
    l1 = set()
    for f in features:
        for p in f.attributes.get("Parent", []):
            l1.add((p, f.attributes["ID"][0], 1))
    l2 = set()
    for (a, b, _) in l1:
        for (b2, c, _) in l1:
            if b == b2 and a in ids:
                l2.add((a, c, 2))
    return l1 | l2


def unit_gff_step(U):
    """loop body of _GFFDBCreator._populate_from_lines for an arbitrary feature: relation part.
    Run once as the only line and once AFTER another arbitrary line (its own id and Parent list, possibly
    sharing values): state carried from one iteration to the next would show on the second."""
    for shape, after in (("parents:any", False), ("parents:absent", False), ("parents:any", True)):
        it, fs = _gff_interp()
        fid, fidv = sval("f.ID")
        parents, plen, pat = sym_seq_of_strings("f.Parent")
        attrs = {"ID": [fid]}
        if shape == "parents:any":
            attrs["Parent"] = parents
        vars_ = {"f.ID": fidv, "f.Parent.len": plen}

        def run(ctx, attrs=attrs, after=after):
            ctx.assume(plen >= 0)
            f, fv = sym_feature("f", attrs)
            conn = ghostdb.GhostConn()
            cr = blank_creator(C._GFFDBCreator, conn, id_spec="ID", merge_strategy="error")
            feats = [f]
            if after:
                gid, _ = sval("g.ID")
                gpar, glen, _ = sym_seq_of_strings("g.Parent")
                ctx.assume(glen >= 0)
                g, _ = sym_feature("g", {"ID": [gid], "Parent": gpar})
                feats = [g, f]
                ctx.assumed_models.add("generic-step(after one arbitrary earlier line; independence of earlier history beyond that)")

            def lines():
                for k, x in enumerate(feats):
                    Ctx.current.effect("mark", k)
                    yield x
            it.call(C._GFFDBCreator._populate_from_lines, [cr, lines()], {})
            return f
        base = "C02.gff.step[%s%s]" % (shape, ",after-other-line" if after else "")

        def replay(m, shape=shape):
            n = min(max(int(m.get("f.Parent.len", 0)), 0), 3) if shape == "parents:any" else 0
            feats = [F.Feature(seqid="c", featuretype="gene", start=1, end=9, attributes={"ID": ["p%d" % i]}) for i in range(max(n - 1, 0))]
            ps = ["p%d" % i for i in range(max(n - 1, 0))] + (["dangling"] if n else [])
            a = {"ID": ["kid"]}
            if shape == "parents:any":
                a["Parent"] = ps
            feats.append(F.Feature(seqid="c", featuretype="exon", start=2, end=3, attributes=a))
            try:
                db, rel = native_gff3_relations(feats)
            except Exception as e:
                return {"inputs": [str(f) for f in feats], "observed": "raised %r" % (e,), "violates": True}
            exp = expected_gff3_relations(feats)
            return {"inputs": [str(f) for f in feats], "call": "create_db(features).relations", "expected": sorted(exp), "observed": sorted(rel), "violates": rel != exp}
        for p in U.explore(run, it):
            if p.kind != "return":
                U.prove(base + ".noraise#p%d" % p.index, "the step raises nothing for unique ids, dangling parents included (got %r)" % (p.value,), p.pc, z3.BoolVal(False), vars_, replay=replay)
                continue
            f = p.value
            raw = list(p.ctx.effects)
            marks = [i for i, e in enumerate(raw) if e[0] == "mark"]
            effs = classify(raw[marks[-1]:] if marks else raw)        # the statements issued for f (the last line)
            rel = [e for e in effs if e.table == "relations" and e.kind in ("insert", "delete", "update")
                   and not (e.how == "executemany" and isinstance(e.args, (list, tuple)) and len(e.args) == 0)]      # a batch of no rows is no statement
            has_par = shape == "parents:any"
            # on the path where the Parent list is non-empty there is exactly one forall block
            nonempty = has_par and any(e.forall is not None for e in rel)
            if not has_par or not nonempty:
                U.prove(base + ".none#p%d" % p.index, "no Parent value ==> no statement touches relations", p.pc, z3.BoolVal(len(rel) == 0), vars_, replay=replay)
                continue
            ok_shape = len(rel) == 1 and rel[0].kind == "insert" and rel[0].forall is not None and rel[0].forall[0] is parents
            U.prove(base + ".shape#p%d" % p.index, "exactly one statement touches relations: an INSERT executed once per element of f.attributes['Parent']", p.pc, z3.BoolVal(ok_shape), vars_, replay=replay)
            if not ok_shape:
                continue
            e = rel[0]
            i = e.forall[1]
            try:
                t, conflict, cols, vals = insert_values(e)
            except (Q.SQLArgs, Q.SQLSyntax) as ex:
                U.prove(base + ".lockstep#p%d" % p.index, "valid INSERT with placeholders and arguments in lock-step (%s)" % ex, p.pc, z3.BoolVal(False), vars_, replay=replay)
                continue
            order = cols or Q.TABLE_COLS["relations"]
            row = dict(zip(order, vals))
            goal = z3.And(z3.BoolVal(conflict == "IGNORE" and len(vals) == 3 and set(order) == {"parent", "child", "level"}),
                          veq(row["parent"], parents.elem(i)), veq(row["child"], f.id), veq(row["level"], 1))
            U.prove(base + ".row#p%d" % p.index, "the inserted row is (Parent[i], key of f, 1) for every index i, inserted as a set element (OR IGNORE)", p.pc, goal, vars_, replay=replay)
            pk = primary_key("relations")
            U.prove(base + ".pk#p%d" % p.index, "relations is a set of (parent, child, level) triples: PRIMARY KEY (parent, child, level) in the real SCHEMA", [],
                    z3.BoolVal(pk is not None and sorted(pk) == ["child", "level", "parent"]), {}, replay=replay)
    # side condition of the generic-row rule (one / two representative lines stand for all): the line loop carries no local state
    from pyvc.harness import require_loop_state
    require_loop_state(C._GFFDBCreator._populate_from_lines, {0: (), 1: ()}, "the generic-row rule (C02.gff.step)")


def _rel_fn():
    return z3.Function("Rel", z3.StringSort(), z3.StringSort(), z3.IntSort(), z3.BoolSort())


def unit_gff_finish(U, prefix="C02", only_level1=True):
    """_GFFDBCreator._update_relations: level-2 rows = composition of two level-1 edges.
    only_level1: hypothesis 'relations holds only level-1 rows' (true inside create_db, where the
    populate step inserts level 1 only); without it (FeatureDB.update on an existing database)
    the clause demands that the composed edges themselves are level-1 edges."""
    for keep in (False, True, ".sfx"):
        it, fs = _gff_interp()
        # two generic rows per result (contents symbolic, equal or different): a loop-carried dependency between
        # iterations (a "seen" set, a counter, a first-row flag) shows up on the second row; independence of
        # further iterations is the generic-element rule (assumption recorded in the evidence)
        A = [sval("a%d" % i) for i in (1, 2)]
        Cs = {i: [sval("c%d%d" % (i + 1, j)) for j in (1, 2)] for i in (0, 1)}
        a_s, a_v = A[0]
        c_s, c_v = Cs[0][0]
        vars_ = {"a1": A[0][1], "a2": A[1][1]}
        for i in Cs:
            for j, (s_, v_) in enumerate(Cs[i]):
                vars_["c%d%d" % (i + 1, j + 1)] = v_
        state = {}

        def run(ctx, keep=keep):
            def result_for(cur, kind, q, args):
                st = Q.parse(q)
                if st.kind != "select":
                    return []
                si = Q.select_info(st.node, allow_limit=True)
                if si.source[1] == "features":
                    return [ghostdb.GhostRow(["id"], [A[0][0]]), ghostdb.GhostRow(["id"], [A[1][0]])]
                which = [i for i in (0, 1) if len(args) == 1 and args[0] is A[i][0]]
                if not which:
                    raise Undecided("grandchild query is not driven by the scanned id")
                return [ghostdb.GhostRow(["child"], [c[0]]) for c in Cs[which[0]]]
            conn = ghostdb.GhostConn(result_for=result_for)
            cr = blank_creator(C._GFFDBCreator, conn, _keep_tempfiles=keep)
            ctx.assumed_models.add("generic-rows(2 per result; iteration independence beyond two rows)")
            it.call(C._GFFDBCreator._update_relations, [cr], {})
            return None
        base = "%s.gff.finish[keep=%s]" % (prefix, keep)

        def replay(m):
            # chain g -> m -> e plus a second parent and a second grandparent: level-2 rows must be exactly the compositions
            mk = lambda i, t, par=None: F.Feature(seqid="c", featuretype=t, start=1, end=9, attributes=dict({"ID": [i]}, **({"Parent": par} if par else {})))
            feats = [mk("e", "exon", ["m", "m2"]), mk("g", "gene"), mk("g2", "gene"), mk("m", "mRNA", ["g"]), mk("m2", "mRNA", ["g2", "ghost"]), mk("x", "CDS", ["e"])]
            try:
                db, rel = native_gff3_relations(feats)
            except Exception as e:
                return {"observed": "raised %r" % (e,), "violates": True}
            exp = expected_gff3_relations(feats)
            if rel == exp:
                # the same step run AGAIN on a database that already holds level-2 rows (FeatureDB.update): a chain of depth 4
                chain = [mk("g", "gene"), mk("m", "mRNA", ["g"]), mk("e", "exon", ["m"]), mk("p", "part", ["e"])]
                later = [mk("z", "gene")]
                try:
                    db2 = gffutils.create_db(chain, ":memory:")
                    db2.update(later, make_backup=False)
                    rel2 = {(r["parent"], r["child"], r["level"]) for r in db2.execute("SELECT parent, child, level FROM relations")}
                except Exception as e:
                    return {"inputs": [str(f) for f in chain] + ["update:"] + [str(f) for f in later], "observed": "raised %r" % (e,), "violates": True}
                exp2 = expected_gff3_relations(chain + later)
                if rel2 != exp2:
                    return {"inputs": [str(f) for f in chain] + ["then update() with:"] + [str(f) for f in later], "expected": sorted(exp2), "observed": sorted(rel2), "violates": True}
            return {"inputs": [str(f) for f in feats], "expected": sorted(exp), "observed": sorted(rel), "violates": rel != exp}
        for p in U.explore(run, it):
            if p.kind != "return":
                U.prove(base + ".noraise#p%d" % p.index, "raises nothing (got %r)" % (p.value,), p.pc, z3.BoolVal(False), vars_, replay=replay)
                continue
            effs = classify(p.ctx.effects)
            sel = [e for e in effs if e.kind == "select"]
            ins = [e for e in effs if e.kind == "insert"]
            dml_feat = [e for e in effs if e.table == "features" and e.kind in ("insert", "update", "delete")]
            ok = len(sel) == 3 and len(ins) == 1 and not dml_feat and ins[0].table == "relations"
            U.prove(base + ".shape#p%d" % p.index, "statements: scan of feature ids, one grandchild query per scanned id, one executemany INSERT into relations; features untouched", [], z3.BoolVal(ok), {}, replay=replay)
            if not ok:
                continue
            # driver: all ids
            si = Q.select_info(sel[0].stmt.node)
            U.prove(base + ".driver#p%d" % p.index, "the driving query scans every feature id (SELECT id FROM features, no WHERE)", [],
                    z3.BoolVal(Q.select_cols(si) == ["id"] and si.where is None and not si.joins and si.source[1] == "features"), {}, replay=replay)
            # nested query: child c is selected <==> exists b: Rel(a, b, .) and Rel(b, c, .)
            Rel = _rel_fn()
            same_text = sel[1].stmt.text == sel[2].stmt.text if hasattr(sel[1].stmt, "text") else Q.expr_text(sel[1].stmt.node) == Q.expr_text(sel[2].stmt.node)
            si2 = Q.select_info(sel[1].stmt.node)
            r1, r1v = Q.sym_row("relations", "r1", nullable=())
            r2, r2v = Q.sym_row("relations", "r2", nullable=())

            def subselect(val, selnode, env):
                si3 = Q.select_info(selnode)
                if si3.source[1] != "relations" or len(si3.columns) != 1:
                    raise Undecided("sub-select shape")
                env2 = Q.RowEnv({"relations": r2}, env.args, env.holes)
                env2.pos = env.pos
                col = Q.eval_expr(si3.columns[0][0], env2)
                w = Q.as_tv(Q.eval_expr(si3.where, env2)).t if si3.where is not None else True
                env.pos = env2.pos
                inner = z3.And(Rel(r2["parent"].term, r2["child"].term, r2["level"].term), Q._zb(w), Q._term(val) == Q._term(col))
                ex = z3.Exists([r2["parent"].term, r2["child"].term, r2["level"].term], inner)
                return Q.TV(ex, z3.Not(ex))
            try:
                # the rows the query ranges over: its source and every joined table, each an arbitrary member of Rel (a table
                # may occur several times under aliases: a self-join); sub-selects in the WHERE are handled by `subselect`
                if si2.source[0] != "table" or si2.source[1] != "relations" or any(jt != "relations" for jt, _ in si2.joins):
                    raise Undecided("grandchild query over %r / joins %r" % (si2.source, [jt for jt, _ in si2.joins]))
                aliases = [si2.source[2]] + list(si2.join_aliases)
                if len(set(aliases)) != len(aliases):
                    raise Q.SQLSyntax("ambiguous table name in a self-join without aliases")
                qrows = {}
                for k, al in enumerate(aliases):
                    qrows[al] = r1 if k == 0 else Q.sym_row("relations", "rj%d" % k, nullable=())[0]
                env = Q.RowEnv(qrows, sel[1].args, sel[1].stmt.holes)
                env.subselect = subselect
                parts = [Rel(r["parent"].term, r["child"].term, r["level"].term) for r in qrows.values()]
                for jt, on in si2.joins:
                    parts.append(Q._zb(Q.as_tv(Q.eval_expr(on, env)).t))
                if si2.where is not None:
                    parts.append(Q._zb(Q.as_tv(Q.eval_expr(si2.where, env)).t))
                if len(si2.columns) != 1:
                    raise Undecided("grandchild query projects %d columns" % len(si2.columns))
                projv = Q.eval_expr(si2.columns[0][0], env)
                lock = env.pos == len(env.args)
            except (Q.SQLArgs, Q.SQLSyntax) as ex:
                U.prove(base + ".nested.lockstep#p%d" % p.index, "valid SQL, arguments in lock-step (%s)" % ex, [], z3.BoolVal(False), {}, replay=replay)
                continue
            proj = [Q.expr_text(si2.columns[0][0]).split(".")[-1]]
            b, l1, l2 = z3.String("b"), z3.Int("l1"), z3.Int("l2")
            # selected(c) := exists rows in Rel (one per table occurrence): ON and WHERE hold and the projected column == c
            qvars = [r[c_].term for r in qrows.values() for c_ in ("parent", "child", "level")]
            selected = z3.Exists(qvars, z3.And(*(parts + [Q._term(projv) == c_v])))
            spec = z3.Exists([b], z3.And(Rel(a_v, b, 1), Rel(b, c_v, 1)))
            pp, cc, ll = z3.String("pp"), z3.String("cc"), z3.Int("ll")
            lvl1 = [z3.ForAll([pp, cc, ll], z3.Implies(Rel(pp, cc, ll), ll == 1))] if only_level1 else []
            drv = len(sel[1].args) == 1 and sel[1].args[0] is A[0][0] and len(sel[2].args) == 1 and sel[2].args[0] is A[1][0]
            U.prove(base + ".nested#p%d" % p.index, "for the id a: {child} selected <==> exists b: (a, b, 1) and (b, c, 1) in relations - second level means two level-1 edges" +
                    (" (relations holds only level-1 rows at this point of create_db)" if only_level1 else " (also when level-2 rows already exist, as in update())") +
                    "; the same query is issued for every scanned id with that id as its argument; projected column is child",
                    list(p.pc) + lvl1, z3.And(selected == spec, z3.BoolVal(bool(lock and proj == ["child"] and si2.source[1] == "relations" and drv and same_text))),
                    vars_, replay=replay)
            # the inserted rows
            e = ins[0]
            rows = e.args if isinstance(e.args, list) else list(e.args)
            expected = [(A[i][0], c[0]) for i in (0, 1) for c in Cs[i]]
            goal = z3.BoolVal(False)
            if e.how == "executemany" and all(isinstance(r, (dict, tuple, list)) for r in rows):      # named or positional rows
                try:
                    got = []
                    meta_ok = True
                    for r in rows:
                        t, conflict, cols, vals = insert_values(e, r)
                        order = cols or Q.TABLE_COLS["relations"]
                        meta_ok = meta_ok and conflict == "IGNORE" and t == "relations" and set(order) == {"parent", "child", "level"}
                        got.append(dict(zip(order, vals)))
                    same = lambda row, pa, ch: z3.And(veq(row["parent"], pa), veq(row["child"], ch), veq(row["level"], 2))
                    every_expected = [z3.Or(*[same(row, pa, ch) for row in got]) if got else z3.BoolVal(False) for (pa, ch) in expected]
                    only_expected = [z3.Or(*[same(row, pa, ch) for (pa, ch) in expected]) for row in got]
                    goal = z3.And(z3.BoolVal(bool(meta_ok)), *(every_expected + only_expected))
                except (Q.SQLArgs, Q.SQLSyntax, KeyError) as ex:
                    goal = z3.BoolVal(False)
            U.prove(base + ".insert#p%d" % p.index, "the rows inserted (OR IGNORE) are exactly {(a, c, 2)} for every scanned id a and every c its grandchild query returned - also when two ids share a grandchild - after the temp-file round trip",
                    list(p.pc), goal, vars_, replay=replay)
            # temp file hygiene (shared with C20)
            created = [x.args[0] for x in effs if x.kind == "tmp-create"]
            unlinked = [x.args[0] for x in effs if x.kind == "unlink"]
            U.prove(base + ".tempfile#p%d" % p.index, "the temp file is removed unless _keep_tempfiles", [],
                    z3.BoolVal(len(created) == 1 and ((not keep and unlinked == created) or (bool(keep) and unlinked == []))), {}, replay=replay)
    from pyvc.harness import require_loop_state
    require_loop_state(C._GFFDBCreator._update_relations, {0: (), 1: (), 2: ()}, "the generic-row rule (%s.gff.finish)" % prefix)


def unit_lemma(U):
    """The statement of C02 from the contracts (uninterpreted relations; z3 with quantifiers)."""
    S = z3.StringSort()
    ParentOf = z3.Function("ParentOf", S, S, z3.BoolSort())       # ParentOf(c, p): stored feature c names p in Parent
    IsId = z3.Function("IsId", S, z3.BoolSort())
    R = z3.Function("R", S, S, z3.IntSort(), z3.BoolSort())
    p, c, a, b, x, f = z3.Strings("p c a b x f")
    l = z3.Int("l")
    hyps = [
        # import step contract + fold (set, only adds): level-1 rows
        z3.ForAll([p, c], R(p, c, 1) == z3.And(ParentOf(c, p), IsId(c))),
        # finish contract on a relation holding only level-1 rows
        z3.ForAll([a, c], R(a, c, 2) == z3.And(IsId(a), z3.Exists([b], z3.And(R(a, b, 1), R(b, c, 1))))),
        z3.ForAll([a, c, l], z3.Implies(R(a, c, l), z3.Or(l == 1, l == 2))),
    ]
    children = lambda xx, ff, lv: z3.And(IsId(ff), R(xx, ff, lv))            # query contract (join with features)
    goal1 = z3.ForAll([x, f], children(x, f, 1) == z3.And(IsId(f), ParentOf(f, x)))
    goal2 = z3.ForAll([x, f], z3.Implies(IsId(x), children(x, f, 2) == z3.And(IsId(f), z3.Exists([b], z3.And(children(x, b, 1), children(b, f, 1))))))
    goal3 = z3.ForAll([x, f], z3.Exists([l], children(x, f, l)) == z3.Or(children(x, f, 1), children(x, f, 2)))
    parents = lambda xx, ff, lv: z3.And(IsId(ff), R(ff, xx, lv))
    goal4 = z3.ForAll([x, f, l], z3.Implies(z3.And(IsId(x), IsId(f)), parents(f, x, l) == children(x, f, l)))
    for name, g, text in (("level1", goal1, "children(x,1) == stored features naming x in Parent"),
                          ("level2", goal2, "children(x,2) == level-1 children of the level-1 children of x"),
                          ("union", goal3, "children(x) == union over levels 1 and 2"),
                          ("inverse", goal4, "parents is the exact inverse of children at every level")):
        U.prove("C02.lemma.%s" % name, text, hyps, g, {}, kind="lemma")
    U.refuted("C02.lemma.canary", hyps, z3.BoolVal(False), "contract hypotheses are consistent")


def all_dags(n):
    """all DAGs on nodes 0..n-1 with edges child -> parent only from higher to lower index"""
    pairs = [(c, p) for c in range(n) for p in range(c)]
    for mask in range(1 << len(pairs)):
        yield [(c, p) for k, (c, p) in enumerate(pairs) if mask >> k & 1]


def _copyf(f):
    return F.Feature(seqid=f.seqid, source=f.source, featuretype=f.featuretype, start=f.start, end=f.end, score=f.score, strand=f.strand, frame=f.frame,
                     attributes={k: list(v) for k, v in f.attributes.items()})


def unit_bounded_dags(U):
    """Bounded validation through the real create_db: all DAGs on <= N nodes x all line orders
    (+ a dangling parent), children/parents at levels 1, 2, None vs the statement."""
    N = 4 if U.thorough else 3
    fails, cases = [], 0
    # multi-parent shapes beyond the exhaustive size: a feature with two different grandparents (through two
    # parents / through one parent with two parents), a shared grandchild, a depth-4 chain
    extra = [(5, [(2, 0), (3, 1), (4, 2), (4, 3)]), (4, [(2, 0), (2, 1), (3, 2)]), (5, [(1, 0), (2, 0), (3, 1), (3, 2), (4, 3)]), (4, [(1, 0), (2, 1), (3, 2)])]
    graphs = [(n, edges) for n in range(1, N + 1) for edges in all_dags(n)] + ([] if U.thorough else []) + [g for g in extra]
    for n, edges in graphs:
        if True:
            for perm in itertools.permutations(range(n)):
                if (n, edges) in extra and n == 5 and perm[0] > perm[-1]:
                    continue
                if n == 4 and not U.thorough and (n, edges) not in extra:
                    break
                if n == 4 and perm[0] not in (0, 3) and len(edges) < 3 and (n, edges) not in extra:
                    continue
                feats = []
                for k in perm:
                    a = {"ID": ["n%d" % k]}
                    ps = ["n%d" % p for (c, p) in edges if c == k]
                    if k == n - 1:
                        ps = ps + ["nowhere"]
                    if ps:
                        a["Parent"] = ps
                    feats.append(F.Feature(seqid="c", featuretype="t%d" % k, start=k + 1, end=k + 5, attributes=a))
                cases += 1
                try:
                    db, rel = native_gff3_relations(feats)
                    if (n, edges) in extra and perm == tuple(range(n)):
                        # the same lines arriving in two portions (create_db, then update on the returned object): same graph
                        for cut in range(1, n):
                            cases += 1
                            db_s = gffutils.create_db([_copyf(f) for f in feats[:cut]], ":memory:")
                            db_s.update([_copyf(f) for f in feats[cut:]], make_backup=False)
                            db_s.update([F.Feature(seqid="c", featuretype="other", start=1, end=2, attributes={"ID": ["unrelated"]})], make_backup=False)
                            rel_s = {(r["parent"], r["child"], r["level"]) for r in db_s.execute("SELECT parent, child, level FROM relations")}
                            if rel_s != expected_gff3_relations(feats):
                                fails.append({"case": {"edges": edges, "create_db": [str(f) for f in feats[:cut]], "then update": [str(f) for f in feats[cut:]], "then": "update([an unrelated feature])"},
                                              "expected": sorted(expected_gff3_relations(feats)), "observed": sorted(rel_s)})
                except Exception as e:
                    fails.append({"case": {"edges": edges, "order": perm}, "expected": "no exception", "observed": repr(e)})
                    continue
                exp = expected_gff3_relations(feats)
                bad = None
                if rel != exp:
                    bad = "relations table differs"
                ids = ["n%d" % k for k in range(n)]
                for x in ids:
                    for lv in (1, 2, None):
                        ch = [f.id for f in db.children(x, level=lv)]
                        pa = [f.id for f in db.parents(x, level=lv)]
                        ech = sorted({c for (p, c, l) in exp if p == x and c in ids and (lv is None or l == lv)})
                        epa = sorted({p for (p, c, l) in exp if c == x and p in ids and (lv is None or l == lv)})
                        if sorted(ch) != ech or sorted(pa) != epa or x in ch or x in pa:
                            bad = "children/parents(%s, level=%r): %r / %r, expected %r / %r" % (x, lv, sorted(ch), sorted(pa), ech, epa)
                if db.count_features_of_type() != n:
                    bad = "phantom or lost feature"
                if bad:
                    fails.append({"case": {"edges": edges, "order": perm, "lines": [str(f) for f in feats]}, "expected": sorted(exp), "observed": bad + " " + repr(sorted(rel))})
    U.bounded_result("C02.bounded.dags", "relations table and children/parents at every level == the Parent graph, for every DAG and line order",
                     "all DAGs on <= %d nodes x all line permutations, one dangling Parent value; plus 4 multi-parent / depth-4 shapes on 4-5 nodes (two grandparents, shared grandchild) x line permutations" % N, cases, fails, exhaustive=True)


def c02_units():
    return [("gff.step", unit_gff_step), ("gff.finish", unit_gff_finish), ("lemma", unit_lemma), ("bounded.dags", unit_bounded_dags)]


# ------------------------------------------------------------------------------------------
# JSON as a string hole that remembers what it encodes (assumption A-J: loads(dumps(x)) == x)
# ------------------------------------------------------------------------------------------
_JSON_REG = {}


def json_hole(obj):
    n = len(_JSON_REG)
    v = z3.String("json!%d" % n)
    _JSON_REG[str(v)] = obj
    c = Ctx.current
    hole = Val(v, excl=frozenset("\t\n\r"), nonempty=True, excl_first=frozenset(_WS), excl_last=frozenset(_WS), tag="json")
    if c is not None:
        for k in hole.constraints():
            c.assume(k)
    return SStr([hole])


def json_unhole(s):
    s = SStr.of(s)
    if len(s.atoms) == 1 and isinstance(s.atoms[0], Val) and str(s.atoms[0].v) in _JSON_REG:
        return _JSON_REG[str(s.atoms[0].v)]
    raise Undecided("_unjsonify of a string that is not a JSON hole: %r" % (s,))


def install_json(it):
    it.contracts[H._jsonify] = lambda interp, a, k: json_hole(a[0])

    def un(interp, a, k):
        obj = json_unhole(a[0])
        if k.get("isattributes") or (len(a) > 1 and a[1]):
            if isinstance(obj, Attributes):
                at = object.__new__(Attributes)
                at._d = dict(obj._d)
                return at
            at = object.__new__(Attributes)
            at._d = dict(obj)
            return at
        return obj._d if isinstance(obj, Attributes) else obj
    it.contracts[H._unjsonify] = un
