"""Differential validation of the SQL model against the real sqlite3 (DESIGN.md 2.4): the real
gffutils query builders are run natively with random concrete arguments on random small
databases; the statement they produced is then evaluated by the model on the same rows and
must select exactly what sqlite3 returned.  This validates an *assumed* contract (T3 / A-S1)."""
import collections

import gffutils.feature as F
from pyvc import sqlmodel as Q
from contracts.qharness import native_db

_POINTS = None


def points():
    global _POINTS
    if _POINTS is None:
        pts = {1, 2, 3, 5, 100, 1000}
        for sh in (17, 20, 23, 26, 29):
            for k in (1, 2, 8):
                for d in (-2, -1, 0, 1, 2):
                    v = k * (2 ** sh) + d
                    if v >= 1:
                        pts.add(v)
        _POINTS = sorted(pts)
    return _POINTS


# value pools: mixed case, non-ASCII and numeric-looking names (collation / affinity traps)
SEQIDS = ["a", "b", "a", "b", "A", "10", "9", "\u00e9"]
FEATURETYPES = ["x", "y", "z", "x", "y", "X"]


def random_db(rng, n=6):
    feats = []
    for i in range(n):
        a, b = rng.choice(points()), rng.choice(points())
        if rng.random() < 0.5:
            b = a + rng.choice([0, 1, 2, 50, 2 ** 17, 2 ** 20])
        s, e = min(a, b), max(a, b)
        r = rng.random()
        f = F.Feature(seqid=rng.choice(SEQIDS), source="src", featuretype=rng.choice(FEATURETYPES),
                      start="." if r < 0.07 else s, end="." if 0.05 < r < 0.12 else e, strand=rng.choice(["+", "-", "."]),
                      attributes={"ID": ["f%d" % i]})
        f.id = "f%d" % i
        feats.append(f)
    rels = set()
    for _ in range(rng.randint(0, 8)):
        rels.add((rng.choice(feats).id, rng.choice(feats).id, rng.choice([1, 2])))
    return feats, sorted(rels)


def random_call(rng, feats):
    S, E = sorted([rng.choice(points()), rng.choice(points())])
    seqid = rng.choice(["a", "b"])
    ft = rng.choice([None, "x", ["x", "y"], ("z",)])
    strand = rng.choice([None, "+", "-"])
    cw = rng.random() < 0.5
    k = rng.choice(["all", "fot", "children", "parents", "region", "region", "region1"])
    lim = rng.choice([None, (seqid, S, E), "%s:%d-%d" % (seqid, S, E), (seqid, str(S), str(E))])
    ob = rng.choice([None, "start", ("seqid", "start"), ("length",), "file_order", ("end", "featuretype")])
    rev = rng.random() < 0.3
    if k == "all":
        return "all_features", (), dict(limit=lim, strand=strand, featuretype=ft, completely_within=cw, order_by=ob, reverse=rev)
    if k == "fot":
        return "features_of_type", (ft or "x",), dict(limit=lim, strand=strand, completely_within=cw, order_by=ob, reverse=rev)
    if k in ("children", "parents"):
        return k, (rng.choice(feats).id,), dict(level=rng.choice([None, 1, 2]), featuretype=ft, limit=lim, completely_within=cw, order_by=ob, reverse=rev)
    if k == "region":
        form = rng.choice(["tuple", "kw", "str"])
        if form == "tuple":
            return "region", (), dict(region=(seqid, S, E), strand=strand, featuretype=ft, completely_within=cw)
        if form == "str":
            return "region", (), dict(region="%s:%d-%d" % (seqid, S, E), strand=strand, featuretype=ft, completely_within=cw)
        return "region", (), dict(seqid=seqid, start=S, end=E, strand=strand, featuretype=ft, completely_within=cw)
    which = rng.choice(["start", "end", "none"])
    kw = dict(seqid=seqid, strand=strand, featuretype=ft, completely_within=cw)
    if which == "start":
        kw["start"] = S
    elif which == "end":
        kw["end"] = E
    return "region", (), kw


def model_select(query, args, feats, rels):
    st = Q.parse(query)
    si = Q.select_info(st.node)
    out = []
    rel_rows = [Q.conc_row("relations", {"parent": p, "child": c, "level": l}) for p, c, l in rels]
    for i, f in enumerate(feats):
        t = f.astuple()
        vals = dict(zip(Q.FEATURE_COLS, t))
        vals["rowid"] = i + 1
        fr = Q.conc_row("features", vals)
        pairs = rel_rows if si.joins else [None]
        hit = 0
        for rr in pairs:
            rows = {"features": fr}
            if rr is not None:
                rows["relations"] = rr
            env = Q.RowEnv(rows, list(args), st.holes)
            ok = True
            for jt, on in si.joins:
                ok = ok and bool(Q.as_tv(Q.eval_expr(on, env)).t)
            if si.where is not None:
                w = Q.as_tv(Q.eval_expr(si.where, env)).t
                ok = ok and bool(w)
            if ok:
                hit += 1
        if hit:
            out.extend([f.id] * (1 if si.distinct else hit))
    return out


def validate_templates(rng, n):
    fails = []
    templates = set()
    cases = 0
    feats = rels = db = None
    for i in range(n):
        if i % 10 == 0:
            feats, rels = random_db(rng)
            db = native_db(feats, rels)
        name, a, kw = random_call(rng, feats)
        for attr in ("_last_query", "_last_args"):
            if attr in vars(db):
                delattr(db, attr)
        try:
            real = [x.id for x in getattr(db, name)(*a, **kw)]
        except Exception as e:
            continue            # e.g. order_by='length' as a string (separate finding), not a model question
        if "_last_query" not in vars(db) or "_last_args" not in vars(db):
            continue            # the call sent no statement of its own (nothing for the SQL model to be compared with)
        q, qa = db._last_query, list(db._last_args)
        templates.add(" ".join(q.split())[:160].replace("0", "#").replace("1", "#"))
        cases += 1
        try:
            mod = model_select(q, qa, feats, rels)
        except Exception as e:
            fails.append({"case": {"call": name, "args": repr(a), "kwargs": repr(kw), "query": q}, "expected": "model evaluates", "observed": "model error %r" % (e,)})
            continue
        if collections.Counter(mod) != collections.Counter(real):
            fails.append({"case": {"call": name, "args": repr(a), "kwargs": repr(kw), "query": " ".join(q.split()), "sqlargs": repr(qa),
                                   "rows": [str(f) for f in feats], "relations": rels},
                          "expected": "sqlite3: %r" % sorted(real), "observed": "model: %r" % sorted(mod)})
    return cases, fails, len(templates)


# ---------------------------------------------------------------------------------------------
# bounded stand-in: the statement's set comprehension evaluated natively against the real methods
# ---------------------------------------------------------------------------------------------
def _parse_limit(lim):
    if lim is None:
        return None
    if isinstance(lim, str):
        seqid, ss = lim.split(":")
        s, e = ss.split("-")
        return seqid, int(s), int(e)
    return lim[0], int(lim[1]), int(lim[2])


def expected_ids(name, a, kw, feats, rels):
    """ids the statement of C06/C11/C02 says must be returned (as a multiset: each once)"""
    def type_ok(f, ft):
        if ft is None:
            return True
        if isinstance(ft, str):
            return f.featuretype == ft
        return f.featuretype in ft

    out = []
    for f in feats:
        ok = True
        if name in ("all_features", "features_of_type", "children", "parents"):
            ft = a[0] if name == "features_of_type" else kw.get("featuretype")
            ok = ok and type_ok(f, ft)
            st = kw.get("strand")
            ok = ok and (st is None or f.strand == st)
            lim = _parse_limit(kw.get("limit"))
            if lim is not None:
                q, S, E = lim
                has = f.start is not None and f.end is not None
                if kw.get("completely_within"):
                    ok = ok and f.seqid == q and has and S <= f.start and f.end <= E
                else:
                    ok = ok and f.seqid == q and has and f.start <= E and f.end >= S
            if name in ("children", "parents"):
                x, lv = a[0], kw.get("level")
                if name == "children":
                    ok = ok and any(p == x and c == f.id and (lv is None or l == lv) for p, c, l in rels)
                else:
                    ok = ok and any(c == x and p == f.id and (lv is None or l == lv) for p, c, l in rels)
        elif name == "region":
            reg = kw.get("region")
            q, S, E = kw.get("seqid"), kw.get("start"), kw.get("end")
            if reg is not None:
                q, S, E = _parse_limit(reg)
            ok = ok and type_ok(f, kw.get("featuretype"))
            st = kw.get("strand")
            ok = ok and (st is None or f.strand == st)
            ok = ok and (q is None or f.seqid == q)
            has = f.start is not None and f.end is not None
            if S is not None and E is not None:
                if kw.get("completely_within"):
                    ok = ok and has and S <= f.start and f.end <= E
                else:
                    ok = ok and has and f.start <= E and f.end >= S
            elif S is not None or E is not None:
                return None     # one-sided: handled by the half-line clauses, not by equality
        if ok:
            out.append(f.id)
    return out


def bounded_query_standin(rng, n):
    fails = []
    cases = 0
    distinct = set()
    feats = rels = db = None
    for i in range(n):
        if i % 8 == 0:
            feats, rels = random_db(rng, n=7)
            feats = [f for f in feats if (f.start is None) == (f.end is None)]
            db = native_db(feats, rels)
        name, a, kw = random_call(rng, feats)
        kw = dict(kw)
        kw.pop("order_by", None)
        kw.pop("reverse", None)
        exp = expected_ids(name, a, kw, feats, rels)
        if exp is None:
            continue
        try:
            real = [x.id for x in getattr(db, name)(*a, **kw)]
        except Exception as e:
            fails.append({"case": {"call": name, "args": repr(a), "kwargs": repr(kw)}, "expected": sorted(exp), "observed": "raised %r" % (e,)})
            continue
        cases += 1
        distinct.add((name, repr(a), repr(sorted(kw.items(), key=repr))))
        if sorted(real) != sorted(exp):
            fails.append({"case": {"call": name, "args": repr(a), "kwargs": repr(kw), "rows": [str(f) for f in feats], "relations": rels},
                          "expected": sorted(exp), "observed": sorted(real)})
    return cases, fails, len(distinct)
