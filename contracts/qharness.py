"""Harness pieces shared by the query-side properties (C06, C11, C02, C04, C19): argument
descriptors with a symbolic and a native rendering, a blank FeatureDB over the ghost connection,
and native replay of a counter-model on a real database."""
import z3

import gffutils
from gffutils import constants
import gffutils.interface as I
import gffutils.feature as F

from pyvc.core import SStr, SInt, Val, Lit, IntLit, Undecided
from pyvc import ghostdb
from pyvc.harness import ev


# ---------------------------------------------------------------- argument descriptors
class A(object):
    def vars(self):
        return {}


class Const(A):
    def __init__(self, v):
        self.v = v

    def sym(self):
        return self.v

    def nat(self, m, ren):
        return self.v

    def __repr__(self):
        return repr(self.v)


class Str(A):
    def __init__(self, name, excl=(), nonempty=True):
        self.name, self.excl, self.nonempty = name, frozenset(excl), nonempty
        self.z = z3.String(name)

    def vars(self):
        return {self.name: self.z}

    def sym(self):
        return SStr([Val(self.z, excl=self.excl, nonempty=self.nonempty)])

    def constraints(self):
        return Val(self.z, excl=self.excl, nonempty=self.nonempty).constraints()

    def nat(self, m, ren):
        return ren(m[self.name])

    def __repr__(self):
        return "<str %s>" % self.name


class Int(A):
    def __init__(self, name):
        self.name = name
        self.z = z3.Int(name)

    def vars(self):
        return {self.name: self.z}

    def sym(self):
        return SInt(self.z)

    def nat(self, m, ren):
        return m[self.name]

    def __repr__(self):
        return "<int %s>" % self.name


class DecStr(A):
    """canonical decimal string of an int variable"""
    def __init__(self, name):
        self.name = name
        self.z = z3.Int(name)

    def vars(self):
        return {self.name: self.z}

    def sym(self):
        return SStr([IntLit(self.z)])

    def nat(self, m, ren):
        return str(m[self.name])


class Tup(A):
    def __init__(self, *items, kind=tuple):
        self.items, self.kind = items, kind

    def vars(self):
        d = {}
        for i in self.items:
            d.update(i.vars())
        return d

    def sym(self):
        return self.kind(i.sym() for i in self.items)

    def nat(self, m, ren):
        return self.kind(i.nat(m, ren) for i in self.items)

    def __repr__(self):
        return "%s%r" % (self.kind.__name__, tuple(self.items))


class LimitStr(A):
    """'seqid:S-E'"""
    def __init__(self, seqid, S, E):
        self.seqid, self.S, self.E = seqid, S, E

    def vars(self):
        d = dict(self.seqid.vars())
        d.update(self.S.vars())
        d.update(self.E.vars())
        return d

    def sym(self):
        return SStr([Val(self.seqid.z, excl=self.seqid.excl | {":"}, nonempty=True), Lit(":"), IntLit(self.S.z), Lit("-"), IntLit(self.E.z)])

    def nat(self, m, ren):
        return "%s:%d-%d" % (ren(m[self.seqid.name]), m[self.S.name], m[self.E.name])

    def __repr__(self):
        return "'<seqid>:<S>-<E>'"


def all_vars(kwargs):
    d = {}
    for v in kwargs.values():
        if isinstance(v, A):
            d.update(v.vars())
    return d


def sym_kwargs(kwargs):
    return {k: (v.sym() if isinstance(v, A) else v) for k, v in kwargs.items()}


def nat_kwargs(kwargs, m, ren):
    return {k: (v.nat(m, ren) if isinstance(v, A) else v) for k, v in kwargs.items()}


def constraints(kwargs):
    out = []

    def walk(v):
        if isinstance(v, Str):
            out.extend(v.constraints())
        elif isinstance(v, Tup):
            for i in v.items:
                walk(i)
        elif isinstance(v, LimitStr):
            walk(v.seqid)
            out.append(z3.Not(z3.Contains(v.seqid.z, z3.StringVal(":"))))
    for v in kwargs.values():
        walk(v)
    return out


# ---------------------------------------------------------------- blank database object
class _BootConn(object):
    """stands in for the connection while the REAL FeatureDB.__init__ runs natively: answers the three start-up queries
    with an empty database of the default dialect, accepts pragmas; logs nothing"""

    class _Cur(object):
        def __init__(self):
            self.rows = []

        def execute(self, q, args=()):
            t = " ".join(str(q).split()).upper()
            if "FROM META" in t:
                import gffutils.helpers as _H
                self.rows = [("ghost", _H._jsonify(dict(constants.dialect)))]
            elif "SQLITE_MASTER" in t or "SQLITE_STAT" in t:
                self.rows = [("sqlite_stat1",)]
            else:
                self.rows = []
            return self

        def executescript(self, q):
            return self

        def fetchone(self):
            return self.rows[0] if self.rows else None

        def fetchall(self):
            return list(self.rows)

        def __iter__(self):
            return iter(self.rows)

    def __init__(self):
        self.row_factory = None
        self.text_factory = str

    def cursor(self):
        return _BootConn._Cur()

    def execute(self, q, args=()):
        return self.cursor().execute(q, args)

    def executescript(self, q):
        return self.cursor()

    def commit(self):
        pass


def blank_db(conn=None, dialect=None):
    """A FeatureDB on a ghost connection.  The object is built by the REAL FeatureDB.__init__ (run natively against a
    bootstrap connection), so that every instance attribute the current source sets up exists - a change that adds one
    (a cache, a flag) must not trip the harness; the attributes the units rely on are then set explicitly.  If the
    constructor cannot be run this way the object is assembled by hand (the construction that was used before)."""
    import collections
    import warnings as _w
    db = None
    try:
        import gffutils.create as _C
        boot = object.__new__(_C._DBCreator)
        boot.conn, boot.dbfn = _BootConn(), ":ghost:"
        with _w.catch_warnings():
            _w.simplefilter("ignore")
            db = I.FeatureDB(boot)
    except BaseException:
        db = None
    if db is None:
        db = object.__new__(I.FeatureDB)
    db.conn = conn if conn is not None else ghostdb.GhostConn()
    db.dbfn = ":ghost:"
    db.dialect = dialect or constants.dialect
    db.keep_order = False
    db.sort_attribute_values = False
    db.default_encoding = "utf-8"
    db._autoincrements = collections.defaultdict(int)
    db.directives = []
    db.version = "ghost"
    return db


# ---------------------------------------------------------------- native replay
class Renamer(object):
    """Injective renaming of model strings to harmless tokens (only equality of strings matters
    in the modelled predicates, so truth values are preserved)."""

    def __init__(self, keep=("+", "-", ".")):
        self.map = {}
        self.keep = set(keep)

    def __call__(self, s):
        if s in self.keep:
            return s
        if s not in self.map:
            self.map[s] = "s%d" % len(self.map)
        return self.map[s]


def native_db(features, relations=()):
    """A real in-memory FeatureDB holding exactly `features` (Feature objects with .id set) and
    the given relation triples."""
    dummy = F.Feature(seqid="zz_dummy", source=".", featuretype="zz_dummy", start=1, end=1, attributes={"ID": ["zz_dummy"]})
    db = gffutils.create_db([dummy], ":memory:", id_spec="ID")
    c = db.conn.cursor()
    c.execute("DELETE FROM features")
    for f in features:
        db._insert(f, c)
    for p, ch, lv in relations:
        c.execute("INSERT OR IGNORE INTO relations VALUES (?, ?, ?)", (p, ch, lv))
    db.conn.commit()
    return db


def feature_from_model(m, ren, prefix="f", extra_attrs=None):
    def g(col, default=None):
        return m.get("%s.%s" % (prefix, col), default)
    start = None if m.get("%s.start.isnull" % prefix) else g("start", 1)
    end = None if m.get("%s.end.isnull" % prefix) else g("end", 1)
    fid = ren(g("id", "id"))
    attrs = {"ID": [fid]}
    if extra_attrs:
        attrs.update(extra_attrs)
    f = F.Feature(seqid=ren(g("seqid", "c")), source=ren(g("source", "src")), featuretype=ren(g("featuretype", "t")),
                  start="." if start is None else start, end="." if end is None else end, score=".",
                  strand=ren(g("strand", "+")), frame=".", attributes=attrs)
    f.id = fid
    return f
