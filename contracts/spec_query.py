"""Row predicates of DESIGN.md Appendix A.2 (written from the statements of C06, C11, C02) and
helpers that turn an executed statement into a predicate over symbolic rows."""
import z3
import lark

from pyvc import sqlmodel as Q
from pyvc.core import SStr, SInt, IntLit, Val, Undecided
from contracts import spec_bins as SB


def sym_feature_and_relation():
    frow, fv = Q.sym_row("features", "f")
    rrow, rv = Q.sym_row("relations", "r", nullable=())
    vars_ = dict(fv)
    vars_.update(rv)
    return frow, rrow, vars_


def wf_row(frow):
    """representation invariant of a stored row (C12: astuple()[11] == bins(start, end))"""
    s, e, b = frow["start"], frow["end"], frow["bin"]
    has = z3.And(z3.Not(s.null), z3.Not(e.null))
    return z3.And(z3.Implies(has, z3.And(z3.Not(b.null), b.term == SB.bin1(s.term, e.term, "gff"), s.term <= e.term)),
                  s.null == e.null)


def zstr(x):
    if isinstance(x, str):
        return z3.StringVal(x)
    if isinstance(x, SStr):
        return x.z3()
    return x


def zint(x):
    if isinstance(x, SInt):
        return x.e
    if isinstance(x, int):
        return z3.IntVal(x)
    return x


def has_xy(frow):
    return z3.And(z3.Not(frow["start"].null), z3.Not(frow["end"].null))


def type_ok(frow, featuretype):
    if featuretype is None:
        return z3.BoolVal(True)
    if isinstance(featuretype, (str, SStr, z3.ExprRef)):
        return frow["featuretype"].term == zstr(featuretype)
    items = list(featuretype)
    if not items:
        return z3.BoolVal(True)      # the code treats an empty collection as "no filter" (outside the statement)
    return z3.Or(*[frow["featuretype"].term == zstr(t) for t in items])


def strand_ok(frow, strand):
    if strand is None:
        return z3.BoolVal(True)
    return frow["strand"].term == zstr(strand)


def seq_ok(frow, seqid):
    if seqid is None:
        return z3.BoolVal(True)
    return frow["seqid"].term == zstr(seqid)


def overlap(frow, seqid, S, E):
    return z3.And(seq_ok(frow, seqid), has_xy(frow), frow["start"].term <= zint(E), frow["end"].term >= zint(S))


def within(frow, seqid, S, E):
    return z3.And(seq_ok(frow, seqid), has_xy(frow), zint(S) <= frow["start"].term, frow["end"].term <= zint(E))


def relation_ok(frow, rrow, x, level, kind):
    """kind='children': r.parent == x and r.child == f.id ; 'parents': converse"""
    if kind == "children":
        c = z3.And(rrow["parent"].term == zstr(x), rrow["child"].term == frow["id"].term)
    else:
        c = z3.And(rrow["child"].term == zstr(x), rrow["parent"].term == frow["id"].term)
    if level is not None:
        c = z3.And(c, rrow["level"].term == zint(level))
    return c


class Selected(object):
    """What one executed SELECT computes, as a predicate over (feature row, relation row)."""

    def __init__(self, query, args, frow, rrow):
        self.stmt = Q.parse(query)
        if self.stmt.kind != "select":
            raise Undecided("expected a SELECT, got %s" % self.stmt.kind)
        si = Q.select_info(self.stmt.node)
        self.info = si
        if si.source != ("table", "features", "features"):
            raise Undecided("SELECT source %r" % (si.source,))
        rows = {"features": frow}
        self.joined = False
        for jt, on in si.joins:
            if jt != "relations" or self.joined:
                raise Undecided("join with %s" % jt)
            rows["relations"] = rrow
            self.joined = True
        env = Q.RowEnv(rows, args, self.stmt.holes)
        conds = []
        for (ex, alias) in si.columns:
            pass
        for jt, on in si.joins:
            conds.append(Q._zb(Q.as_tv(Q.eval_expr(on, env)).t))
        if si.where is not None:
            conds.append(Q._zb(Q.as_tv(Q.eval_expr(si.where, env)).t))
        if env.pos != len(env.args):
            raise Q.SQLArgs("Incorrect number of bindings supplied. The current statement uses %d, and there are %d supplied." % (env.pos, len(env.args)))
        self.cond = z3.And(*conds) if conds else z3.BoolVal(True)
        self.distinct = si.distinct
        self.order = [Q.expr_text(o) for o in si.order]
        self.direction = si.direction
        self.columns = [(Q.expr_text(ex), alias) for ex, alias in si.columns]


SELECT_COLUMNS = [(c, None) for c in Q.FEATURE_COLS] + [("features.rowid", "file_order")]
