"""End-to-end symbolic execution of the real create_db on a ghost file: lines have a concrete
*kind* (feature / directive / comment / blank / FASTA marker) and symbolic *content*; sqlite3,
the file system and the per-line parser are contracts.  Used by C14 (directive ownership), C13
(iterator re-use), C19 (first effect), C20 (temp files), C01 (row order), C09 (routing)."""
import itertools
import os
import sqlite3
import collections

import z3

import gffutils
import gffutils.create as C
import gffutils.iterators as IT
import gffutils.interface as I
import gffutils.helpers as H
import gffutils.feature as F
import gffutils.bins as B
from gffutils import constants
from gffutils.attributes import Attributes

from pyvc.core import Ctx, SStr, SInt, Val, Lit, Undecided, mkstr
from pyvc.interp import Interp
from pyvc import ghostdb, sqlmodel as Q
from contracts.common import bins_contract, blank_feature
from contracts import importer as IM


class GhostLines(object):
    """text-mode file handle over a list of lines"""
    _pyvc_model = True

    def __init__(self, lines):
        self.lines = list(lines)

    def __enter__(self):
        return self

    def __exit__(self, *a):
        return False

    def __iter__(self):
        return iter(self.lines)


class GhostTables(object):
    """content of the ghost database as far as the pipeline reads it back"""

    def __init__(self):
        self.directives = []
        self.meta = []
        self.feature_rows = []
        self.statements = []


def make_lines(kinds):
    """kinds: string over F D C B X(##FASTA) G(> header)"""
    lines, info = [], []
    for i, k in enumerate(kinds):
        if k == "F":
            v = z3.String("L%d.text" % i)
            s = SStr([Val(v, nonempty=True, excl=frozenset("\n\r"), excl_first=frozenset("#>"))])
        elif k == "D":
            v = z3.String("L%d.directive" % i)
            s = SStr([Lit("##"), Val(v, excl=frozenset("\n\r"), tag="directive")])
        elif k == "C":
            v = z3.String("L%d.comment" % i)
            s = SStr([Lit("#"), Val(v, excl=frozenset("\n\r"), excl_first=frozenset("#"))])
        elif k == "B":
            v, s = None, ""
        elif k == "X":
            v, s = None, "##FASTA"
        elif k == "G":
            v = z3.String("L%d.header" % i)
            s = SStr([Lit(">"), Val(v, excl=frozenset("\n\r"))])
        else:
            raise ValueError(k)
        lines.append(mkstr(SStr(list(SStr.of(s).atoms) + [Lit("\n")])))
        info.append((k, v, s))
    return lines, info


def install(it, lines, tables, dialect=None, existing_db=False, path="/ghost/in.gff", dbfn="/ghost/out.db", features=None):
    """contracts for everything outside gffutils that create_db touches"""
    fs = IM.GhostFS()
    fs.install(it)
    it.contracts[B.bins] = bins_contract
    it.contracts[H._jsonify] = lambda interp, a, k: IM.OpaqueJSON(a[0])
    it.contracts[H._unjsonify] = lambda interp, a, k: a[0].of if isinstance(a[0], IM.OpaqueJSON) else IM.OpaqueJSON(a[0])
    opened = []
    made = []

    def open_function(interp, a, k):
        opened.append(a[1])
        Ctx.current.effect("open-input", a[1])
        return GhostLines(lines)

    def feature_from_line(interp, a, k):
        line = a[0]
        n = len(made)
        if features is not None:
            f = features(n, line, k)
        else:
            idv = SStr([Val(z3.String("F%d.ID" % n), nonempty=True, excl=IM.IDEXCL)])
            f, _ = IM.sym_feature("F%d" % n, {"ID": [idv]})
        object.__setattr__(f, "_line", line)
        f.dialect = k.get("dialect") or (dialect or constants.dialect)
        made.append(f)
        return f
    it.contracts[IT._FileIterator.open_function] = open_function
    it.contracts[IT.feature_from_line] = feature_from_line
    it.contracts[H._choose_dialect] = lambda interp, a, k: (dialect or constants.dialect)
    exists = {path: True, dbfn: existing_db}

    def path_exists(interp, a, k):
        if a[0] not in exists:
            raise Undecided("os.path.exists(%r)" % (a[0],))
        return exists[a[0]]

    def unlink(interp, a, k):
        Ctx.current.effect("unlink", a[0])
        exists[a[0]] = False
        if a[0] == dbfn and conns:
            conns[0].tables_exist = False        # the tables live in the file: an unlinked file is a fresh, empty database
    # a compressed input may be opened directly (gzip.open) and copied around (shutil.copyfileobj): neither creates a file
    import gzip as _gzip
    import shutil as _shutil

    class _GhostStream(object):
        _pyvc_model = True

        def __init__(self, name):
            self.name = name

        def __enter__(self):
            return self

        def __exit__(self, *a):
            return False

        def close(self):
            pass

    def gzip_open(interp, a, k):
        Ctx.current.effect("open", a[0], a[1] if len(a) > 1 else k.get("mode", "rb"))
        return _GhostStream(a[0])

    def copyfileobj(interp, a, k):
        Ctx.current.effect("copyfileobj", getattr(a[0], "name", None), getattr(a[1], "name", None))
    it.contracts[_gzip.open] = gzip_open
    it.contracts[_shutil.copyfileobj] = copyfileobj
    it.contracts[os.path.exists] = path_exists
    it.contracts[os.unlink] = unlink
    it.contracts[os.remove] = unlink
    it.contracts[os.path.expanduser] = lambda interp, a, k: a[0]
    conns = []

    def on_execute(cur, q, a):
        tables.statements.append((q, a))
        if not isinstance(q, str):
            return
        norm = " ".join(q.split()).upper()
        if "CREATE TABLE" in norm:
            # a script or a single statement: each table named is created, or the statement fails on the first that exists
            import re as _re
            have = conns[0].tables_exist
            if have is True:
                have = conns[0].tables_exist = {"FEATURES", "RELATIONS", "META", "DIRECTIVES", "AUTOINCREMENTS", "DUPLICATES"}
            elif not have:
                have = conns[0].tables_exist = set()
            for ine, t in _re.findall(r"CREATE TABLE (IF NOT EXISTS )?(\w+)", norm):
                if t in have and not ine:
                    raise sqlite3.OperationalError("table %s already exists" % t.lower())
                have.add(t)
        if norm.startswith("INSERT INTO DIRECTIVES"):
            for row in a:
                tables.directives.append(row[0])
        if norm.startswith("INSERT INTO META"):
            tables.meta.append((a["version"], a["dialect"]))
        if norm.startswith("INSERT INTO FEATURES"):
            tables.feature_rows.append(list(a))

    def result_for(cur, kind, q, a):
        if not isinstance(q, str):
            return []
        norm = " ".join(q.split()).upper()
        if norm.startswith("SELECT VERSION, DIALECT FROM META"):
            return [ghostdb.GhostRow(["version", "dialect"], list(tables.meta[0]))] if tables.meta else []
        if norm.startswith("SELECT DIRECTIVE FROM DIRECTIVES"):
            return [ghostdb.GhostRow(["directive"], [d]) for d in tables.directives]
        return []

    def connect(interp, a, k):
        Ctx.current.effect("connect", a[0])
        if not conns:
            c = ghostdb.GhostConn(result_for=result_for, on_execute=on_execute)
            c.tables_exist = bool(exists.get(a[0], False)) and existing_db    # an unlinked file is a fresh, empty database
            conns.append(c)
        exists[a[0]] = True                      # sqlite3.connect creates the file
        return conns[0]
    it.contracts[sqlite3.connect] = connect
    return {"fs": fs, "opened": opened, "made": made, "conns": conns, "exists": exists}


def run_create_db(it, kinds, checklines, **kw):
    def run(ctx):
        lines, info = make_lines(kinds)
        for (k, v, s) in info:
            if k == "D":
                ctx.assume(v != z3.StringVal("FASTA"))
            if isinstance(s, SStr):
                for a in s.atoms:
                    if isinstance(a, Val):
                        for c in a.constraints():
                            ctx.assume(c)
        tables = GhostTables()
        env = install(it, lines, tables, **{k: v for k, v in kw.items() if k in ("dialect", "existing_db", "features", "path")})
        ctx.stash.update(lines=lines, info=info, tables=tables, env=env)
        args = {k: v for k, v in kw.items() if k not in ("dialect", "existing_db", "features", "path")}
        db = it.call(C.create_db, [kw.get("path", "/ghost/in.gff"), "/ghost/out.db"], dict(checklines=checklines, **args))
        ctx.stash["db"] = db
        return db
    return run


def expected_directives(info):
    out = []
    for k, v, s in info:
        if k in ("X", "G"):
            break
        if k == "D":
            out.append(v)
    return out


def same_strings(got, want_vars):
    """got: list of engine strings; want_vars: list of z3 string vars -> z3 Bool"""
    if len(got) != len(want_vars):
        return z3.BoolVal(False)
    cs = []
    for g, w in zip(got, want_vars):
        g = SStr.of(g) if isinstance(g, (str, SStr)) else None
        if g is None:
            return z3.BoolVal(False)
        cs.append(g.z3() == w)
    return z3.And(*cs) if cs else z3.BoolVal(True)


def native_directives_replay(kinds, checklines):
    """replay: a real file with the same line kinds through the real create_db; tried with pairwise distinct
    directive texts and with every directive line doubled (equal texts on several lines, like the '###' marker)"""
    last = None
    for doubled in (False, True):
        ks = "".join((k + k) if (k == "D" and doubled) else k for k in kinds)
        last = _native_directives_replay(ks, checklines, same_text=doubled)
        if last.get("violates"):
            return last
    return _native_directives_replay(kinds, checklines) if last is None else last


def _native_directives_replay(kinds, checklines, same_text=False):
    import tempfile
    lines, exp = [], []
    stopped = False
    nfeat = 0
    for i, k in enumerate(kinds):
        if k == "F":
            lines.append("chr1\t.\tgene\t%d\t%d\t.\t+\t.\tID=f%d" % (10 * i + 1, 10 * i + 5, i))
            nfeat += 0 if stopped else 1
        elif k == "D":
            txt = "directive %d" % ((i // 2 * 2 - (1 if kinds[:i].count("D") % 2 else 0)) if same_text else i)
            if same_text:
                txt = "directive %d" % (kinds[:i].count("D") // 2)
            lines.append("##" + txt)
            if not stopped:
                exp.append(txt)
        elif k == "C":
            lines.append("#comment %d" % i)
        elif k == "B":
            lines.append("")
        elif k == "X":
            lines.append("##FASTA")
            stopped = True
        elif k == "G":
            lines.append(">seq%d" % i)
            stopped = True
    fd, fn = tempfile.mkstemp(suffix=".gff")
    dbfn = fn + ".db"
    try:
        with os.fdopen(fd, "w") as fh:
            fh.write("\n".join(lines) + "\n")
        if nfeat == 0:
            return {"inputs": lines, "violates": False, "observed": "no feature line: create_db refuses empty input (not part of the statement)"}
        db = gffutils.create_db(fn, dbfn, checklines=checklines)
        got = list(db.directives)
        got2 = list(gffutils.FeatureDB(dbfn).directives)
        d = gffutils.DataIterator(fn, checklines=checklines)
        n = len(list(d))
        got3 = list(d.directives)
        bad = got != exp or got2 != exp or got3 != exp or n != nfeat
        return {"inputs": {"lines": lines, "checklines": checklines}, "expected": exp, "observed": {"db.directives": got, "reopened": got2, "DataIterator.directives": got3, "features": n}, "violates": bad}
    except Exception as e:
        return {"inputs": {"lines": lines, "checklines": checklines}, "observed": "raised %r" % (e,), "violates": True}
    finally:
        for x in (fn, dbfn):
            if os.path.exists(x):
                os.unlink(x)


def scenarios(maxlen, alphabet="FDCB"):
    for n in range(1, maxlen + 1):
        for kinds in itertools.product(alphabet, repeat=n):
            yield "".join(kinds)


def _unit_directives(lengths, extra=()):
    def unit(U):
        todo = [k for n in lengths for k in itertools.product("FDCB", repeat=n)]
        todo = ["".join(k) for k in todo if "F" in k] + list(extra)
        for kinds in todo:
            for checklines in (0, 1, 10):
                if checklines == 10 and not (U.thorough or len(kinds) <= 2):
                    continue
                it = Interp()
                run = run_create_db(it, kinds, checklines)
                base = "C14.create_db.directives[%s,checklines=%d]" % (kinds, checklines)
                replay = lambda m, kinds=kinds, checklines=checklines: native_directives_replay(kinds, checklines)
                for p in U.explore(run, it):
                    if p.kind != "return":
                        U.prove(base + ".noraise#p%d" % p.index, "create_db raises nothing on a file with at least one feature line (got %r)" % (p.value,), p.pc, z3.BoolVal(False), {}, replay=replay)
                        continue
                    st = p.ctx.stash
                    want = expected_directives(st["info"])
                    U.prove(base + ".table#p%d" % p.index, "rows written to the directives table == the '##' lines before the terminator, in file order, wherever they sit relative to the inspection window",
                            p.pc, same_strings(st["tables"].directives, want), {}, replay=replay)
                    db = st["db"]
                    U.prove(base + ".readback#p%d" % p.index, "FeatureDB.directives (read back on open) == the same list", p.pc,
                            same_strings(list(getattr(db, "directives", [None])), want), {}, replay=replay)
    return unit


def unit_update_no_directives(U):
    """FeatureDB.update hands no directives to the importer (no duplication)"""
    it = Interp()

    def run(ctx):
        captured = {}

        class FakeCreator(object):
            _pyvc_model = True

            def __init__(self, **kw):
                captured.update(kw)
                self._autoincrements = kw.get("_autoincrements")

            def _populate_from_lines(self, data):
                pass

            def _update_relations(self):
                pass

            def _finalize(self):
                pass
        it.contracts[C._GFFDBCreator] = lambda interp, a, k: FakeCreator(**k)

        class FakeData(object):
            _pyvc_model = True
            _peek = ["x"]
        it.contracts[IT.DataIterator] = lambda interp, a, k: FakeData()
        from contracts.qharness import blank_db
        db = blank_db()
        it.call(I.FeatureDB.update, [db, "<data>"], {"make_backup": False})
        return captured
    for p in U.explore(run, it):
        ok = p.kind == "return" and "directives" not in p.value
        U.prove("C14.update.no_directives#p%d" % p.index, "update() passes no directives list to the importer, so existing directives are not duplicated", [], z3.BoolVal(bool(ok)), {})


def c14_units():
    return [("pipeline.len1-2", _unit_directives((1, 2), extra=("FDXD", "DFGD", "FXF"))), ("pipeline.len3", _unit_directives((3,))),
            ("update", unit_update_no_directives)]
